#!/bin/bash
# offline setup: z3-solver wheel into /verif/.deps for the repository's interpreter (/venv/bin/python, 3.12)
here="$(cd "$(dirname "$0")" && pwd)"
if [ ! -d "$here/.deps/z3" ]; then
  PIP_NO_INDEX=1 /venv/bin/python -m pip install -q --no-index --find-links /opt/veriftools/wheels --target "$here/.deps" z3-solver || exit 1
fi
PYTHONPATH="$here/.deps" /venv/bin/python -c "import z3; print('z3', z3.get_version_string())"
