"""Symbolic interpreter for the Python subset of DESIGN.md 2.3, working directly on the ast of the real functions."""
from __future__ import annotations
import ast, z3
from .values import *
from .extract import ClassInfo, FunctionInfo, SourceIndex
from . import ops


class PyRaise(Exception):
    def __init__(self, exc):
        self.exc = exc


class ReturnSig(Exception):
    def __init__(self, value):
        self.value = value


class BreakSig(Exception):
    pass


class ContinueSig(Exception):
    pass


class Env:
    def __init__(self, parent=None, vars=None):
        self.parent, self.vars = parent, (vars if vars is not None else {})
        self.nonlocals = set()

    def lookup(self, name):
        e = self
        while e is not None:
            if name in e.vars:
                return True, e.vars[name]
            e = e.parent
        return False, None

    def assign(self, name, val):
        if name in self.nonlocals:
            e = self.parent
            while e is not None:
                if name in e.vars:
                    e.vars[name] = val
                    return
                e = e.parent
        self.vars[name] = val


UNBOUND = object()


def x_dataclass_fields(I, a, k):
    """dataclasses.fields(obj or class): the Field objects (name, init, repr, compare) in dataclass order, read from the class source"""
    o = I.force(a[0]) if a else None
    cinfo = o.cls if isinstance(o, SObj) else getattr(o, "info", None)
    if not isinstance(cinfo, ClassInfo) or not cinfo.is_dataclass:
        raise OutsideSubset("dataclasses.fields of something that is not a dataclass of the repository")
    out = []
    for (n, ann, dflt, owner) in cinfo.dataclass_fields():
        if "InitVar" in ast.unparse(ann):
            continue
        flags = {"init": True, "repr": True, "compare": True}
        if dflt is not None and isinstance(dflt, ast.Call) and ast.unparse(dflt.func) in ("field", "dataclasses.field"):
            for kw in dflt.keywords:
                if kw.arg in flags:
                    flags[kw.arg] = ast.literal_eval(kw.value)
        out.append(SObj("dataclasses.Field", {"name": n, **flags}))
    return tuple(out)


class Engine:
    """Global (per run) configuration: source index, summaries (callee contracts), externals."""

    def __init__(self, index=None):
        self.index = index or SourceIndex()
        self.summaries = {}     # qualname -> fn(I, self_or_None, args, kwargs) -> value
        self.externals = {}     # 'mod.attr' -> fn(I, args, kwargs) -> value
        self.externals["dataclasses.fields"] = x_dataclass_fields
        self.max_depth = 12
        self.class_attr_cache = {}
        self.global_cache = {}
        self.loop_invariants = {}   # (qualname, ordinal) -> LoopSpec
        from . import builtins_ as B
        self.builtins = dict(B.BUILTINS)
        self.externals.update(B.EXTERNALS)
        self.functions_seen = set()    # qualnames of repository functions whose bodies were executed
        self.opaque_methods, self.opaque_fields, self.opaque_isinstance, self.external_isinstance = {}, {}, {}, {}
        self.frame_hook = None
        self.verifying = set()
        self.opaque_truth, self.opaque_pytype = {}, {}
        self.external_values = {"os.sep": "/"}
        self.instantiate_hook = None

    def exc_class_chain(self, cls):
        """names of all classes in the exception hierarchy above cls (ClassInfo or builtin name)"""
        out = []
        if isinstance(cls, ClassInfo):
            for c in cls.mro():
                if isinstance(c, ClassInfo):
                    out.append(c.name)
                else:
                    out += self._builtin_chain(c)
        else:
            out += self._builtin_chain(cls)
        return out

    @staticmethod
    def _builtin_chain(name):
        out = []
        while name is not None:
            out.append(name)
            name = EXC_PARENT.get(name)
        return out


class Interp:
    """One interpreter per path (holds the Ctx)."""

    def __init__(self, engine, ctx):
        self.E, self.ctx = engine, ctx
        self.depth = 0
        self.call_stack = []
        self.fn_stack = []

    # ------------------------------------------------------------------ helpers
    def outside(self, msg, node=None):
        where = f" (line {node.lineno})" if node is not None and hasattr(node, "lineno") else ""
        raise OutsideSubset(msg + where)

    def raise_builtin(self, cname, *args):
        raise PyRaise(ExcValue(cname, args))

    def fresh(self, base, kind, sort=None, elem=None):
        name = self.ctx.fresh_name(base)
        if kind == "int":
            return Sym(z3.Int(name), "int")
        if kind == "bool":
            return Sym(z3.Bool(name), "bool")
        if kind == "str":
            return Sym(z3.String(name), "str")
        if kind == "bytes":
            return Sym(z3.Const(name, bytes_sort()), "bytes")
        if kind == "opaque":
            return Sym(z3.Const(name, z3.DeclareSort(sort or "Any")), "opaque", sort or "Any")
        if kind == "seq":
            return Sym(z3.Const(name, z3.SeqSort(ops.elem_sort(elem))), "seq", elem)
        raise ValueError(kind)

    def force(self, v):
        if isinstance(v, SOpt):
            if self.ctx.branch(v.is_none):
                return None
            return self.force(v.val)
        if isinstance(v, SUnion):
            k = self.ctx.choose([c for c, _ in v.alts])
            return self.force(v.alts[k][1])
        return v

    def to_bool(self, v):
        t = ops.truth(self, v)
        return self.ctx.branch(t)

    # ------------------------------------------------------------------ globals
    def global_lookup(self, module, name, node=None):
        key = (module.name, name)
        if key in self.E.global_cache:
            return self.E.global_cache[key]
        r = module.resolve_name(name)
        if r is None:
            if name in self.E.builtins:
                return self.E.builtins[name]
            if name in EXC_PARENT:
                return BuiltinClass(name)
            self.outside(f"unresolved global name {name!r} in {module.name}", node)
        v = self.wrap_resolved(r)
        if not (isinstance(r, tuple) and r[0] == "assign"):
            self.E.global_cache[key] = v
        return v

    def wrap_resolved(self, r):
        if isinstance(r, ClassInfo):
            return ClassRef(r)
        if isinstance(r, FunctionInfo):
            return FuncRef(r)
        if r[0] == "module":
            return ModuleRef(r[1])
        if r[0] == "external":
            return External(f"{r[1]}.{r[2]}")
        if r[0] == "assign":
            _, m, expr = r
            return self.eval(expr, Env(), m, None)
        raise AssertionError(r)

    def class_attr(self, cinfo, name):
        """value of a class-level attribute (searching the MRO), or UNBOUND"""
        store = getattr(self.ctx, "class_attrs", None)
        if store:
            for c in cinfo.mro():
                if isinstance(c, ClassInfo) and (c.qualname, name) in store:
                    return store[(c.qualname, name)]
        found = cinfo.find_class_attr(name)
        if found is None:
            return UNBOUND
        owner, expr = found
        key = (owner.qualname, name)
        if key in self.E.class_attr_cache:
            return self.E.class_attr_cache[key]
        dflt_kw = None
        if isinstance(expr, ast.Call) and ast.unparse(expr.func) in ("field", "dataclasses.field") and owner.is_dataclass:
            dflt_kw = next((kw.value for kw in expr.keywords if kw.arg == "default"), None)
            if dflt_kw is None and not any(kw.arg == "default_factory" for kw in expr.keywords):
                return UNBOUND      # field() without default: the dataclass machinery leaves no class attribute behind
        if owner.is_subclass_of("Enum") or owner.is_subclass_of("enum.Enum"):
            v = EnumVal(owner, name)
        elif dflt_kw is not None:      # dataclass field(default=X): the class attribute (and the value of an instance that never set it) is X
            v = self.eval(dflt_kw, ClassBodyEnv(self, owner), owner.module, owner)
        else:
            env = Env()
            # earlier class attributes are visible while evaluating later ones
            class _Lazy(dict):
                pass
            for n in owner.class_attrs:
                if n == name:
                    break
            env = ClassBodyEnv(self, owner)
            v = self.eval(expr, env, owner.module, owner)
        if ops.is_immutable(v):
            self.E.class_attr_cache[key] = v
        else:       # a mutable class-level object is ONE object for the whole path: every later access aliases it (per-path store)
            if not hasattr(self.ctx, "class_attrs") or self.ctx.class_attrs is None:
                self.ctx.class_attrs = {}
            self.ctx.class_attrs[key] = v
        return v

    # ------------------------------------------------------------------ calling
    def call(self, f, args, kwargs, node=None):
        f = self.force(f)
        if isinstance(f, NativeFn):
            return f.fn(self, args, kwargs)
        if isinstance(f, External):
            impl = self.E.externals.get(f.key)
            if impl is None:
                self.outside(f"call of external {f.key} without assumed contract", node)
            return impl(self, args, kwargs)
        if isinstance(f, FuncRef):
            return self.call_function(f.info, None, args, kwargs, node)
        if isinstance(f, BoundMethod):
            return self.call_function(f.fn, f.self_obj, args, kwargs, node)
        if isinstance(f, Closure):
            return self.call_closure(f, args, kwargs)
        if isinstance(f, ClassRef):
            return self.instantiate(f.info, args, kwargs, node)
        if isinstance(f, BuiltinClass):
            from .builtins_ import TYPE_CALLS
            if f.name in TYPE_CALLS:
                return TYPE_CALLS[f.name](self, args, kwargs)
            if f.name in EXC_PARENT:
                return ExcValue(f.name, tuple(args))
            self.outside(f"call of builtin class {f.name}", node)
        if isinstance(f, ops.SymCallable):
            return f.call(self, args, kwargs)
        self.outside(f"call of {f!r}", node)

    def call_function(self, finfo, self_obj, args, kwargs, node=None):
        q = finfo.qualname
        if q in self.E.summaries and not (q in self.E.verifying and not self.call_stack):
            return self.E.summaries[q](self, self_obj, args, kwargs)
        if self.depth >= self.E.max_depth:
            self.outside(f"inlining depth exceeded at {q}", node)
        if finfo.is_classmethod and self_obj is not None and isinstance(self_obj, SObj):
            self_obj = ClassRef(self_obj.cls)
        full_args = list(args) if (self_obj is None or finfo.is_staticmethod) else [self_obj] + list(args)
        env = Env()
        self.bind_params(finfo.node.args, full_args, kwargs, env, finfo.module, finfo.cls, q)
        self.E.functions_seen.add(q)
        return self.run_body(finfo.node, env, finfo.module, finfo.cls, q)

    def call_closure(self, c, args, kwargs):
        env = Env(c.env)
        self.bind_params(c.node.args, args, kwargs, env, c.module, c.cls, getattr(c.node, "name", "<lambda>"))
        if isinstance(c.node, ast.Lambda):
            return self.eval(c.node.body, env, c.module, c.cls)
        return self.run_body(c.node, env, c.module, c.cls, c.node.name)

    def run_body(self, fnode, env, module, cls, qual):
        if any(isinstance(n, (ast.Yield, ast.YieldFrom)) for n in ast.walk(fnode) if n is not fnode and not isinstance(n, (ast.FunctionDef, ast.Lambda))):
            # generator: collect yielded values eagerly into a list (sound for finite, side-effect-free generators consumed fully)
            env.vars["$yield"] = []
        self.depth += 1
        self.call_stack.append(qual)
        self.fn_stack.append(fnode)
        try:
            self.exec_block(fnode.body, env, module, cls)
            ret = None
        except ReturnSig as r:
            ret = r.value
        finally:
            self.depth -= 1
            self.call_stack.pop()
            self.fn_stack.pop()
        if "$yield" in env.vars:
            return env.vars["$yield"]
        return ret

    def bind_params(self, a, args, kwargs, env, module, cls, qual):
        kwargs = dict(kwargs)
        pos = list(a.posonlyargs) + list(a.args)
        defaults = [None] * (len(pos) - len(a.defaults)) + list(a.defaults)
        args = list(args)
        for i, p in enumerate(pos):
            if i < len(args):
                env.vars[p.arg] = args[i]
            elif p.arg in kwargs:
                env.vars[p.arg] = kwargs.pop(p.arg)
            elif defaults[i] is not None:
                env.vars[p.arg] = self.eval(defaults[i], Env(), module, cls)
            else:
                self.raise_builtin("TypeError", f"{qual}: missing argument {p.arg}")
        extra = args[len(pos):]
        if a.vararg:
            env.vars[a.vararg.arg] = tuple(extra)
        elif extra:
            self.raise_builtin("TypeError", f"{qual}: too many positional arguments")
        for p, d in zip(a.kwonlyargs, a.kw_defaults):
            if p.arg in kwargs:
                env.vars[p.arg] = kwargs.pop(p.arg)
            elif d is not None:
                env.vars[p.arg] = self.eval(d, Env(), module, cls)
            else:
                self.raise_builtin("TypeError", f"{qual}: missing keyword argument {p.arg}")
        if a.kwarg:
            env.vars[a.kwarg.arg] = kwargs
        elif kwargs:
            self.raise_builtin("TypeError", f"{qual}: unexpected keyword arguments {sorted(kwargs)}")

    def instantiate(self, cinfo, args, kwargs, node=None):
        q = cinfo.qualname
        if q in self.E.summaries:
            return self.E.summaries[q](self, None, args, kwargs)
        if self.E.instantiate_hook is not None:
            r = self.E.instantiate_hook(self, cinfo, args, kwargs)
            if r is not UNBOUND:
                return r
        chain = self.E.exc_class_chain(cinfo)
        if "BaseException" in chain:
            o = SObj(cinfo, {"args": tuple(args), **{k: v for k, v in kwargs.items()}}, lazy=True)
            o.born = self.ctx
            return o
        if cinfo.is_subclass_of("Enum"):
            self.outside(f"Enum lookup by value {cinfo.name}(...)", node)
        obj = SObj(cinfo, {})
        obj.born = self.ctx
        init = None
        for c in cinfo.mro():
            if isinstance(c, ClassInfo):
                if "__init__" in c.methods:
                    init = c.methods["__init__"]
                    break
                if c.is_dataclass:
                    break
        if init is not None:
            self.call_function(init, obj, args, kwargs, node)
            return obj
        if cinfo.is_dataclass or any(isinstance(c, ClassInfo) and c.is_dataclass for c in cinfo.mro()):      # an undecorated subclass inherits the generated __init__
            flds = cinfo.dataclass_fields()
            args = list(args)
            kwargs = dict(kwargs)
            initvars = []
            for (n, ann, dflt, owner) in flds:
                init_flag, default, factory = True, UNBOUND, None
                if dflt is not None and isinstance(dflt, ast.Call) and ast.unparse(dflt.func) in ("field", "dataclasses.field"):
                    for kw in dflt.keywords:
                        if kw.arg == "init":
                            init_flag = ast.literal_eval(kw.value)
                        elif kw.arg == "default":
                            default = self.eval(kw.value, Env(), owner.module, owner)
                        elif kw.arg == "default_factory":
                            factory = kw.value
                elif dflt is not None:
                    default = self.eval(dflt, ClassBodyEnv(self, owner), owner.module, owner)
                if "InitVar" in ast.unparse(ann):       # init-only pseudo-field: a parameter of __init__ handed to __post_init__, no attribute
                    if args:
                        initvars.append(args.pop(0))
                    elif n in kwargs:
                        initvars.append(kwargs.pop(n))
                    elif default is not UNBOUND:
                        initvars.append(default)
                    else:
                        self.raise_builtin("TypeError", f"{cinfo.name}: missing argument {n}")
                    continue
                if init_flag and args:
                    obj.fields[n] = args.pop(0)
                elif init_flag and n in kwargs:
                    obj.fields[n] = kwargs.pop(n)
                elif default is not UNBOUND:
                    obj.fields[n] = default
                elif factory is not None:
                    obj.fields[n] = self.call(self.eval(factory, Env(), owner.module, owner), [], {})
                elif init_flag:
                    self.raise_builtin("TypeError", f"{cinfo.name}: missing argument {n}")
            if args or kwargs:
                self.raise_builtin("TypeError", f"{cinfo.name}: unexpected arguments {sorted(kwargs)}")
            post = cinfo.find_method("__post_init__")
            if post is not None:
                self.call_function(post, obj, initvars, {}, node)
            return obj
        if args or kwargs:
            self.raise_builtin("TypeError", f"{cinfo.name}() takes no arguments")
        return obj

    # ------------------------------------------------------------------ statements
    def exec_block(self, stmts, env, module, cls):
        for st in stmts:
            self.exec(st, env, module, cls)

    def exec(self, st, env, module, cls):
        m = getattr(self, "x_" + type(st).__name__, None)
        if m is None:
            self.outside(f"statement {type(st).__name__}", st)
        return m(st, env, module, cls)

    def x_Expr(self, st, env, module, cls):
        if isinstance(st.value, ast.Constant):
            return
        if isinstance(st.value, ast.Yield) and getattr(self, "yield_hooks", None):
            self.yield_hooks[-1](self, self.eval(st.value.value, env, module, cls) if st.value.value else None)
            return
        if isinstance(st.value, ast.Yield):
            env_y = self.find_yield(env)
            env_y.append(self.eval(st.value.value, env, module, cls) if st.value.value else None)
            return
        if isinstance(st.value, ast.YieldFrom):
            env_y = self.find_yield(env)
            it = self.eval(st.value.value, env, module, cls)
            env_y.extend(ops.iterate(self, it, st))
            return
        self.eval(st.value, env, module, cls)

    def find_yield(self, env):
        ok, y = env.lookup("$yield")
        if not ok:
            raise OutsideSubset("yield outside generator")
        return y

    def x_Pass(self, st, env, module, cls):
        pass

    def x_Return(self, st, env, module, cls):
        raise ReturnSig(self.eval(st.value, env, module, cls) if st.value is not None else None)

    def x_Break(self, st, env, module, cls):
        raise BreakSig()

    def x_Continue(self, st, env, module, cls):
        raise ContinueSig()

    def x_Nonlocal(self, st, env, module, cls):
        env.nonlocals.update(st.names)

    def x_Global(self, st, env, module, cls):
        self.outside("global statement", st)

    def x_Import(self, st, env, module, cls):
        for a in st.names:
            env.assign(a.asname or a.name.split(".")[0], ModuleRef(a.name))

    def x_ImportFrom(self, st, env, module, cls):
        for a in st.names:
            m = self.E.index.module(st.module) if st.module else None
            if m is not None:
                r = m.resolve_name(a.name)
                env.assign(a.asname or a.name, self.wrap_resolved(r) if r is not None else External(f"{st.module}.{a.name}"))
            else:
                env.assign(a.asname or a.name, External(f"{st.module}.{a.name}"))

    def x_FunctionDef(self, st, env, module, cls):
        env.assign(st.name, Closure(st, env, module, cls))

    def x_Assert(self, st, env, module, cls):
        if not self.to_bool(self.eval(st.test, env, module, cls)):
            self.raise_builtin("AssertionError")

    def x_Assign(self, st, env, module, cls):
        v = self.eval(st.value, env, module, cls)
        for t in st.targets:
            self.assign_target(t, v, env, module, cls)

    def x_AnnAssign(self, st, env, module, cls):
        if st.value is not None:
            self.assign_target(st.target, self.eval(st.value, env, module, cls), env, module, cls)

    def x_AugAssign(self, st, env, module, cls):
        load = ast.copy_location(_as_load(st.target), st.target)
        cur = self.eval(load, env, module, cls)
        rhs = self.eval(st.value, env, module, cls)
        if isinstance(cur, list) and isinstance(st.op, ast.Add):
            cur.extend(ops.iterate(self, rhs, st))      # list += : in place
            return
        self.assign_target(st.target, ops.binop(self, st.op, cur, rhs, st), env, module, cls)

    def x_Delete(self, st, env, module, cls):
        for t in st.targets:
            if isinstance(t, ast.Subscript):
                o = self.force(self.eval(t.value, env, module, cls))
                k = self.eval(t.slice, env, module, cls)
                ops.delitem(self, o, k, st)
            elif isinstance(t, ast.Name):
                env.vars.pop(t.id, None)
            else:
                self.outside("del target", st)

    def assign_target(self, t, v, env, module, cls):
        if isinstance(t, ast.Name):
            env.assign(t.id, v)
        elif isinstance(t, ast.Attribute):
            o = self.force(self.eval(t.value, env, module, cls))
            ops.setattr_(self, o, t.attr, v, t)
        elif isinstance(t, ast.Subscript):
            o = self.force(self.eval(t.value, env, module, cls))
            if isinstance(t.slice, ast.Slice):       # slice assignment: in-place replacement of a part of a native list
                lo = self.force(self.eval(t.slice.lower, env, module, cls)) if t.slice.lower is not None else None
                hi = self.force(self.eval(t.slice.upper, env, module, cls)) if t.slice.upper is not None else None
                if t.slice.step is not None or not isinstance(o, list) or not all(x is None or isinstance(x, int) for x in (lo, hi)):
                    self.outside("slice assignment on something else than a concrete list with concrete bounds", t)
                o[lo:hi] = ops.iterate(self, v, t)
                return
            k = self.eval(t.slice, env, module, cls)
            ops.setitem(self, o, k, v, t)
        elif isinstance(t, (ast.Tuple, ast.List)):
            items = ops.iterate(self, v, t)
            star = [i for i, e in enumerate(t.elts) if isinstance(e, ast.Starred)]
            if star:
                i = star[0]
                n_after = len(t.elts) - i - 1
                if len(items) < len(t.elts) - 1:
                    self.raise_builtin("ValueError", "not enough values to unpack")
                for e, x in zip(t.elts[:i], items[:i]):
                    self.assign_target(e, x, env, module, cls)
                self.assign_target(t.elts[i].value, list(items[i:len(items) - n_after]), env, module, cls)
                for e, x in zip(t.elts[i + 1:], items[len(items) - n_after:]):
                    self.assign_target(e, x, env, module, cls)
                return
            if len(items) != len(t.elts):
                self.raise_builtin("ValueError", "unpack length mismatch")
            for e, x in zip(t.elts, items):
                self.assign_target(e, x, env, module, cls)
        else:
            self.outside(f"assignment target {type(t).__name__}", t)

    def x_If(self, st, env, module, cls):
        if self.to_bool(self.eval(st.test, env, module, cls)):
            self.exec_block(st.body, env, module, cls)
        else:
            self.exec_block(st.orelse, env, module, cls)

    def x_While(self, st, env, module, cls):
        spec = self.loop_spec(st)
        if spec is not None:
            try:
                return spec.run_while(self, st, env, module, cls)
            except KeyError as e:       # the invariant is written over the locals of the loop as it was; a renamed local is no verdict
                self.outside(f"the loop invariant refers to the local variable {e} which this version of the loop does not have", st)
        n = 0
        while self.to_bool(self.eval(st.test, env, module, cls)):
            n += 1
            if n > 200:
                self.outside("while loop without invariant does not terminate within 200 unrollings", st)
            try:
                self.exec_block(st.body, env, module, cls)
            except BreakSig:
                return
            except ContinueSig:
                continue
        self.exec_block(st.orelse, env, module, cls)

    def loop_spec(self, st):
        if not self.call_stack or not self.E.loop_invariants:
            return None
        q = self.call_stack[-1]
        if not any(k[0] == q for k in self.E.loop_invariants):
            return None
        fnode = self.fn_stack[-1]
        loops = sorted([n for n in ast.walk(fnode) if isinstance(n, (ast.For, ast.While))], key=lambda n: (n.lineno, n.col_offset))
        return self.E.loop_invariants.get((q, loops.index(st)))

    def x_For(self, st, env, module, cls):
        it = self.force(self.eval(st.iter, env, module, cls))
        spec = self.loop_spec(st)
        if spec is not None:
            try:
                return spec.run_for(self, st, it, env, module, cls)
            except KeyError as e:
                self.outside(f"the loop invariant refers to the local variable {e} which this version of the loop does not have", st)
        items = ops.iterate(self, it, st)
        for x in items:
            self.assign_target(st.target, x, env, module, cls)
            try:
                self.exec_block(st.body, env, module, cls)
            except BreakSig:
                return
            except ContinueSig:
                continue
        self.exec_block(st.orelse, env, module, cls)

    def x_Raise(self, st, env, module, cls):
        if st.exc is None:
            ok, cur = env.lookup("$current_exc")
            if not ok:
                self.outside("bare raise outside handler", st)
            raise PyRaise(cur)
        self.in_raise = getattr(self, "in_raise", 0) + 1
        try:
            e = self.force(self.eval(st.exc, env, module, cls))
        finally:
            self.in_raise -= 1
        if isinstance(e, (ClassRef, BuiltinClass)):
            e = self.call(e, [], {}, st)
        if st.cause is not None:
            self.eval(st.cause, env, module, cls)
        raise PyRaise(e)

    def exc_matches(self, exc, typ):
        typ = self.force(typ)
        if isinstance(typ, tuple):
            return any(self.exc_matches(exc, t) for t in typ)
        name = typ.info.name if isinstance(typ, ClassRef) else (typ.name if isinstance(typ, BuiltinClass) else (typ.key.split(".")[-1] if isinstance(typ, External) else None))
        if name is None:
            self.outside(f"except clause with {typ!r}")
        if isinstance(typ, External):
            name = {"ParseException": "ParseException"}.get(name, typ.key if typ.key in EXC_PARENT else name)
        chain = self.E.exc_class_chain(exc.cls) if isinstance(exc, SObj) else self.E._builtin_chain(exc.cname)
        return name in chain

    def x_Try(self, st, env, module, cls):
        try:
            try:
                self.exec_block(st.body, env, module, cls)
            except PyRaise as pr:
                for h in st.handlers:
                    if h.type is None or self.exc_matches(pr.exc, self.eval(h.type, env, module, cls)):
                        if h.name:
                            env.assign(h.name, pr.exc)
                        saved = env.vars.get("$current_exc", UNBOUND)
                        env.vars["$current_exc"] = pr.exc
                        try:
                            self.exec_block(h.body, env, module, cls)
                        finally:
                            if saved is UNBOUND:
                                env.vars.pop("$current_exc", None)
                            else:
                                env.vars["$current_exc"] = saved
                        break
                else:
                    raise
            else:
                self.exec_block(st.orelse, env, module, cls)
        finally:
            if st.finalbody:
                self.exec_block(st.finalbody, env, module, cls)

    def x_With(self, st, env, module, cls):
        if len(st.items) != 1:
            self.outside("with: several items", st)
        item = st.items[0]
        cm = self.eval(item.context_expr, env, module, cls)
        h = ops.enter_context(self, cm, st)
        if item.optional_vars is not None:
            self.assign_target(item.optional_vars, h.value, env, module, cls)
        try:
            self.exec_block(st.body, env, module, cls)
        except (PyRaise, ReturnSig, BreakSig, ContinueSig):
            h.exit(self, True)
            raise
        h.exit(self, False)

    def x_Match(self, st, env, module, cls):
        subj = self.force(self.eval(st.subject, env, module, cls))
        for case in st.cases:
            b = {}
            if self.match_pattern(case.pattern, subj, b, env, module, cls):
                for k, v in b.items():
                    env.assign(k, v)
                if case.guard is not None and not self.to_bool(self.eval(case.guard, env, module, cls)):
                    continue
                self.exec_block(case.body, env, module, cls)
                return

    def match_pattern(self, p, subj, b, env, module, cls):
        if isinstance(p, ast.MatchAs):
            if p.pattern is not None and not self.match_pattern(p.pattern, subj, b, env, module, cls):
                return False
            if p.name:
                b[p.name] = subj
            return True
        if isinstance(p, ast.MatchClass):
            c = self.eval(p.cls, env, module, cls)
            if not self.ctx.branch(ops.isinstance_(self, subj, c)):
                return False
            if p.patterns:
                self.outside("positional class patterns", p)
            for k, sp in zip(p.kwd_attrs, p.kwd_patterns):
                if not self.match_pattern(sp, ops.getattr_(self, subj, k, p), b, env, module, cls):
                    return False
            return True
        if isinstance(p, ast.MatchValue):
            return self.ctx.branch(ops.py_eq(self, subj, self.eval(p.value, env, module, cls)))
        if isinstance(p, ast.MatchSingleton):
            return subj is p.value
        if isinstance(p, ast.MatchOr):
            return any(self.match_pattern(q, subj, b, env, module, cls) for q in p.patterns)
        self.outside(f"pattern {type(p).__name__}", p)

    # ------------------------------------------------------------------ expressions
    def eval(self, e, env, module, cls):
        m = getattr(self, "e_" + type(e).__name__, None)
        if m is None:
            self.outside(f"expression {type(e).__name__}", e)
        return m(e, env, module, cls)

    def e_Constant(self, e, env, module, cls):
        return e.value

    def e_Name(self, e, env, module, cls):
        ok, v = env.lookup(e.id)
        if ok:
            if v is UNBOUND:
                self.raise_builtin("UnboundLocalError", e.id)
            return v
        if module is None:
            self.outside(f"name {e.id} without module", e)
        return self.global_lookup(module, e.id, e)

    def e_Attribute(self, e, env, module, cls):
        o = self.eval(e.value, env, module, cls)
        return ops.getattr_(self, o, e.attr, e)

    def e_Subscript(self, e, env, module, cls):
        o = self.eval(e.value, env, module, cls)
        is_enum = isinstance(o, ClassRef) and (o.info.is_subclass_of("Enum") or o.info.is_subclass_of("enum.Enum"))
        if isinstance(o, (External, BuiltinClass, ClassRef)) and not isinstance(e.slice, ast.Slice) and not is_enum:
            return o     # typing subscripts such as cast(list[str], x) / Type[X]
        if isinstance(e.slice, ast.Slice):
            lo = self.eval(e.slice.lower, env, module, cls) if e.slice.lower is not None else None
            hi = self.eval(e.slice.upper, env, module, cls) if e.slice.upper is not None else None
            stp = self.eval(e.slice.step, env, module, cls) if e.slice.step is not None else None
            return ops.getslice(self, o, lo, hi, stp, e)
        k = self.eval(e.slice, env, module, cls)
        return ops.getitem(self, o, k, e)

    def e_Slice(self, e, env, module, cls):
        self.outside("bare slice object", e)

    def e_Tuple(self, e, env, module, cls):
        out = []
        for x in e.elts:
            if isinstance(x, ast.Starred):
                out.extend(ops.iterate(self, self.eval(x.value, env, module, cls), x))
            else:
                out.append(self.eval(x, env, module, cls))
        return tuple(out)

    def e_List(self, e, env, module, cls):
        return list(self.e_Tuple(e, env, module, cls))

    def e_Set(self, e, env, module, cls):
        return ops.make_set(self, list(self.e_Tuple(e, env, module, cls)), e)

    def e_Dict(self, e, env, module, cls):
        d = {}
        if e.keys and all(k is None for k in e.keys):
            srcs = [self.force(self.eval(v, env, module, cls)) for v in e.values]
            if any(isinstance(x, Sym) and x.kind == "opaque" and x.elem == "Dict" for x in srcs):
                # {**a, **b, ...} over abstract mappings: right-biased merge (later keys win), as an uninterpreted term
                if not all(isinstance(x, Sym) and x.kind == "opaque" and x.elem == "Dict" for x in srcs):
                    self.outside("dict display mixing abstract and concrete mappings", e)
                acc = srcs[0].t
                for x in srcs[1:]:
                    acc = ops.dict_merge(acc, x.t)
                return Sym(acc, "opaque", "Dict")
            for src in srcs:
                if not isinstance(src, dict):
                    self.outside("** of a symbolic mapping", e)
                d.update(src)
            return d
        for k, v in zip(e.keys, e.values):
            if k is None:
                src = self.force(self.eval(v, env, module, cls))
                if not isinstance(src, dict):
                    self.outside("** of a symbolic mapping", e)
                d.update(src)
            else:
                d[ops.dict_key(self, self.eval(k, env, module, cls), e)] = self.eval(v, env, module, cls)
        return d

    def e_IfExp(self, e, env, module, cls):
        if self.to_bool(self.eval(e.test, env, module, cls)):
            return self.eval(e.body, env, module, cls)
        return self.eval(e.orelse, env, module, cls)

    def e_BoolOp(self, e, env, module, cls):
        # Python semantics: value of the deciding operand
        is_and = isinstance(e.op, ast.And)
        v = None
        for i, x in enumerate(e.values):
            v = self.eval(x, env, module, cls)
            if i == len(e.values) - 1:
                return v
            if isinstance(v, Sym) and v.kind == "bool":
                # all-boolean chains are merged into one term when the remaining operands are effect-free booleans
                rest = self._pure_bool_rest(e.values[i + 1:], env, module, cls)
                if rest is not None:
                    terms = [v.t] + rest
                    return Sym(z3.And(*terms) if is_and else z3.Or(*terms), "bool")
            t = self.to_bool(v)
            if is_and and not t:
                return v
            if not is_and and t:
                return v
        return v

    def _pure_bool_rest(self, exprs, env, module, cls):
        """evaluate remaining operands if they are syntactically simple names/attributes/not/compare on locals producing bools"""
        return None

    def e_UnaryOp(self, e, env, module, cls):
        v = self.eval(e.operand, env, module, cls)
        if isinstance(e.op, ast.Not):
            t = ops.truth(self, v)
            if isinstance(t, bool):
                return not t
            return Sym(z3.Not(t), "bool")
        v = self.force(v)
        if isinstance(e.op, ast.USub):
            if isinstance(v, Sym) and v.kind == "int":
                return Sym(-v.t, "int")
            if isinstance(v, (int, float)):
                return -v
        if isinstance(e.op, ast.UAdd) and isinstance(v, (int, float)):
            return v
        self.outside(f"unary {type(e.op).__name__} on {v!r}", e)

    def e_BinOp(self, e, env, module, cls):
        a = self.eval(e.left, env, module, cls)
        b = self.eval(e.right, env, module, cls)
        return ops.binop(self, e.op, a, b, e)

    def e_Compare(self, e, env, module, cls):
        left = self.eval(e.left, env, module, cls)
        result = None
        for op, comp in zip(e.ops, e.comparators):
            right = self.eval(comp, env, module, cls)
            r = ops.compare(self, op, left, right, e)
            if len(e.ops) == 1:
                return r if isinstance(r, bool) else Sym(r, "bool")
            if not self.ctx.branch(r):
                return False
            left = right
        return True

    def e_Call(self, e, env, module, cls):
        # super().__init__ / super().m(...)
        if isinstance(e.func, ast.Attribute) and isinstance(e.func.value, ast.Call) and isinstance(e.func.value.func, ast.Name) and e.func.value.func.id == "super":
            ok, selfv = env.lookup("self")
            if not ok:
                ok, selfv = env.lookup("cls")
            if cls is None or not ok:
                self.outside("super() outside method", e)
            target = None
            mro = (selfv.cls if isinstance(selfv, SObj) else selfv.info).mro()
            keys = [(c.qualname if isinstance(c, ClassInfo) else c) for c in mro]
            i = keys.index(cls.qualname) if cls.qualname in keys else -1
            for c in mro[i + 1:]:
                if isinstance(c, ClassInfo) and e.func.attr in c.methods:
                    target = c.methods[e.func.attr]
                    break
            args, kwargs = self.eval_args(e, env, module, cls)
            if target is None:
                if e.func.attr == "__init__" and isinstance(selfv, SObj) and any(isinstance(c, str) and c.split(".")[-1] == "UserDict" for c in mro):
                    selfv.fields["data"] = dict(args[0]) if args and isinstance(args[0], dict) else {}      # collections.UserDict.__init__
                    return None
                if e.func.attr in ("__init__", "__post_init__", "__init_subclass__"):
                    return None
                if e.func.attr == "__new__" and len(args) == 1 and isinstance(args[0], ClassRef) and not kwargs:
                    # object.__new__(cls): a fresh, uninitialised instance of that class
                    o = SObj(args[0].info, {}, lazy=True)
                    o.born = self.ctx
                    return o
                self.outside(f"super().{e.func.attr} not found", e)
            return self.call_function(target, selfv, args, kwargs, e)
        if isinstance(e.func, ast.Name) and e.func.id == "cast" and len(e.args) == 2 and not env.lookup("cast")[0]:
            return self.eval(e.args[1], env, module, cls)       # typing.cast(T, e) -> e  (T is not evaluated)
        f = self.eval(e.func, env, module, cls)
        args, kwargs = self.eval_args(e, env, module, cls)
        return self.call(f, args, kwargs, e)

    def eval_args(self, e, env, module, cls):
        args = []
        for a in e.args:
            if isinstance(a, ast.Starred):
                args.extend(ops.iterate(self, self.eval(a.value, env, module, cls), a))
            else:
                args.append(self.eval(a, env, module, cls))
        kwargs = {}
        for k in e.keywords:
            if k.arg is None:
                d = self.force(self.eval(k.value, env, module, cls))
                if not isinstance(d, dict):
                    self.outside("** of symbolic mapping in call", e)
                kwargs.update(d)
            else:
                kwargs[k.arg] = self.eval(k.value, env, module, cls)
        return args, kwargs

    def e_Lambda(self, e, env, module, cls):
        return Closure(e, env, module, cls)

    def e_NamedExpr(self, e, env, module, cls):
        v = self.eval(e.value, env, module, cls)
        # walrus inside comprehension binds in the enclosing function scope; our comprehension envs mark themselves
        tgt = env
        while getattr(tgt, "is_comp", False):
            tgt = tgt.parent
        tgt.assign(e.target.id, v)
        return v

    def e_JoinedStr(self, e, env, module, cls):
        if getattr(self, "in_raise", 0):
            return self.fresh("excmsg", "str")     # text of exception messages is not modelled (DESIGN.md 2.2)
        parts = []
        for v in e.values:
            if isinstance(v, ast.Constant):
                parts.append(v.value)
            else:
                x = self.eval(v.value, env, module, cls)
                if v.conversion == 114:
                    parts.append(ops.to_repr(self, x, e))
                else:
                    parts.append(ops.to_str(self, x, e))
        return ops.concat_strs(self, parts)

    def _comp(self, e, env, module, cls, emit):
        def rec(gi, cenv):
            if gi == len(e.generators):
                emit(cenv)
                return
            g = e.generators[gi]
            it = self.force(self.eval(g.iter, cenv if gi else env, module, cls))
            items = ops.iterate(self, it, e, comp=(e, gi, cenv))
            for x in items:
                self.assign_target(g.target, x, cenv, module, cls)
                if all(self.to_bool(self.eval(c, cenv, module, cls)) for c in g.ifs):
                    rec(gi + 1, cenv)
        cenv = Env(env)
        cenv.is_comp = True
        rec(0, cenv)

    def e_ListComp(self, e, env, module, cls):
        sm = ops.symbolic_comprehension(self, e, env, module, cls)
        if sm is not None:
            return sm
        out = []
        self._comp(e, env, module, cls, lambda ce: out.append(self.eval(e.elt, ce, module, cls)))
        return out

    def e_GeneratorExp(self, e, env, module, cls):
        # generator expressions are evaluated eagerly - sound only where they are consumed on the spot (argument of any / all / join /
        # list / sorted / ...).  One that is stored, returned or chained is lazy in Python (late binding of free variables): not modelled.
        def in_place(node):
            par = getattr(node, "_parent", None)
            if par is None or isinstance(par, ast.Call):
                return True
            if isinstance(par, (ast.For,)) and par.iter is node:
                return True
            if isinstance(par, ast.comprehension) and par.iter is node:      # iterable of an enclosing comprehension
                outer = getattr(par, "_parent", None)
                return isinstance(outer, (ast.ListComp, ast.SetComp, ast.DictComp)) or (isinstance(outer, ast.GeneratorExp) and in_place(outer))
            return False
        if not in_place(e):
            self.outside("generator expression that is not consumed where it is created (lazy evaluation is not modelled)", e)
        return self.e_ListComp(e, env, module, cls)

    def e_SetComp(self, e, env, module, cls):
        out = []
        self._comp(e, env, module, cls, lambda ce: out.append(self.eval(e.elt, ce, module, cls)))
        return ops.make_set(self, out, e)

    def e_DictComp(self, e, env, module, cls):
        d = {}
        def emit(ce):
            k = ops.dict_key(self, self.eval(e.key, ce, module, cls), e)
            d[k] = self.eval(e.value, ce, module, cls)
        self._comp(e, env, module, cls, emit)
        return d

    def e_Starred(self, e, env, module, cls):
        self.outside("starred expression", e)

    def e_Await(self, e, env, module, cls):
        self.outside("await", e)


class ClassBodyEnv(Env):
    """environment in which class-level expressions are evaluated: names of the class body resolve to class attrs"""

    def __init__(self, interp, cinfo):
        super().__init__()
        self.I, self.cinfo = interp, cinfo

    def lookup(self, name):
        if name in self.vars:
            return True, self.vars[name]
        if name in self.cinfo.class_attrs:
            v = self.I.class_attr(self.cinfo, name)
            return True, v
        if name in self.cinfo.methods:
            return True, FuncRef(self.cinfo.methods[name])
        return False, None


def _as_load(t):
    t2 = ast.parse(ast.unparse(t), mode="eval").body
    return t2
