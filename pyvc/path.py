"""Path context and explorer (decision replay).

A path is executed from scratch with a prefix of recorded branch decisions; at the first undecided symbolic branch
both sides are checked for feasibility, one is taken and the other queued.  No state copying is needed.
"""
from __future__ import annotations
import z3, time


class Infeasible(Exception):
    pass


class PathLimit(Exception):
    pass


class PathEnd(Exception):
    """the path ends here without reaching a function exit (e.g. after the inductive step of a loop invariant)"""


class Obligation:
    def __init__(self, label, kind, pc, goal, site=None, meta=None):
        self.label, self.kind, self.pc, self.goal, self.site = label, kind, list(pc), goal, site
        self.meta = meta or {}


class Ctx:
    def __init__(self, explorer, prefix):
        self.ex = explorer
        self.prefix = list(prefix)
        self.trace = []
        self.pc = []
        self.obligations = []
        self.trivial = []
        self.solver = z3.Solver()
        self.solver.set("timeout", explorer.feas_timeout_ms)
        self.counter = {}
        self.notes = []

    # -- names
    def fresh_name(self, base):
        n = self.counter.get(base, 0)
        self.counter[base] = n + 1
        return f"{base}!{n}"

    # -- assumptions
    def assume(self, cond):
        if isinstance(cond, bool):
            if not cond:
                raise Infeasible()
            return
        self.pc.append(cond)
        self.solver.add(cond)

    def feasible(self, cond):
        r = self.solver.check(cond)
        self.ex.feas_checks += 1
        return r != z3.unsat      # unknown counts as feasible (sound: never drops a path)

    def branch(self, cond):
        """Decide a symbolic condition on this path. Returns a Python bool."""
        if isinstance(cond, bool):
            return cond
        cond = z3.simplify(cond)
        if z3.is_true(cond):
            return True
        if z3.is_false(cond):
            return False
        i = len(self.trace)
        if i < len(self.prefix):
            choice = self.prefix[i]
        else:
            t = self.feasible(cond)
            f = self.feasible(z3.Not(cond))
            if t and f:
                self.ex.enqueue(self.trace + [False])
                choice = True
            elif t:
                choice = True
            elif f:
                choice = False
            else:
                raise Infeasible()
        self.trace.append(choice)
        self.assume(cond if choice else z3.Not(cond))
        return choice

    def choose(self, conds):
        """n-way branch over mutually exclusive conditions; returns the chosen index."""
        for k, c in enumerate(conds[:-1]):
            if self.branch(c):
                return k
        # last alternative: remaining case (conds assumed exhaustive by the caller); still record its condition
        last = conds[-1]
        if not isinstance(last, bool):
            if not self.branch(last):
                raise Infeasible()
        elif not last:
            raise Infeasible()
        return len(conds) - 1

    # -- obligations
    def require(self, cond, label, kind="VC", site=None, meta=None):
        """Proof obligation pc => cond; afterwards cond is assumed."""
        if isinstance(cond, bool):
            if cond:
                self.trivial.append((label, kind))
                return
            cond = z3.BoolVal(False)
        cond_s = z3.simplify(cond)
        if z3.is_true(cond_s):
            self.trivial.append((label, kind))      # decided by evaluation / simplification on this path: counted, no solver call
            return
        self.obligations.append(Obligation(label, kind, self.pc, cond, site, meta))
        self.assume(cond)


class PathResult:
    def __init__(self, ctx, outcome, value):
        self.ctx, self.outcome, self.value = ctx, outcome, value   # outcome: 'return' | 'raise' | 'outside'


class Explorer:
    def __init__(self, max_paths=2000, feas_timeout_ms=400):
        self.queue = [[]]
        self.max_paths = max_paths
        self.feas_timeout_ms = feas_timeout_ms
        self.feas_checks = 0
        self.paths = 0

    def enqueue(self, prefix):
        self.queue.append(prefix)

    def run(self, body):
        """body(ctx) -> (outcome, value).  Yields PathResult for every feasible path."""
        results = []
        while self.queue:
            prefix = self.queue.pop()
            self.paths += 1
            if self.paths > self.max_paths:
                raise PathLimit(f"more than {self.max_paths} paths")
            ctx = Ctx(self, prefix)
            try:
                outcome, value = body(ctx)
            except Infeasible:
                if ctx.obligations:      # the path was cut after an obligation that is plainly false: keep the obligation
                    results.append(PathResult(ctx, "cut", None))
                continue
            results.append(PathResult(ctx, outcome, value))
        return results
