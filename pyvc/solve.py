"""Discharge obligations: one query per obligation, each in a forked child with a hard wall-clock kill.

Verdicts:  proved (unsat) | refuted (sat, with model values) | unknown (timeout / solver unknown / killed).
Portfolio: z3 5.1 (python API, in the forked child);  on unknown: /usr/bin/z3 4.8.12 and cvc5 on the SMT-LIB text.
"""
from __future__ import annotations
import os, sys, time, json, select, signal, subprocess, tempfile, re
import z3


def term_to_py(v):
    try:
        if z3.is_int_value(v):
            return v.as_long()
        if z3.is_true(v):
            return True
        if z3.is_false(v):
            return False
        if z3.is_string_value(v):
            return decode_z3_string(v.as_string())
        if v.sort().kind() == z3.Z3_DATATYPE_SORT:
            return {"ctor": v.decl().name(), "args": [term_to_py(a) for a in v.children()]}
        if z3.is_seq(v):
            # sequence literal: concat of units / empty
            out = []

            def go(t):
                if z3.is_app_of(t, z3.Z3_OP_SEQ_CONCAT):
                    for c in t.children():
                        go(c)
                elif z3.is_app_of(t, z3.Z3_OP_SEQ_UNIT):
                    out.append(term_to_py(t.arg(0)))
                elif z3.is_app_of(t, z3.Z3_OP_SEQ_EMPTY):
                    pass
                else:
                    out.append(str(t))
            go(v)
            return out
    except Exception:
        pass
    return str(v)


def decode_z3_string(s):
    def rep(m):
        return chr(int(m.group(1), 16))
    s = re.sub(r"\\u\{([0-9a-fA-F]+)\}", rep, s)
    s = re.sub(r"\\x([0-9a-fA-F]{2})", rep, s)
    return s


def _child(query, model_terms, budget_ms, wfd):
    t0 = time.time()
    res = {"status": "unknown", "solver": "z3-5.1-api"}
    try:
        s = z3.Solver()
        s.set("timeout", int(budget_ms))
        for a in query:
            s.add(a)
        r = s.check()
        res["status"] = "proved" if r == z3.unsat else ("refuted" if r == z3.sat else "unknown")
        if r == z3.sat:
            m = s.model()
            vals = {}
            for name, t in model_terms.items():
                try:
                    vals[name] = term_to_py(m.eval(t, model_completion=True))
                except Exception as e:      # pragma: no cover
                    vals[name] = f"<{e}>"
            res["model"] = vals
            res["model_text"] = str(m)[:4000]
        elif r == z3.unknown:
            res["reason"] = s.reason_unknown()
    except Exception as e:
        res["status"] = "error"
        res["reason"] = repr(e)
    res["time_s"] = round(time.time() - t0, 4)
    try:
        os.write(wfd, json.dumps(res).encode())
    finally:
        os._exit(0)


def run_external(smt2_text, budget_s):
    """try the other installed solvers on the SMT-LIB text; returns (status, solver, time) or None"""
    out = None
    with tempfile.NamedTemporaryFile("w", suffix=".smt2", delete=False, dir="/dev/shm" if os.path.isdir("/dev/shm") else None) as f:
        f.write(smt2_text)
        path = f.name
    try:
        for name, cmd in (("z3-4.8.12", ["/usr/bin/z3", f"-T:{int(budget_s)}", path]),
                          ("cvc5-1.0.3", ["/usr/bin/cvc5", "--strings-exp", f"--tlimit={int(budget_s * 1000)}", path])):
            t0 = time.time()
            try:
                p = subprocess.run(cmd, capture_output=True, text=True, timeout=budget_s * 1.5 + 2)
                first = (p.stdout.strip().splitlines() or [""])[0].strip()
            except subprocess.TimeoutExpired:
                first = "timeout"
            if first == "unsat":
                return ("proved", name, round(time.time() - t0, 3))
            if first == "sat":
                out = ("refuted-nomodel", name, round(time.time() - t0, 3))
    finally:
        os.unlink(path)
    return out


def discharge(jobs, budget_s=10.0, nproc=None, portfolio=True, stage1=None):
    """jobs: list of dicts {id, query: [z3 Bool...] (to be checked for unsat), model_terms: {name: term}}.
    Returns dict id -> result dict."""
    nproc = nproc or min(16, os.cpu_count() or 4)
    full_budget = budget_s
    if stage1 is not None:
        budget_s = stage1
    if portfolio:
        budget_s = min(budget_s, 3.0)      # first stage is short: what z3 5.1 proves, it proves quickly; the rest goes to the portfolio at the full budget
    pending = list(jobs)
    running = {}     # pid -> (job, rfd, deadline, t0)
    results = {}
    while pending or running:
        while pending and len(running) < nproc:
            job = pending.pop(0)
            rfd, wfd = os.pipe()
            sys.stdout.flush()
            sys.stderr.flush()
            pid = os.fork()
            if pid == 0:
                os.close(rfd)
                _child(job["query"], job.get("model_terms", {}), budget_s * 1000, wfd)
            os.close(wfd)
            running[pid] = (job, rfd, time.time() + budget_s * 1.5 + 1.0, time.time())
        # poll
        done = []
        for pid, (job, rfd, deadline, t0) in running.items():
            r, _, _ = select.select([rfd], [], [], 0)
            if r:
                data = b""
                while True:
                    chunk = os.read(rfd, 65536)
                    if not chunk:
                        break
                    data += chunk
                os.close(rfd)
                os.waitpid(pid, 0)
                try:
                    res = json.loads(data.decode())
                except Exception:
                    res = {"status": "unknown", "reason": "child died", "solver": "z3-5.1-api", "time_s": round(time.time() - t0, 3)}
                results[job["id"]] = res
                done.append(pid)
            elif time.time() > deadline:
                try:
                    os.kill(pid, signal.SIGKILL)
                except ProcessLookupError:
                    pass
                os.waitpid(pid, 0)
                os.close(rfd)
                results[job["id"]] = {"status": "unknown", "reason": "hard kill", "solver": "z3-5.1-api", "time_s": round(time.time() - t0, 3)}
                done.append(pid)
        for pid in done:
            del running[pid]
        if not done:
            time.sleep(0.005)
    if portfolio:
        budget_s = full_budget
        unknown = [job for job in jobs if results[job["id"]]["status"] == "unknown"]
        if unknown:
            from concurrent.futures import ThreadPoolExecutor
            texts = {}
            for job in unknown:
                try:
                    sv = z3.Solver()
                    for a in job["query"]:
                        sv.add(a)
                    texts[job["id"]] = sv.to_smt2()
                except Exception:
                    pass

            def one(args):
                jid, name, cmd_fn = args
                t0 = time.time()
                with tempfile.NamedTemporaryFile("w", suffix=".smt2", delete=False, dir="/dev/shm" if os.path.isdir("/dev/shm") else None) as f:
                    f.write(texts[jid])
                    path = f.name
                try:
                    p = subprocess.run(cmd_fn(path), capture_output=True, text=True, timeout=budget_s * 1.5 + 2)
                    first = (p.stdout.strip().splitlines() or [""])[0].strip()
                except subprocess.TimeoutExpired:
                    first = "timeout"
                finally:
                    os.unlink(path)
                return jid, name, first, round(time.time() - t0, 3)
            stages = [[("cvc5-1.0.3", lambda p: ["/usr/bin/cvc5", "--strings-exp", f"--tlimit={int(budget_s * 1000)}", p])],
                      [("z3-4.8.12", lambda p: ["/usr/bin/z3", f"-T:{int(budget_s)}", p]), ("z3-5.1-cli", lambda p: ["z3-new", f"-T:{int(budget_s)}", p])]]
            for stage in stages:
                tasks = [(jid, name, fn) for jid in texts if results[jid]["status"] == "unknown" for name, fn in stage]
                if not tasks:
                    break
                with ThreadPoolExecutor(max_workers=nproc) as ex:
                    for jid, name, first, dt in ex.map(one, tasks):
                        res = results[jid]
                        if first == "unsat" and res["status"] == "unknown":
                            res.update({"status": "proved", "solver": name, "time_s": dt, "first_solver_reason": res.get("reason")})
    return results


def portfolio_texts(open_results, budget_s, nproc=None):
    """open_results: {id: result dict with 'smt2'}; tries cvc5 first, then z3 4.8.12 / z3 5.1 CLI; updates the dicts in place"""
    if not open_results:
        return
    from concurrent.futures import ThreadPoolExecutor
    nproc = nproc or min(16, os.cpu_count() or 4)

    def one(args):
        jid, name, cmd_fn = args
        t0 = time.time()
        with tempfile.NamedTemporaryFile("w", suffix=".smt2", delete=False, dir="/dev/shm" if os.path.isdir("/dev/shm") else None) as f:
            f.write(open_results[jid]["smt2"])
            path = f.name
        try:
            p = subprocess.run(cmd_fn(path), capture_output=True, text=True, timeout=budget_s * 1.5 + 2)
            first = (p.stdout.strip().splitlines() or [""])[0].strip()
        except subprocess.TimeoutExpired:
            first = "timeout"
        finally:
            os.unlink(path)
        return jid, name, first, round(time.time() - t0, 3)
    stages = [[("cvc5-1.0.3", lambda p: ["/usr/bin/cvc5", "--strings-exp", f"--tlimit={int(budget_s * 1000)}", p])],
              [("z3-4.8.12", lambda p: ["/usr/bin/z3", f"-T:{int(budget_s)}", p]), ("z3-5.1-cli", lambda p: ["z3-new", f"-T:{int(budget_s)}", p])]]
    for stage in stages:
        tasks = [(jid, name, fn) for jid, r in open_results.items() if r["status"] == "unknown" for name, fn in stage]
        if not tasks:
            break
        with ThreadPoolExecutor(max_workers=nproc) as ex:
            for jid, name, first, dt in ex.map(one, tasks):
                res = open_results[jid]
                if first == "unsat" and res["status"] == "unknown":
                    res.update({"status": "proved", "solver": name, "time_s": dt, "first_solver_reason": res.get("reason")})
