"""Source index: locate modules, classes and functions of the repository *without importing it*.

Everything the verifier knows about the code under verification comes from ast.parse of the files in
REPO (default /repo, override with env PYVC_REPO) at the moment of the run.
"""
from __future__ import annotations
import ast, os, hashlib

REPO = os.environ.get("PYVC_REPO", "/repo")


class FunctionInfo:
    def __init__(self, module, cls, node):
        self.module, self.cls, self.node = module, cls, node
        self.name = node.name
        self.decorators = [ast.unparse(d) for d in node.decorator_list]

    @property
    def qualname(self):
        return f"{self.module.name}:{self.cls.name + '.' if self.cls else ''}{self.name}"

    @property
    def is_classmethod(self):
        return "classmethod" in self.decorators

    @property
    def is_staticmethod(self):
        return "staticmethod" in self.decorators

    @property
    def is_property(self):
        return "property" in self.decorators

    def source_lines(self):
        return (self.node.lineno, self.node.end_lineno)

    def source_hash(self):
        return hashlib.sha1(ast.dump(self.node).encode()).hexdigest()[:12]


class ClassInfo:
    def __init__(self, module, node):
        self.module, self.node, self.name = module, node, node.name
        self.methods = {}
        self.class_attrs = {}      # name -> ast expr (class-level assignments)
        self.annotations = {}      # name -> ast annotation (in order, dataclass fields)
        self.decorators = [ast.unparse(d) for d in node.decorator_list]
        for st in node.body:
            if isinstance(st, (ast.FunctionDef, ast.AsyncFunctionDef)):
                # keep the last definition, but property setters must not override getters
                fi = FunctionInfo(module, self, st)
                if any(d.endswith(".setter") for d in fi.decorators):
                    self.methods[st.name + ".setter"] = fi
                else:
                    self.methods[st.name] = fi
            elif isinstance(st, ast.Assign) and len(st.targets) == 1 and isinstance(st.targets[0], ast.Name):
                self.class_attrs[st.targets[0].id] = st.value
            elif isinstance(st, ast.AnnAssign) and isinstance(st.target, ast.Name):
                self.annotations[st.target.id] = st.annotation
                if st.value is not None:
                    self.class_attrs[st.target.id] = st.value
        self._bases = None

    @property
    def is_dataclass(self):
        if any(d.split("(")[0] in ("dataclass", "dataclasses.dataclass") for d in self.decorators):
            return True
        return False

    @property
    def qualname(self):
        return f"{self.module.name}:{self.name}"

    def bases(self):
        if self._bases is None:
            out = []
            for b in self.node.bases:
                if isinstance(b, ast.Subscript):     # Generic[...] / Base[T]
                    b = b.value
                name = ast.unparse(b)
                r = self.module.resolve_name(name)
                out.append(r if isinstance(r, ClassInfo) else name)   # unresolved bases stay as strings
            self._bases = out
        return self._bases

    def mro(self):
        """C3 is not needed for the single/mixin hierarchies in scope: depth-first, left to right, dedup keeping last."""
        seen, order = set(), []

        def go(c):
            order.append(c)
            if isinstance(c, ClassInfo):
                for b in c.bases():
                    go(b)
        go(self)
        res = []
        for i, c in enumerate(order):
            key = c.qualname if isinstance(c, ClassInfo) else c
            if key in [(x.qualname if isinstance(x, ClassInfo) else x) for x in order[i + 1:]]:
                continue
            res.append(c)
        return res

    def is_subclass_of(self, other):
        key = other.qualname if isinstance(other, ClassInfo) else other
        return any((c.qualname if isinstance(c, ClassInfo) else c) == key for c in self.mro())

    def find_method(self, name):
        for c in self.mro():
            if isinstance(c, ClassInfo) and name in c.methods:
                return c.methods[name]
        return None

    def find_class_attr(self, name):
        for c in self.mro():
            if isinstance(c, ClassInfo) and name in c.class_attrs:
                return c, c.class_attrs[name]
        return None

    def dataclass_fields(self):
        """(name, annotation, default-expr-or-None, owner ClassInfo) in dataclass order (bases first)."""
        fields = {}
        for c in reversed(self.mro()):
            if not isinstance(c, ClassInfo) or not c.is_dataclass:
                continue
            for n, ann in c.annotations.items():
                if "ClassVar" in ast.unparse(ann):
                    continue
                fields[n] = (n, ann, c.class_attrs.get(n), c)
        return list(fields.values())


class ModuleInfo:
    def __init__(self, index, name, path):
        self.index, self.name, self.path = index, name, path
        self.source = open(path, encoding="utf-8").read()
        self.tree = ast.parse(self.source, filename=path)
        for node in ast.walk(self.tree):         # parent links (used to see where a generator expression is consumed)
            for child in ast.iter_child_nodes(node):
                child._parent = node
        self.classes, self.functions, self.imports, self.assigns = {}, {}, {}, {}
        self._scan(self.tree.body)

    def _scan(self, body):
        for st in body:
            if isinstance(st, ast.ClassDef):
                self.classes[st.name] = ClassInfo(self, st)
            elif isinstance(st, (ast.FunctionDef, ast.AsyncFunctionDef)):
                self.functions[st.name] = FunctionInfo(self, None, st)
            elif isinstance(st, ast.ImportFrom):
                mod = st.module or ""
                if st.level:
                    base = self.name.split(".")
                    strip = st.level - (1 if self.path.endswith("__init__.py") else 0)
                    base = base[: len(base) - strip]
                    mod = ".".join(base + ([mod] if mod else []))
                for a in st.names:
                    self.imports[a.asname or a.name] = (mod, a.name)
            elif isinstance(st, ast.Import):
                for a in st.names:
                    self.imports[a.asname or a.name.split(".")[0]] = (a.name if a.asname else a.name.split(".")[0], None)
            elif isinstance(st, ast.Assign) and len(st.targets) == 1 and isinstance(st.targets[0], ast.Name):
                self.assigns[st.targets[0].id] = st.value
            elif isinstance(st, ast.AnnAssign) and isinstance(st.target, ast.Name) and st.value is not None:
                self.assigns[st.target.id] = st.value
            elif isinstance(st, ast.If):      # TYPE_CHECKING blocks and the like: scan both arms for imports/defs
                self._scan(st.body)
                self._scan(st.orelse)
            elif isinstance(st, ast.Try):
                self._scan(st.body)

    def resolve_name(self, name):
        """Resolve a (possibly dotted) global name to ClassInfo / FunctionInfo / ('module', name) / ('assign', ModuleInfo, expr) / None."""
        head, _, rest = name.partition(".")
        key = (self.name, head)
        if key in self.index._resolving:
            return None          # import cycle
        self.index._resolving.add(key)
        try:
            return self._resolve_name(name)
        finally:
            self.index._resolving.discard(key)

    def _resolve_name(self, name):
        head, _, rest = name.partition(".")
        if head in self.classes:
            r = self.classes[head]
        elif head in self.functions:
            r = self.functions[head]
        elif head in self.assigns:
            r = ("assign", self, self.assigns[head])
        elif head in self.imports:
            mod, attr = self.imports[head]
            if attr is None:
                r = ("module", mod)
            else:
                m = self.index.module(mod)
                if m is None:
                    # maybe "from pkg import submodule"
                    sub = self.index.module(mod + "." + attr)
                    r = ("module", mod + "." + attr) if sub is not None else ("external", mod, attr)
                else:
                    r = m.resolve_name(attr)
                    if r is None:
                        sub = self.index.module(mod + "." + attr)
                        r = ("module", mod + "." + attr) if sub is not None else ("external", mod, attr)
        else:
            return None
        if rest:
            if isinstance(r, tuple) and r[0] == "module":
                m = self.index.module(r[1])
                if m is not None:
                    return m.resolve_name(rest)
                return ("external", r[1], rest)
            if isinstance(r, tuple) and r[0] == "external":
                return ("external", r[1], r[2] + "." + rest)
            return None
        return r


class SourceIndex:
    def __init__(self, repo=None):
        self.repo = repo or REPO
        self._mods = {}
        self._resolving = set()

    def module(self, name):
        if name in self._mods:
            return self._mods[name]
        p = os.path.join(self.repo, *name.split("."))
        path = None
        if os.path.isfile(p + ".py"):
            path = p + ".py"
        elif os.path.isfile(os.path.join(p, "__init__.py")):
            path = os.path.join(p, "__init__.py")
        m = ModuleInfo(self, name, path) if path else None
        self._mods[name] = m
        return m

    def lookup(self, qualname):
        """'sigma.types:SigmaString.to_plain' -> FunctionInfo ; 'sigma.types:SigmaString' -> ClassInfo"""
        modname, _, rest = qualname.partition(":")
        m = self.module(modname)
        if m is None:
            raise KeyError(f"module {modname} not found under {self.repo}")
        parts = rest.split(".")
        if parts[0] in m.classes:
            c = m.classes[parts[0]]
            if len(parts) == 1:
                return c
            f = c.methods.get(parts[1])
            if f is None:
                raise KeyError(f"{qualname}: no such method")
            return f
        if parts[0] in m.functions:
            return m.functions[parts[0]]
        raise KeyError(f"{qualname} not found")

    def all_classes(self, package="sigma"):
        root = os.path.join(self.repo, *package.split("."))
        for dp, dn, fn in os.walk(root):
            for f in sorted(fn):
                if f.endswith(".py"):
                    rel = os.path.relpath(os.path.join(dp, f), self.repo)[:-3].replace(os.sep, ".")
                    if rel.endswith(".__init__"):
                        rel = rel[: -len(".__init__")]
                    m = self.module(rel)
                    if m:
                        yield from m.classes.values()
