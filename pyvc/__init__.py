"""pyvc - a small modular verification-condition generator for a subset of Python.

The verified text is the real source under /repo (re-read with ast.parse on every run);
contracts live in /verif/contracts. See /verif/DESIGN.md section 2.
"""
