"""Contracts, lemmas, bounded stand-ins and the per-property runner."""
from __future__ import annotations
import os, sys, time, json, traceback, hashlib
import z3
from .values import *
from .extract import SourceIndex, ClassInfo, FunctionInfo
from .interp import Engine, Interp, PyRaise, Env
from .path import Explorer, Ctx, Infeasible, PathLimit, PathEnd
from .loops import LoopSpec, SpecFn
from . import ops, solve

VERIF = os.path.dirname(os.path.dirname(os.path.abspath(__file__)))


def make_engine():
    global _INDEX
    if _INDEX is None:
        _INDEX = SourceIndex()
    return Engine(_INDEX)


_INDEX = None


class Contract:
    """Contract of one repository function.  Subclasses define:
         id, target, props
         setup(E)                     engine configuration: summaries of callees, externals, opaque declarations
         args(I) -> inp               symbolic inputs (dict); must contain 'self' (or None), 'args', 'kwargs'; assumes pre
         post(I, inp, result)         I.ctx.require(...) for every clause of the normal postcondition
         raises(I, inp, exc)          I.ctx.require(...) for exceptional exits (default: no exception may escape)
         model_terms(inp)             {name: z3 term} reported in counterexamples
         replay(values) -> str|None   run the REAL function natively on a counterexample; return a failure text or None
    """
    id = None
    target = None
    props = ()
    cases = (None,)          # optional concrete case split of the inputs (each case explored separately)
    max_paths = 4000
    budget_s = None
    expect_outside = False

    def setup(self, E):
        pass

    def args(self, I, case=None):
        raise NotImplementedError

    def post(self, I, inp, result):
        pass

    def raises(self, I, inp, exc):
        I.ctx.require(False, f"no exception escapes (got {exc_name(exc)})", kind="SAFE")

    def model_terms(self, inp):
        return {}

    def replay(self, values):
        return "no-replay"

    def before(self, I, inp):
        """operations performed before the call under verification (a symbolic history prefix)"""

    def candidates(self):
        """small native input domain (model values) searched when a counter-model does not replay"""
        return iter(())

    def frame_ok(self, I, inp, obj, name):
        """may the function write attribute `name` of pre-existing object `obj`?  default: only self"""
        return obj is inp.get("self")


def exc_name(exc):
    if isinstance(exc, SObj):
        return exc.cls.name if isinstance(exc.cls, ClassInfo) else str(exc.cls)
    if isinstance(exc, ExcValue):
        return exc.cname
    return repr(exc)


def exc_is(I, exc, name):
    chain = I.E.exc_class_chain(exc.cls) if isinstance(exc, SObj) else I.E._builtin_chain(exc.cname)
    return name in chain


class Lemma:
    """A spec-level fact: goals() -> list of (label, [assumptions], goal) z3 formulas (free constants are universally quantified)."""
    id = None
    props = ()

    def goals(self):
        raise NotImplementedError

    def replay(self, label, values):
        return "no-replay"


class Bounded:
    """Bounded stand-in: run(tier, seed) -> dict(evaluations, distinct_nontrivial, failures=[{...}], bound, rule, samples)"""
    id = None
    props = ()

    def run(self, tier, seed):
        raise NotImplementedError


class Inventory:
    """AST scan: run(index) -> list of mismatch strings (empty = ok), and n_sites"""
    id = None
    props = ()

    def run(self, index):
        raise NotImplementedError


REGISTRY = {"contracts": [], "lemmas": [], "bounded": [], "inventory": []}


def register(obj):
    inst = obj() if isinstance(obj, type) else obj
    if isinstance(inst, Contract):
        REGISTRY["contracts"].append(inst)
    elif isinstance(inst, Lemma):
        REGISTRY["lemmas"].append(inst)
    elif isinstance(inst, Bounded):
        REGISTRY["bounded"].append(inst)
    elif isinstance(inst, Inventory):
        REGISTRY["inventory"].append(inst)
    else:
        raise TypeError(obj)
    return obj


# ---------------------------------------------------------------------------------------------------------------
class ObRecord:
    def __init__(self, oid, kind, label, function, path, query, model_terms, contract, site=None):
        self.id, self.kind, self.label, self.function, self.path = oid, kind, label, function, path
        self.query, self.model_terms, self.contract, self.site = query, model_terms, contract, site
        self.result = None


def explore_contract(c, E=None, mutate=None, only_cases=None):
    """Symbolically execute the target of contract c; returns (obligation records, stats)."""
    records, stats = [], {"paths": 0, "outside": [], "returns": 0, "raises": 0, "functions": set()}
    for case in (c.cases if only_cases is None else only_cases):
        E = make_engine()
        c.setup(E)
        finfo = E.index.lookup(c.target)
        if mutate is not None:
            mutate(finfo, E)
        E.verifying = {finfo.qualname}
        ex = Explorer(max_paths=c.max_paths)
        case_tag = "" if case is None else f"[{case}]"

        def body(ctx):
            I = Interp(E, ctx)
            inp = c.args(I, case) if c.cases != (None,) else c.args(I)
            ctx.inp = inp
            pre_objs = set()

            def hook(I2, obj, name, val):
                if getattr(obj, "born", None) is ctx:
                    return
                ok = c.frame_ok(I2, inp, obj, name)
                if ok is not True:
                    I2.ctx.require(ok if ok is not False else z3.BoolVal(False), f"frame: writes {ops.type_name(obj)}.{name}", kind="FRAME")
            E.current_ctx = ctx
            try:
                c.before(I, inp)          # optional history prefix (earlier calls on the same objects); not frame-checked
                E.frame_hook = hook
                r = I.call_function(finfo, inp.get("self"), inp.get("args", []), inp.get("kwargs", {}))
            except PyRaise as p:
                E.frame_hook = None
                c.raises(I, inp, p.exc)
                return ("raise", exc_name(p.exc))
            except OutsideSubset as o:
                return ("outside", str(o))
            except PathEnd:
                return ("loop-step", None)
            E.frame_hook = None
            try:
                c.post(I, inp, r)
            except OutsideSubset as o:
                return ("outside", "in postcondition: " + str(o))
            return ("return", r)
        try:
            results = ex.run(body)
        except PathLimit as e:
            stats["outside"].append(f"{c.id}{case_tag}: {e}")
            results = []
        stats["functions"] |= E.functions_seen
        for pi, pr in enumerate(results):
            stats["paths"] += 1
            if pr.outcome == "outside":
                stats["outside"].append(f"{c.id}{case_tag} path {pi}: {pr.value}")
                continue
            stats[{"return": "returns", "raise": "raises"}.get(pr.outcome, "loop_steps")] = stats.get({"return": "returns", "raise": "raises"}.get(pr.outcome, "loop_steps"), 0) + 1
            inp = getattr(pr.ctx, "inp", {})
            mt = c.model_terms(inp) if inp else {}
            for ti, (label, kind) in enumerate(pr.ctx.trivial):
                rec = ObRecord(f"{c.id}{case_tag}/p{pi}/t{ti}:{label}", kind, label, c.target, f"path {pi} ({pr.outcome})", None, {}, c)
                rec.result = {"status": "proved", "solver": "pyvc-evaluation", "time_s": 0.0}
                rec.case = case
                records.append(rec)
            for oi, ob in enumerate(pr.ctx.obligations):
                oid = f"{c.id}{case_tag}/p{pi}/{oi}:{ob.label}"
                q = list(ob.pc) + [z3.Not(ob.goal)]
                rec = ObRecord(oid, ob.kind, ob.label, c.target, f"path {pi} ({pr.outcome})", q, mt, c, ob.site)
                rec.case = case
                records.append(rec)
    return records, stats


def lemma_records(l):
    recs = []
    for gi, g in enumerate(l.goals()):
        label, assumptions, goal = g[:3]
        mt = g[3] if len(g) > 3 else {}
        rec = ObRecord(f"{l.id}/{gi}:{label}", "LEMMA", label, l.id, "-", list(assumptions) + [z3.Not(goal)], mt, l)
        recs.append(rec)
    return recs


def discharge_records(records, budget_s, nproc=None):
    jobs = [{"id": r.id, "query": r.query, "model_terms": r.model_terms} for r in records if r.result is None]
    res = solve.discharge(jobs, budget_s=budget_s, nproc=nproc)
    for r in records:
        if r.result is None:
            r.result = res[r.id]
    return records


# ---------------------------------------------------------------------------------------------------------------
def solve_inprocess(records, budget_s, inner_nproc=1):
    """discharge inside the current (worker) process; the parent enforces the hard deadline on the worker"""
    todo = [r for r in records if r.result is None]
    if inner_nproc > 1 and len(todo) > 8:
        jobs = [{"id": r.id, "query": r.query, "model_terms": r.model_terms} for r in todo]
        res = solve.discharge(jobs, budget_s=budget_s, nproc=inner_nproc, portfolio=False, stage1=min(budget_s, 3.0))
        for r in todo:
            r.result = res[r.id]
            if r.result["status"] != "proved":
                try:
                    sv = z3.Solver()
                    for a in r.query:
                        sv.add(a)
                    r.result["smt2"] = sv.to_smt2()
                except Exception:
                    pass
        return
    for r in records:
        if r.result is not None:
            continue
        t0 = time.time()
        sv = z3.Solver()
        sv.set("timeout", int(min(budget_s, 3.0) * 1000))
        for a in r.query:
            sv.add(a)
        try:
            res = sv.check()
        except Exception as e:
            r.result = {"status": "unknown", "reason": repr(e), "solver": "z3-5.1-api", "time_s": round(time.time() - t0, 4)}
            continue
        st = "proved" if res == z3.unsat else ("refuted" if res == z3.sat else "unknown")
        r.result = {"status": st, "solver": "z3-5.1-api", "time_s": round(time.time() - t0, 4)}
        if res == z3.sat:
            m = sv.model()
            vals = {}
            for name, t in r.model_terms.items():
                try:
                    vals[name] = solve.term_to_py(m.eval(t, model_completion=True))
                except Exception as e:
                    vals[name] = f"<{e}>"
            r.result["model"], r.result["model_text"] = vals, str(m)[:4000]
        elif res == z3.unknown:
            r.result["reason"] = sv.reason_unknown()
        if st != "proved":
            try:
                r.result["smt2"] = sv.to_smt2()
            except Exception:
                pass


def run_task(kind, obj, case, budget_s, inner_nproc=1):
    """one unit of parallel work: a (contract, case) pair or a lemma.  Returns JSON-able dicts."""
    if kind == "contract":
        recs, st = explore_contract(obj, only_cases=[case])
    else:
        recs, st = lemma_records(obj), {"paths": 0, "outside": [], "returns": 0, "raises": 0, "functions": set()}
    solve_inprocess(recs, budget_s, inner_nproc)
    out = []
    for r in recs:
        goal = ""
        if r.query:
            try:
                goal = str(z3.simplify(z3.Not(r.query[-1])))[:400]
            except Exception:
                pass
        out.append({"id": r.id, "kind": r.kind, "label": r.label, "function": r.function, "path": r.path, "result": r.result, "by_solver": bool(r.query), "goal": goal})
    st = {k: (sorted(v) if isinstance(v, set) else v) for k, v in st.items()}
    return {"records": out, "stats": st}


def fork_map(fn, items, nproc=None, deadline_s=3000):
    """run fn(item) for every item in forked children (results must be JSON-serialisable); order preserved; a crash in a child is
    re-raised in the parent (a crash of a stand-in is a crash of the check, never a verdict)"""
    import select
    nproc = nproc or min(16, os.cpu_count() or 4)
    items = list(items)
    if len(items) <= 1 or nproc <= 1:
        return [fn(x) for x in items]
    pending, running, results = list(enumerate(items)), {}, {}
    while pending or running:
        while pending and len(running) < nproc:
            i, x = pending.pop(0)
            rfd, wfd = os.pipe()
            sys.stdout.flush()
            sys.stderr.flush()
            pid = os.fork()
            if pid == 0:
                os.close(rfd)
                try:
                    try:
                        res = {"ok": fn(x)}
                    except BaseException:
                        res = {"crash": traceback.format_exc()}
                    data = json.dumps(res, default=str).encode()
                    off = 0
                    while off < len(data):
                        off += os.write(wfd, data[off:off + 65536])
                finally:
                    os._exit(0)
            os.close(wfd)
            running[pid] = (i, rfd, time.time() + deadline_s, bytearray())
        ready, _, _ = select.select([v[1] for v in running.values()], [], [], 0.05)
        for pid, (i, rfd, deadline, buf) in list(running.items()):
            eof = False
            if rfd in ready:
                chunk = os.read(rfd, 1 << 20)
                if chunk:
                    buf.extend(chunk)
                else:
                    eof = True
            if eof or time.time() > deadline:
                if not eof:
                    try:
                        os.kill(pid, 9)
                    except OSError:
                        pass
                os.close(rfd)
                os.waitpid(pid, 0)
                del running[pid]
                if not eof:
                    raise RuntimeError(f"fork_map: item {i} exceeded {deadline_s}s")
                res = json.loads(bytes(buf).decode() or '{"crash": "no output from child"}')
                if "crash" in res:
                    raise RuntimeError("fork_map child crashed:\n" + res["crash"])
                results[i] = res["ok"]
    return [results[i] for i in range(len(items))]


def run_parallel(tasks, budget_s, nproc=None, task_deadline_s=600):
    """tasks: list of (key, kind, obj, case).  Forked workers; each returns its JSON through a pipe; hard kill at the deadline."""
    import select, signal
    nproc = nproc or min(16, os.cpu_count() or 4)
    inner = max(1, nproc // max(1, len(tasks)))
    pending, running, results = list(tasks), {}, {}
    while pending or running:
        while pending and len(running) < nproc:
            key, kind, obj, case = pending.pop(0)
            rfd, wfd = os.pipe()
            sys.stdout.flush()
            sys.stderr.flush()
            pid = os.fork()
            if pid == 0:
                os.close(rfd)
                try:
                    try:
                        res = run_task(kind, obj, case, budget_s, inner)
                    except OutsideSubset as o:
                        res = {"records": [], "stats": {"paths": 0, "outside": [f"{getattr(obj, 'id', '?')}[{case}]: {o}"], "returns": 0, "raises": 0, "functions": []}}
                    except BaseException:
                        res = {"crash": traceback.format_exc()}
                    data = json.dumps(res, default=str).encode()
                    off = 0
                    while off < len(data):
                        off += os.write(wfd, data[off:off + 65536])
                finally:
                    os._exit(0)
            os.close(wfd)
            running[pid] = (key, rfd, time.time() + task_deadline_s, bytearray())
        done = []
        rlist = [v[1] for v in running.values()]
        if rlist:
            ready, _, _ = select.select(rlist, [], [], 0.05)
        else:
            ready = []
        for pid, (key, rfd, deadline, buf) in list(running.items()):
            if rfd in ready:
                chunk = os.read(rfd, 1 << 20)
                if chunk:
                    buf.extend(chunk)
                else:
                    os.close(rfd)
                    os.waitpid(pid, 0)
                    try:
                        results[key] = json.loads(bytes(buf).decode())
                    except Exception:
                        results[key] = {"crash": "worker died without a result"}
                    done.append(pid)
            elif time.time() > deadline:
                try:
                    os.kill(pid, signal.SIGKILL)
                except ProcessLookupError:
                    pass
                os.waitpid(pid, 0)
                os.close(rfd)
                results[key] = {"timeout": True}
                done.append(pid)
        for pid in done:
            del running[pid]
    return results
