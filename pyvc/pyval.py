"""Symbolic YAML data (`Any`): a union over the types a YAML loader can produce.  Every use of such a value forces the union
(n-way branch); operations that CPython does not define for the chosen type raise the exception CPython raises."""
from __future__ import annotations
import z3
from .values import *


def pyval(I, name, depth=1):
    """None | bool | int | float | str | list (0..1 elements) | dict (0..1 entries) | date"""
    alts = [None, I.fresh(name + ".b", "bool"), I.fresh(name + ".i", "int"), 1.5, I.fresh(name + ".s", "str"), [], {}, SObj("date", {}, ghost={"str": I.fresh(name + ".datestr", "str"), "closed": True})]
    if depth > 0:
        alts.append([pyval(I, name + "[0]", depth - 1)])
        alts.append({"k": pyval(I, name + ".k", depth - 1)})
    tag = z3.Int(I.ctx.fresh_name(name + ".type"))
    I.ctx.assume(z3.And(tag >= 0, tag < len(alts)))
    u = SUnion([(tag == i, a) for i, a in enumerate(alts)])
    u.terms = {"type": tag, "b": alts[1].t, "i": alts[2].t, "s": alts[4].t}
    return u


def native_of(values, prefix=""):
    """native YAML value from the model values of a pyval (nested values default to None)"""
    import datetime
    t = values.get(prefix + "type", 0)
    s = values.get(prefix + "s", "")
    return [None, bool(values.get(prefix + "b", False)), int(values.get(prefix + "i", 0) or 0), 1.5, s if isinstance(s, str) else "", [], {}, datetime.date(2024, 1, 2), [None], {"k": None}][int(t) if isinstance(t, int) and 0 <= t < 10 else 0]


def install_yaml_externals(E):
    """assumed may-raise sets of the standard library functions the loaders call on document values"""
    from .interp import PyRaise
    from . import ops

    def x_uuid(I, args, kwargs):
        v = I.force(args[0])
        if ops.kind_of(v) == "str":
            ok = z3.Function("uuid.valid", z3.StringSort(), z3.BoolSort())(mk_str(v))
            if not I.ctx.branch(ok):
                raise PyRaise(ExcValue("ValueError", ("badly formed hexadecimal UUID string",)))
            return SObj("UUID", {}, ghost={"str": v})
        if v is None:
            raise PyRaise(ExcValue("TypeError", ("one of the hex, bytes, bytes_le, fields, or int arguments must be given",)))
        raise PyRaise(ExcValue("AttributeError", (f"'{ops.type_name(v)}' object has no attribute 'replace'",)))     # uuid.py: hex.replace(...)
    E.externals["uuid.UUID"] = x_uuid

    def x_fullmatch(I, args, kwargs):
        s = I.force(args[1])
        if ops.kind_of(s) != "str":
            raise PyRaise(ExcValue("TypeError", ("expected string or bytes-like object",)))
        m = I.fresh("re.match", "bool")
        if not I.ctx.branch(m.t):
            return None
        groups = {i: I.fresh(f"group{i}", "str") for i in range(1, 6)}
        return SObj("re.Match", {}, ghost={"groups": groups})
    E.externals["re.fullmatch"] = x_fullmatch
    E.externals["re.match"] = x_fullmatch

    def x_date(I, args, kwargs):
        for a in args:
            if ops.kind_of(I.force(a)) not in ("int",):
                raise PyRaise(ExcValue("TypeError", ("an integer is required",)))
        ok = I.fresh("date.valid", "bool")
        if not I.ctx.branch(ok.t):
            raise PyRaise(ExcValue("ValueError", ("day is out of range for month",)))
        return SObj("date", {}, ghost={"str": I.fresh("datestr", "str")})
    E.externals["datetime.date"] = x_date

    def x_fromisoformat(I, args, kwargs):      # datetime.fromisoformat(str): a datetime, or ValueError for text that is no ISO date-time
        v = I.force(args[0])
        if ops.kind_of(v) != "str":
            raise PyRaise(ExcValue("TypeError", ("fromisoformat: argument must be str",)))
        ok = I.fresh("datetime.valid", "bool")
        if not I.ctx.branch(ok.t):
            raise PyRaise(ExcValue("ValueError", ("Invalid isoformat string",)))
        return SObj("date", {}, ghost={"str": I.fresh("datetimestr", "str"), "datetime": True})
    E.externals["datetime.datetime.fromisoformat"] = x_fromisoformat
    E.external_isinstance["datetime.date"] = lambda I, v: isinstance(v, SObj) and v.cls == "date"
    E.external_isinstance["datetime.datetime"] = lambda I, v: False
