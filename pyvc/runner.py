"""Per-property runner: explore contracts, discharge obligations, replay counterexamples, write evidence, exit code.

Exit codes: 0 held | 1 VIOLATION | 2 undecided (unknown / outside subset / stale) | 3 checker crash.
"""
from __future__ import annotations
import os, sys, time, json, importlib, traceback, subprocess, hashlib, re
import z3
from . import api, solve
from .values import OutsideSubset

VERIF = api.VERIF
PROP_MODULES = {
    "C01": ["contracts.c01", "contracts.c01b", "contracts.c01_bounded", "contracts.c15", "contracts.c18", "contracts.c02"],
    "C02": ["contracts.c02", "contracts.c02_bounded", "contracts.c15", "contracts.c12"],
    "C03": ["contracts.c03", "contracts.c03_bounded", "contracts.c06", "contracts.c05c", "contracts.c18"],
    "C04": ["contracts.c04", "contracts.c05", "contracts.c03", "contracts.c01"],
    "C05": ["contracts.c05", "contracts.c05c", "contracts.c05_bounded", "contracts.c05_fields_bounded", "contracts.c06", "contracts.c15", "contracts.c01", "contracts.c04"],
    "C11": ["contracts.c11", "contracts.c09", "contracts.c11_bounded", "contracts.c02", "contracts.c06b"],
    "C19": ["contracts.c19", "contracts.c19b", "contracts.c19_bounded", "contracts.c02", "contracts.c15"],
    "C12": ["contracts.c12", "contracts.c12b", "contracts.c12c", "contracts.c12_bounded", "contracts.c10", "contracts.c13c", "contracts.c02"],
    "C13": ["contracts.c13", "contracts.c13b", "contracts.c13c", "contracts.c13_bounded", "contracts.c11", "contracts.c12", "contracts.c12c", "contracts.c10"],
    "C14": ["contracts.c14", "contracts.c14_bounded", "contracts.c08", "contracts.c08b", "contracts.c17", "contracts.c13", "contracts.c13c"],
    "C06": ["contracts.c06", "contracts.c06b", "contracts.c06_bounded"],
    "C07": ["contracts.c07", "contracts.c07_bounded", "contracts.c10", "contracts.c03", "contracts.c09"],
    "C08": ["contracts.c08", "contracts.c08b", "contracts.c15", "contracts.c12", "contracts.c15_bounded", "contracts.c13c"],
    "C15": ["contracts.c15", "contracts.c13", "contracts.c08", "contracts.c08b", "contracts.c10", "contracts.c17", "contracts.c14", "contracts.c12", "contracts.c12b", "contracts.c12c", "contracts.c15_bounded"],
    "C16": ["contracts.c16", "contracts.c16_bounded", "contracts.c13c"],
    "C09": ["contracts.c09", "contracts.c09_bounded", "contracts.c08", "contracts.c10b", "contracts.c06b"],
    "C10": ["contracts.c10", "contracts.c10b", "contracts.c10_bounded", "contracts.c09", "contracts.c12c"],
    "C17": ["contracts.c17", "contracts.c05", "contracts.c05c", "contracts.c17_bounded", "contracts.c08b", "contracts.c15"],
    "C18": ["contracts.c18", "contracts.c18_bounded", "contracts.c12"],
}


# modules whose contracts / lemmas / stand-ins are included WHOLESALE in a property's check because the property depends on the functions
# they cover (the property statement is end-to-end; a change in a dependency breaks it too)
RELATED = {
    "C01": ["contracts.c03", "contracts.c03_bounded", "contracts.c04", "contracts.c05", "contracts.c05c", "contracts.c18", "contracts.c18_bounded", "contracts.c02", "contracts.c02_bounded", "contracts.c05_fields_bounded"],
    "C02": ["contracts.c11_bounded"],
    "C03": ["contracts.c05"],
    "C04": ["contracts.c12"],
    "C05": ["contracts.c01b"],
    "C06": ["contracts.c03", "contracts.c05"],
    "C08": ["contracts.c13", "contracts.c13b", "contracts.c14"],
    "C09": ["contracts.c13"],
    "C10": ["contracts.c08", "contracts.c12", "contracts.c13", "contracts.c09_bounded", "contracts.c13_bounded"],
    "C12": ["contracts.c13", "contracts.c17", "contracts.c13_bounded"],
    "C17": ["contracts.c12", "contracts.c03_bounded", "contracts.c14"],
    "C15": ["contracts.c13_bounded", "contracts.c10_bounded"],
    "C18": ["contracts.c15", "contracts.c01", "contracts.c01b", "contracts.c05"],
}

_search_cache = {}


def load_known_findings():
    p = os.path.join(VERIF, "known_findings.json")
    if not os.path.exists(p):
        return {"findings": [], "fixed": []}
    return json.load(open(p))


def finding_matches(f, rec):
    """a known finding names a property, an obligation (regex on the obligation id) and optionally a signature regex that
    must match the replay text"""
    if not re.search(f["obligation"], rec.id):
        return False
    return True


def smt2_of(rec):
    return rec.result.get("smt2", "")


def run_property(prop, tier="quick", seed=0, only=None, verbose=False):
    t0 = time.time()
    mods = PROP_MODULES.get(prop)
    if not mods:
        print(f"no check registered for {prop}", file=sys.stderr)
        return 3
    rel = RELATED.get(prop, [])
    for m in list(mods) + rel:
        importlib.import_module(m)

    def sel(x):
        return (prop in x.props or type(x).__module__ in rel) and (only is None or only in x.id)
    budget = 10.0 if tier == "quick" else 60.0
    contracts = [c for c in api.REGISTRY["contracts"] if sel(c)]
    lemmas = [l for l in api.REGISTRY["lemmas"] if sel(l)]
    bounded = [b for b in api.REGISTRY["bounded"] if sel(b)]
    inventories = [b for b in api.REGISTRY["inventory"] if sel(b)]

    records, outside, stats_all, functions = [], [], {}, set()
    tasks = []
    for c in contracts:
        for case in c.cases:
            tasks.append(((c.id, repr(case)), "contract", c, case))
    for l in lemmas:
        tasks.append(((l.id, None), "lemma", l, None))
    by_id = {c.id: c for c in contracts}
    by_id.update({l.id: l for l in lemmas})
    results = api.run_parallel(tasks, budget, task_deadline_s=300 if tier == "quick" else 1800)

    class Rec:
        pass
    for (oid, case), res in results.items():
        owner = by_id[oid]
        if res.get("crash"):
            print(res["crash"], file=sys.stderr)
            raise RuntimeError(f"worker for {oid}[{case}] crashed")
        if res.get("timeout"):
            outside.append(f"{oid}[{case}]: exploration exceeded its deadline")
            continue
        st = res["stats"]
        agg = stats_all.setdefault(oid, {"paths": 0, "outside": [], "returns": 0, "raises": 0, "loop_steps": 0})
        for k in ("paths", "returns", "raises", "loop_steps"):
            agg[k] += st.get(k, 0) or 0
        agg["outside"] += st.get("outside", [])
        outside += st.get("outside", [])
        functions |= set(st.get("functions", []))
        if isinstance(owner, api.Contract):
            functions.add(owner.target)
            if st.get("paths", 0) == 0 and not st.get("outside"):
                outside.append(f"{oid}[{case}]: vacuous - no feasible path (contradictory precondition?)")
        for d in res["records"]:
            r = Rec()
            r.id, r.kind, r.label, r.function, r.path, r.result = d["id"], d["kind"], d["label"], d["function"], d["path"], d["result"]
            r.contract, r.by_solver, r.goal, r.query = owner, d["by_solver"], d.get("goal", ""), None
            records.append(r)
    # portfolio on what z3 5.1 left open
    solve.portfolio_texts({r.id: r.result for r in records if r.result["status"] == "unknown" and r.result.get("smt2")}, budget)

    # ---- verdicts
    kf = load_known_findings()
    violations, known_hits, undecided = [], [], list(outside)
    import shutil
    shutil.rmtree(os.path.join(VERIF, "replays", prop), ignore_errors=True)
    os.makedirs(os.path.join(VERIF, "replays", prop), exist_ok=True)
    for rec in records:
        st = rec.result["status"]
        if st == "proved":
            continue
        if st in ("unknown", "error"):
            # the solver could not decide: search the contract's small native domain for a failing input of the REAL function
            found = None
            if isinstance(rec.contract, api.Contract):
                key = ("search", rec.contract.id)
                if key not in _search_cache:
                    _search_cache[key] = None
                    t1 = time.time()
                    try:
                        for cand in rec.contract.candidates():
                            rp2 = rec.contract.replay(cand)
                            if rp2 not in (None, "no-replay"):
                                _search_cache[key] = (cand, rp2)
                                break
                            if time.time() - t1 > 30:
                                break
                    except Exception:
                        pass
                found = _search_cache[key]
            if found is None:
                undecided.append(f"{rec.id}: {st} ({rec.result.get('reason')})")
                continue
            rec.result["status"] = "refuted"
            rec.result["solver"] = (rec.result.get("solver") or "") + " unknown; failing input found by native search of the contract's candidate domain"
            rec.result["model"] = found[0]
            rec.replay = found[1]
            violations.append(rec)
            continue
        # refuted: replay on the real code
        vals = rec.result.get("model", {})
        try:
            rp = rec.contract.replay(vals) if isinstance(rec.contract, api.Contract) else rec.contract.replay(rec.label, vals)
        except Exception as e:
            rp = f"replay crashed: {e!r}\n{traceback.format_exc()}"
            rec.replay_crashed = True
        if rp is None and isinstance(rec.contract, api.Contract):
            # the model lives in an abstraction (uninterpreted spec functions): search the contract's small native domain
            t1 = time.time()
            try:
                for cand in rec.contract.candidates():
                    rp2 = rec.contract.replay(cand)
                    if rp2 not in (None, "no-replay"):
                        rp = rp2
                        rec.result["model"] = cand
                        break
                    if time.time() - t1 > 30:
                        break
            except Exception as e:
                rp = None
        rec.replay = rp
        match = [f for f in kf.get("findings", []) if finding_matches(f, rec)]
        if match and rp not in (None, "no-replay") and re.search(match[0].get("signature", ""), rp or ""):
            known_hits.append((match[0], rec))
            continue
        violations.append(rec)

    # ---- bounded stand-ins
    bounded_out = []
    for b, r in zip(bounded, api.fork_map(lambda b_: b_.run(tier, seed), bounded)):
        r["id"] = b.id
        bounded_out.append(r)
        for fl in r.get("failures", []):
            m = [f for f in kf.get("findings", []) if re.search(f["obligation"], b.id) and re.search(f.get("signature", ""), fl.get("text", ""))]
            if m:
                known_hits.append((m[0], fl))
            else:
                violations.append(("bounded", b, fl))
    inv_out = []
    for inv in inventories:
        r = inv.run(api.make_engine().index)
        r["id"] = inv.id
        inv_out.append(r)
        for mm in r.get("mismatches", []):
            undecided.append(f"{inv.id}: INVENTORY mismatch: {mm}")

    # ---- report
    printed = set()
    for f, rec in known_hits:
        key = f["what"]
        if key not in printed:
            print(f"KNOWN-FINDING: property={prop} {f['what']}")
            printed.add(key)
    rc = 0
    for vi, v in enumerate(violations):
        rc = 1
        if isinstance(v, tuple):
            _, b, fl = v
            path = os.path.join(VERIF, "replays", prop, re.sub(r"[^A-Za-z0-9_.-]+", "_", b.id)[:80] + f".{vi}.json")
            json.dump({"property": prop, "obligation": b.id, "kind": "bounded", "failure": fl}, open(path, "w"), indent=1, default=str)
            print(f"VIOLATION property={prop} replay={path}")
            continue
        rec = v
        path = os.path.join(VERIF, "replays", prop, re.sub(r"[^A-Za-z0-9_.-]+", "_", rec.id)[:120] + ".json")
        failing = rec.replay not in (None, "no-replay") and not getattr(rec, "replay_crashed", False)
        json.dump({"property": prop, "obligation": rec.id, "kind": rec.kind, "function": rec.function, "path": rec.path,
                   "label": rec.label, "model": rec.result.get("model"), "solver": rec.result.get("solver"),
                   "solver_output": rec.result.get("model_text"), "native_replay": rec.replay,
                   "failing_input_found": failing, "smt2": smt2_of(rec)}, open(path, "w"), indent=1, default=str)
        print(f"VIOLATION property={prop} replay={path}" + ("" if failing else " no-failing-input-found"))
        if verbose:
            print("   ", rec.id, rec.result.get("model"), "->", rec.replay, file=sys.stderr)
    if rc == 0 and undecided:
        rc = 2
    for u in undecided:
        print(f"UNDECIDED {prop}: {u}", file=sys.stderr)

    # ---- evidence
    proved = [r for r in records if r.result["status"] == "proved"]
    ev = {
        "property_id": prop, "tier": tier, "seed": int(seed),
        "level": LEVELS.get(prop, "other"),
        "coverage": {
            "obligations": len(records), "discharged": len(proved),
            "checker_cmd": f"./check {prop} --tier {tier}",
            "functions_under_contract": sorted(c.target for c in contracts),
            "functions_executed_symbolically": sorted(functions),
            "lemmas": [l.id for l in lemmas],
            "per_obligation": [{"id": r.id, "kind": r.kind, "function": r.function, "path": r.path, "result": r.result["status"],
                                "solver": r.result.get("solver"), "solver_time_s": r.result.get("time_s")} for r in records],
            "solver_time_s": round(sum(r.result.get("time_s", 0) for r in records), 3),
            "exploration": stats_all,
            "undecided": undecided,
            "known_findings_hit": [f["what"] for f, _ in known_hits],
            "bounded": bounded_out,
            "inventory": inv_out,
            "samples": [{"id": r.id, "goal": r.goal} for r in [x for x in records if x.by_solver][:6]],
            "discharged_by_solver": len([r for r in proved if r.by_solver]), "discharged_by_evaluation": len([r for r in proved if not r.by_solver]),
            "trusted_base": sorted(set(TRUSTED_COMMON + [a for c in contracts for a in getattr(c, "assumed", [])] + [a for l in lemmas for a in getattr(l, "assumed", [])])),
            "explanation": EXPLANATION,
            "evaluations": sum(b.get("evaluations", 0) for b in bounded_out) + len(records),
            "distinct_nontrivial": sum(b.get("distinct_nontrivial", 0) for b in bounded_out) + len(proved),
        },
        "assumptions": sorted(set(TRUSTED_COMMON + [a for c in contracts for a in getattr(c, "assumed", [])])),
        "wall_s": round(time.time() - t0, 2),
        "violations": len(violations),
    }
    os.makedirs(os.path.join(VERIF, "evidence"), exist_ok=True)
    json.dump(ev, open(os.path.join(VERIF, "evidence", f"{prop}.json"), "w"), indent=1, default=str)
    n_b = sum(b.get("evaluations", 0) for b in bounded_out)
    print(f"{prop}: {len(proved)}/{len(records)} obligations discharged, {len(contracts)} functions under contract, {len(lemmas)} lemmas, "
          f"bounded evaluations {n_b}, violations {len(violations)}, known findings {len(printed)}, undecided {len(undecided)}, {ev['wall_s']}s")
    return rc


LEVELS = {"C04": "proof", "C14": "proof", "C16": "proof"}
TRUSTED_COMMON = [
    "pyvc symbolic executor: encoding of CPython semantics for the subset in DESIGN.md 2.3 (integers mathematical, strings = z3 sequences of code points)",
    "z3 5.1.0 soundness (cvc5 1.0.3 / z3 4.8.12 only as fall-back on unknown)",
]
EXPLANATION = ("Contracts (pre/postconditions, frames) on the real functions of /repo; verification conditions are generated from the ast of the "
               "current working tree by symbolic execution (one query per path and obligation) and discharged by z3; lemmas connect the "
               "contracts to the property statement; functions out of reach are covered by bounded stand-ins that are reported separately "
               "under coverage.bounded and never counted in obligations/discharged.")
