"""Symbolic value model of the executor.

Concrete Python values (int, bool, str, bytes, None, tuple, list, dict, set) are used as they are: each path is
executed from scratch (decision replay), so native mutable containers carry aliasing for free.  Symbolic data:

  Sym(t, kind[, elem])   z3 term;  kind in int|bool|str|bytes|seq|opaque   (seq: z3 Seq, elem describes elements)
  SObj(cls, fields)      instance of a repository class (ClassInfo) - fields are values
  SOpt(is_none, val)     Optional value: forced (2-way branch) on first use other than an `is None` test
  SUnion(alts)           one of several values, [(z3 Bool, value)], forced (n-way branch) on first use
  EnumVal(cls, name)     member of an Enum class of the repository
  ClassRef / BuiltinClass / ExcClass / BoundMethod / FuncRef / Lambda    callables
"""
from __future__ import annotations
import z3


class OutsideSubset(Exception):
    """The function uses something the translator does not model: the obligation is *undecided*, never a verdict."""


class Sym:
    __slots__ = ("t", "kind", "elem")

    def __init__(self, t, kind, elem=None):
        self.t, self.kind, self.elem = t, kind, elem

    def __repr__(self):
        return f"Sym<{self.kind}:{self.t}>"


class SObj:
    def __init__(self, cls, fields=None, lazy=False, ghost=None):
        self.cls, self.fields, self.lazy = cls, (fields if fields is not None else {}), lazy
        self.ghost = ghost or {}

    def __repr__(self):
        return f"SObj<{getattr(self.cls, 'name', self.cls)}>"


class SList:
    """mutable list object whose content is a symbolic sequence (Sym kind 'seq'); identity = Python identity"""

    def __init__(self, sym):
        self.sym = sym

    def __repr__(self):
        return f"SList<{self.sym.t}>"


class CharSet:
    """frozenset(<symbolic string>): the set of characters of a string; membership of a one-character string = Contains"""

    def __init__(self, t):
        self.t = t

    def __repr__(self):
        return f"CharSet<{self.t}>"


class IntersectsGen:
    """the generator (c in <CharSet> for c in <symbolic string>), only consumable by any()"""

    def __init__(self, s, charset):
        self.s, self.charset = s, charset


class SOpt:
    def __init__(self, is_none, val):
        self.is_none, self.val = is_none, val


class SUnion:
    def __init__(self, alts):
        self.alts = alts


class EnumVal:
    _cache = {}

    def __new__(cls, ecls, name):
        key = (ecls.qualname, name)
        if key not in cls._cache:
            o = object.__new__(cls)
            o.ecls, o.name = ecls, name
            cls._cache[key] = o
        return cls._cache[key]

    def __repr__(self):
        return f"{self.ecls.name}.{self.name}"


class ClassRef:
    _cache = {}

    def __new__(cls, info):
        if info.qualname not in cls._cache:
            o = object.__new__(cls)
            o.info = info
            cls._cache[info.qualname] = o
        return cls._cache[info.qualname]

    def __repr__(self):
        return f"<class {self.info.name}>"


class BuiltinClass:
    _cache = {}

    def __new__(cls, name):
        if name not in cls._cache:
            o = object.__new__(cls)
            o.name = name
            cls._cache[name] = o
        return cls._cache[name]

    def __repr__(self):
        return f"<builtin class {self.name}>"


# builtin exception hierarchy (only what the code in scope can meet)
EXC_PARENT = {
    "BaseException": None, "Exception": "BaseException", "ValueError": "Exception", "TypeError": "Exception",
    "LookupError": "Exception", "KeyError": "LookupError", "IndexError": "LookupError", "AttributeError": "Exception",
    "UnicodeError": "ValueError", "UnicodeDecodeError": "UnicodeError", "UnicodeEncodeError": "UnicodeError",
    "NotImplementedError": "RuntimeError", "RuntimeError": "Exception", "StopIteration": "Exception",
    "AssertionError": "Exception", "ZeroDivisionError": "ArithmeticError", "ArithmeticError": "Exception",
    "OverflowError": "ArithmeticError", "UnboundLocalError": "NameError", "NameError": "Exception",
    "OSError": "Exception", "FileNotFoundError": "OSError", "ImportError": "Exception", "ModuleNotFoundError": "ImportError",
    "RecursionError": "RuntimeError", "ParseException": "Exception", "re.error": "Exception",
    "yaml.parser.ParserError": "Exception",
}


class BoundMethod:
    def __init__(self, fn, self_obj):
        self.fn, self.self_obj = fn, self_obj


class FuncRef:
    def __init__(self, info):
        self.info = info


class Closure:
    """nested def / lambda with its defining environment"""

    def __init__(self, node, env, module, cls=None):
        self.node, self.env, self.module, self.cls = node, env, module, cls


class External:
    def __init__(self, key):
        self.key = key

    def __repr__(self):
        return f"<external {self.key}>"


class ModuleRef:
    def __init__(self, name):
        self.name = name


class NativeFn:
    """engine-provided callable: fn(interp, args, kwargs) -> value"""

    def __init__(self, name, fn):
        self.name, self.fn = name, fn


class ExcValue:
    """builtin exception instance"""

    def __init__(self, cname, args=()):
        self.cname, self.args = cname, args

    def __repr__(self):
        return f"{self.cname}{self.args!r}"


def is_sym(v, kind=None):
    return isinstance(v, Sym) and (kind is None or v.kind == kind)


def mk_int(v):
    if isinstance(v, Sym):
        return v.t
    if isinstance(v, bool):
        return z3.IntVal(1 if v else 0)
    return z3.IntVal(v)


def mk_bool(v):
    if isinstance(v, Sym):
        return v.t
    return z3.BoolVal(bool(v))


def mk_str(v):
    if isinstance(v, Sym):
        return v.t
    return z3.StringVal(v)


BYTES_SORT = None


def bytes_sort():
    """bytes are abstract: an uninterpreted sort with a length function, concatenation and slicing as uninterpreted
    functions whose length facts are instantiated where the terms are built (EUF + linear arithmetic only)."""
    global BYTES_SORT
    if BYTES_SORT is None:
        BYTES_SORT = z3.DeclareSort("Bytes")
    return BYTES_SORT


def blen(t):
    return z3.Function("bytes.len", bytes_sort(), z3.IntSort())(t)


def bcat(a, b):
    return z3.Function("bytes.cat", bytes_sort(), bytes_sort(), bytes_sort())(a, b)


def bslice(x, start, stop):
    return z3.Function("bytes.slice", bytes_sort(), z3.IntSort(), z3.IntSort(), bytes_sort())(x, start, stop)


def mk_bytes(v, I=None):
    if isinstance(v, Sym):
        return v.t
    t = z3.Const("b'" + v.hex() + "'", bytes_sort())
    if I is not None:
        I.ctx.assume(blen(t) == len(v))
    return t
