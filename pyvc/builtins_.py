"""Builtins, methods of builtin types, and the assumed contracts of the standard library (DESIGN.md section 8)."""
from __future__ import annotations
import ast
import z3
from .values import *
from . import ops


def _raise(cname, *args):
    from .interp import PyRaise
    raise PyRaise(ExcValue(cname, args))


def native(name):
    def deco(fn):
        return NativeFn(name, fn)
    return deco


# ----------------------------------------------------------------------------- builtins
def b_isinstance(I, args, kwargs):
    r = ops.isinstance_(I, args[0], args[1])
    return r if isinstance(r, bool) else Sym(r, "bool")


def b_len(I, args, kwargs):
    return ops.length(I, args[0])


def b_any(I, args, kwargs):
    v = I.force(args[0])
    if isinstance(v, IntersectsGen):
        return Sym(ops.intersects(v.s, v.charset), "bool")
    if isinstance(v, ops.CtorGen):
        return Sym(v.any_term(), "bool")
    if isinstance(v, Sym) and v.kind == "seq" and v.elem == "bool":
        return Sym(z3.Contains(v.t, z3.Unit(z3.BoolVal(True))), "bool")
    items = ops.iterate(I, v, None)
    for x in items:
        if I.to_bool(x):
            return True
    return False


def b_all(I, args, kwargs):
    v = I.force(args[0])
    if isinstance(v, Sym) and v.kind == "seq" and v.elem == "bool":
        return Sym(z3.Not(z3.Contains(v.t, z3.Unit(z3.BoolVal(False)))), "bool")
    items = ops.iterate(I, v, None)
    for x in items:
        if not I.to_bool(x):
            return False
    return True


def b_range(I, args, kwargs):
    a = [I.force(x) for x in args]
    if all(isinstance(x, int) for x in a):
        return list(range(*a))
    raise OutsideSubset("range with symbolic bounds needs a loop invariant")


def b_list(I, args, kwargs):
    if not args:
        return []
    v = ops.sv(I.force(args[0]))
    if isinstance(v, Sym) and v.kind == "seq":
        return SList(v)
    return list(ops.iterate(I, v, None))


def b_tuple(I, args, kwargs):
    if not args:
        return ()
    return tuple(ops.iterate(I, args[0], None))


def b_dict(I, args, kwargs):
    d = {}
    if args:
        v = I.force(args[0])
        if isinstance(v, dict):
            d.update(v)
        else:
            for kv in ops.iterate(I, v, None):
                k, x = ops.iterate(I, kv, None)
                d[ops.dict_key(I, k, None)] = x
    d.update(kwargs)
    return d


def b_set(I, args, kwargs):
    if not args:
        return set()
    return ops.make_set(I, ops.iterate(I, args[0], None), None)


def b_frozenset(I, args, kwargs):
    if args:
        v = I.force(args[0])
        if isinstance(v, Sym) and v.kind == "str":
            return CharSet(v.t)
    return frozenset(b_set(I, args, kwargs))


def b_str(I, args, kwargs):
    if not args:
        return ""
    return ops.to_str(I, args[0])


def b_repr(I, args, kwargs):
    return ops.to_repr(I, args[0])


def b_int(I, args, kwargs):
    v = I.force(args[0]) if args else 0
    if isinstance(v, bool):
        return int(v)
    if isinstance(v, int):
        return v
    if isinstance(v, Sym) and v.kind == "int":
        return v
    if isinstance(v, Sym) and v.kind == "bool":
        return Sym(z3.If(v.t, 1, 0), "int")
    if isinstance(v, str) and len(args) == 1:
        try:
            return int(v)
        except ValueError:
            _raise("ValueError", "invalid literal for int()")
    if isinstance(v, str) and len(args) == 2 and isinstance(args[1], int):
        try:
            return int(v, args[1])
        except ValueError:
            _raise("ValueError", "invalid literal for int()")
    if isinstance(v, Sym) and v.kind == "str":
        # int(s): ValueError unless s is an (optionally signed, whitespace-padded) decimal literal; modelled for plain digits
        okf = z3.Function("int.parses", z3.StringSort(), z3.BoolSort())(v.t)
        I.ctx.assume(z3.Implies(okf, z3.Length(v.t) > 0))          # int('') raises
        I.ctx.assume(z3.Implies(z3.StrToInt(v.t) >= 0, okf))       # plain decimal digit strings parse
        if not I.ctx.branch(okf):
            _raise("ValueError", "invalid literal for int()")
        r = z3.Function("int.of_str", z3.StringSort(), z3.IntSort())(v.t)
        I.ctx.assume(z3.Implies(z3.StrToInt(v.t) >= 0, r == z3.StrToInt(v.t)))
        return Sym(r, "int")
    if isinstance(v, float):
        return int(v)
    if v is None or isinstance(v, (list, dict, tuple, set, SObj)):
        _raise("TypeError", "int() argument must be a string, a bytes-like object or a real number")
    raise OutsideSubset(f"int({v!r})")


def b_bool(I, args, kwargs):
    if not args:
        return False
    t = ops.truth(I, args[0])
    return t if isinstance(t, bool) else Sym(t, "bool")


def b_bytes(I, args, kwargs):
    if not args:
        return b""
    v = I.force(args[0])
    if isinstance(v, SObj) and hasattr(v.cls, "find_method"):
        m = v.cls.find_method("__bytes__")
        if m is not None:
            return I.call_function(m, v, [], {})
    if isinstance(v, bytes):
        return v
    if isinstance(v, Sym) and v.kind == "bytes":
        return v
    if isinstance(v, str) and len(args) > 1 and isinstance(args[1], str):
        return v.encode(args[1])
    raise OutsideSubset(f"bytes({v!r})")


def b_enumerate(I, args, kwargs):
    start = args[1] if len(args) > 1 else kwargs.get("start", 0)
    return [(start + i, x) for i, x in enumerate(ops.iterate(I, args[0], None))]


def b_zip(I, args, kwargs):
    return [tuple(t) for t in zip(*[ops.iterate(I, a, None) for a in args])]


def b_map(I, args, kwargs):
    f = args[0]
    return [I.call(f, list(t), {}) for t in zip(*[ops.iterate(I, a, None) for a in args[1:]])]


def b_filter(I, args, kwargs):
    f = args[0]
    return [x for x in ops.iterate(I, args[1], None) if I.to_bool(I.call(f, [x], {}) if f is not None else x)]


def b_reversed(I, args, kwargs):
    return list(reversed(ops.iterate(I, args[0], None)))


def b_sorted(I, args, kwargs):
    items = ops.iterate(I, args[0], None)
    key = kwargs.get("key")
    rev = kwargs.get("reverse", False)
    keys = [I.call(key, [x], {}) if key is not None else x for x in items]
    keys = [I.force(k) for k in keys]
    if all(isinstance(k, (int, str)) and not isinstance(k, bool) for k in keys) and (all(isinstance(k, int) for k in keys) or all(isinstance(k, str) for k in keys)):
        order = sorted(range(len(items)), key=lambda i: keys[i], reverse=bool(rev))
        return [items[i] for i in order]
    if all(isinstance(k, tuple) for k in keys):
        try:
            order = sorted(range(len(items)), key=lambda i: keys[i], reverse=bool(rev))
            return [items[i] for i in order]
        except TypeError:
            pass
    # symbolic keys: stable insertion sort, every comparison decided along the path (assumed: sorted() is a stable sort
    # using only `<` on the keys - the CPython contract)
    import ast
    order = []
    for i in range(len(items)):
        pos = len(order)
        for j, o in enumerate(order):
            lt = ops.compare(I, ast.Lt(), keys[i], keys[o], None) if not rev else ops.compare(I, ast.Lt(), keys[o], keys[i], None)
            if I.ctx.branch(lt):
                pos = j
                break
        order.insert(pos, i)
    return [items[i] for i in order]


def b_min(I, args, kwargs):
    items = args if len(args) > 1 else ops.iterate(I, args[0], None)
    items = [I.force(x) for x in items]
    if all(isinstance(x, int) for x in items):
        return min(items)
    r = items[0]
    for x in items[1:]:
        r = Sym(z3.If(mk_int(x) < mk_int(r), mk_int(x), mk_int(r)), "int")
    return r


def b_max(I, args, kwargs):
    items = args if len(args) > 1 else ops.iterate(I, args[0], None)
    items = [I.force(x) for x in items]
    if all(isinstance(x, int) for x in items):
        return max(items)
    r = items[0]
    for x in items[1:]:
        r = Sym(z3.If(mk_int(x) > mk_int(r), mk_int(x), mk_int(r)), "int")
    return r


def b_sum(I, args, kwargs):
    items = ops.iterate(I, args[0], None)
    acc = args[1] if len(args) > 1 else kwargs.get("start", 0)
    import ast
    for x in items:
        acc = ops.binop(I, ast.Add(), acc, x, None)
    return acc


def b_getattr(I, args, kwargs):
    from .interp import PyRaise
    name = I.force(args[1])
    if not isinstance(name, str):
        raise OutsideSubset("getattr with symbolic name")
    if len(args) > 2:
        try:
            return ops.getattr_(I, args[0], name)
        except PyRaise as p:
            if isinstance(p.exc, ExcValue) and p.exc.cname == "AttributeError":
                return args[2]
            raise
    return ops.getattr_(I, args[0], name)


def b_hasattr(I, args, kwargs):
    from .interp import PyRaise
    try:
        ops.getattr_(I, args[0], I.force(args[1]))
        return True
    except PyRaise as p:
        if isinstance(p.exc, ExcValue) and p.exc.cname == "AttributeError":
            return False
        raise


def b_setattr(I, args, kwargs):
    ops.setattr_(I, I.force(args[0]), I.force(args[1]), args[2])


def b_type(I, args, kwargs):
    v = I.force(args[0])
    if isinstance(v, SObj):
        return ClassRef(v.cls) if hasattr(v.cls, "qualname") else BuiltinClass(str(v.cls))
    k = ops.kind_of(v)
    if k in ("str", "int", "bool", "bytes"):
        return BuiltinClass(k)
    if v is None:
        return BuiltinClass("NoneType")
    if isinstance(v, (list, dict, tuple, set, float)):
        return BuiltinClass(type(v).__name__)
    if isinstance(v, EnumVal):
        return ClassRef(v.ecls)
    if isinstance(v, ExcValue):
        return BuiltinClass(v.cname)
    raise OutsideSubset(f"type({v!r})")


def b_issubclass(I, args, kwargs):
    a, b = I.force(args[0]), I.force(args[1])
    if isinstance(b, tuple):
        return any(b_issubclass(I, [a, x], {}) for x in b)
    if isinstance(a, ClassRef) and isinstance(b, ClassRef):
        return a.info.is_subclass_of(b.info)
    if isinstance(a, ClassRef) and isinstance(b, BuiltinClass):
        return b.name in I.E.exc_class_chain(a.info) or b.name == "object"
    raise OutsideSubset("issubclass")


def b_print(I, args, kwargs):
    return None


def b_cast(I, args, kwargs):
    return args[1]


def b_id(I, args, kwargs):
    v = I.force(args[0])
    if isinstance(v, (SObj, list, dict, set, SList)):
        return id(v)          # object identity of the modelled object: only meaningful for equality / membership within one path
    raise OutsideSubset("id() of a value without identity in the model")


def b_iter(I, args, kwargs):
    return list(ops.iterate(I, args[0], None))


def b_next(I, args, kwargs):
    it = I.force(args[0])
    if isinstance(it, list):
        if it:
            return it.pop(0)
        if len(args) > 1:
            return args[1]
        _raise("StopIteration")
    raise OutsideSubset("next()")


def b_callable(I, args, kwargs):
    v = I.force(args[0])
    return isinstance(v, (Closure, FuncRef, BoundMethod, NativeFn, ClassRef, BuiltinClass, External, ops.SymCallable))


def b_abs(I, args, kwargs):
    v = I.force(args[0])
    if isinstance(v, (int, float)):
        return abs(v)
    return Sym(z3.If(v.t < 0, -v.t, v.t), "int")


def b_chr(I, args, kwargs):
    v = I.force(args[0])
    if isinstance(v, int):
        return chr(v)
    return Sym(z3.StrFromCode(v.t), "str")


def b_ord(I, args, kwargs):
    v = I.force(args[0])
    if isinstance(v, str):
        return ord(v)
    return Sym(z3.StrToCode(v.t), "int")


def b_field(I, args, kwargs):
    # dataclasses.field evaluated outside a class body (rare)
    raise OutsideSubset("dataclasses.field outside a dataclass body")


BUILTINS = {n[2:]: NativeFn(n[2:], f) for n, f in list(globals().items()) if n.startswith("b_") and callable(f)}
BUILTINS["any"] = ops.ANY
BUILTINS["all"] = ops.ALL
BUILTINS["True"], BUILTINS["False"], BUILTINS["None"] = True, False, None
BUILTINS["NotImplemented"] = ops.NotImplementedVal()
for _n in ("str", "int", "bool", "list", "dict", "tuple", "set", "frozenset", "bytes", "object", "float", "type"):
    pass   # class-like builtins are NativeFns when called; isinstance() needs them as BuiltinClass - see BuiltinType below


class BuiltinType(NativeFn):
    """a builtin type: callable (conversion) and usable in isinstance"""

    def __init__(self, name, fn):
        super().__init__(name, fn)


for _n in ("str", "int", "bool", "list", "dict", "tuple", "set", "frozenset", "bytes"):
    BUILTINS[_n] = BuiltinClass(_n)
BUILTINS["object"] = BuiltinClass("object")
BUILTINS["float"] = BuiltinClass("float")
BUILTINS["NoneType"] = BuiltinClass("NoneType")
TYPE_CALLS = {"str": b_str, "int": b_int, "bool": b_bool, "list": b_list, "dict": b_dict, "tuple": b_tuple, "set": b_set,
              "frozenset": b_frozenset, "bytes": b_bytes}


# ----------------------------------------------------------------------------- methods of builtin types
def builtin_method(I, o, name):
    k = ops.kind_of(o)
    if isinstance(o, list):
        return _list_method(I, o, name)
    if isinstance(o, dict):
        return _dict_method(I, o, name)
    if isinstance(o, tuple):
        return _tuple_method(I, o, name)
    if isinstance(o, (set, frozenset)):
        return _set_method(I, o, name)
    if k == "str":
        return _str_method(I, o, name)
    if k == "bytes":
        return _bytes_method(I, o, name)
    if isinstance(o, SList):
        return _slist_method(I, o, name)
    if isinstance(o, Sym) and o.kind == "seq":
        return _seq_method(I, o, name)
    return None


def str_join(t):
    """join of a sequence of strings (uninterpreted; facts instantiated at append time)"""
    return z3.Function("seq.join", z3.SeqSort(z3.StringSort()), z3.StringSort())(t)


def _slist_method(I, o, name):
    def append(I, a, k):
        old = o.sym
        x = ops.unwrap_elem(I, a[0], old.elem)
        new = z3.Concat(old.t, z3.Unit(x))
        o.sym = Sym(new, "seq", old.elem)
        if old.elem == "str":
            I.ctx.assume(str_join(new) == z3.Concat(str_join(old.t), x))

    def extend(I, a, k):
        other = ops.seq_term(I, a[0], o.sym.elem)
        o.sym = Sym(z3.Concat(o.sym.t, other), "seq", o.sym.elem)

    def copy(I, a, k):
        return SList(o.sym)

    def clear(I, a, k):
        o.sym = Sym(z3.Empty(o.sym.t.sort()), "seq", o.sym.elem)
    fn = locals().get(name)
    return NativeFn("list." + name, fn) if fn else None


def _list_method(I, o, name):
    def append(I, a, k): o.append(a[0])
    def extend(I, a, k): o.extend(ops.iterate(I, a[0], None))
    def insert(I, a, k): o.insert(I.force(a[0]), a[1])
    def copy(I, a, k): return list(o)
    def clear(I, a, k): o.clear()
    def reverse(I, a, k): o.reverse()

    def pop(I, a, k):
        if not o:
            _raise("IndexError", "pop from empty list")
        return o.pop(*[I.force(x) for x in a])

    def index(I, a, k):
        for i, x in enumerate(o):
            if I.ctx.branch(ops.py_eq(I, x, a[0])):
                return i
        _raise("ValueError", "x not in list")

    def count(I, a, k):
        n = 0
        for x in o:
            if I.ctx.branch(ops.py_eq(I, x, a[0])):
                n += 1
        return n

    def remove(I, a, k):
        for i, x in enumerate(o):
            if I.ctx.branch(ops.py_eq(I, x, a[0])):
                del o[i]
                return
        _raise("ValueError", "list.remove(x): x not in list")

    def sort(I, a, k):
        o[:] = b_sorted(I, [o], k)
    fn = locals().get(name)
    return NativeFn("list." + name, fn) if fn else None


def _tuple_method(I, o, name):
    def index(I, a, k):
        for i, x in enumerate(o):
            if I.ctx.branch(ops.py_eq(I, x, a[0])):
                return i
        _raise("ValueError", "tuple.index(x): x not in tuple")

    def count(I, a, k):
        return sum(1 for x in o if I.ctx.branch(ops.py_eq(I, x, a[0])))
    fn = locals().get(name)
    return NativeFn("tuple." + name, fn) if fn else None


def _dict_method(I, o, name):
    def get(I, a, k):
        key = I.force(a[0])
        dflt = a[1] if len(a) > 1 else None
        if isinstance(key, Sym):
            keys = list(o.keys())
            conds = [ops.py_eq(I, key, kk) for kk in keys]
            j = I.ctx.choose(conds + [ops.neg(ops.or_any(conds))])
            return o[keys[j]] if j < len(keys) else dflt
        try:
            return o.get(key, dflt)
        except TypeError:
            _raise("TypeError", "unhashable")

    def keys(I, a, k): return list(o.keys())
    def values(I, a, k): return list(o.values())
    def items(I, a, k): return [(kk, v) for kk, v in o.items()]
    def copy(I, a, k): return dict(o)
    def clear(I, a, k): o.clear()

    def update(I, a, k):
        if a:
            src = I.force(a[0])
            if isinstance(src, dict):
                o.update(src)
            else:
                for kv in ops.iterate(I, src, None):
                    kk, vv = ops.iterate(I, kv, None)
                    o[ops.dict_key(I, kk, None)] = vv
        o.update(k)

    def pop(I, a, k):
        key = I.force(a[0])
        if isinstance(key, Sym):
            raise OutsideSubset("dict.pop(symbolic)")
        if key in o:
            return o.pop(key)
        if len(a) > 1:
            return a[1]
        _raise("KeyError", key)

    def setdefault(I, a, k):
        key = ops.dict_key(I, a[0], None)
        if key not in o:
            o[key] = a[1] if len(a) > 1 else None
        return o[key]
    fn = locals().get(name)
    return NativeFn("dict." + name, fn) if fn else None


def _set_method(I, o, name):
    def add(I, a, k):
        x = I.force(a[0])
        o.add(x if isinstance(x, Sym) else ops.dict_key(I, x, None))     # symbolic members: membership is decided by ==, len() is refused
    def update(I, a, k): o.update(ops.make_set(I, ops.iterate(I, a[0], None), None))
    def union(I, a, k): return set(o).union(*[ops.make_set(I, ops.iterate(I, x, None), None) for x in a])
    def copy(I, a, k): return set(o)
    def clear(I, a, k): o.clear()
    def remove(I, a, k):
        x = ops.dict_key(I, a[0], None)
        if x not in o:
            _raise("KeyError", x)
        o.remove(x)
    def issubset(I, a, k): return o.issubset(ops.make_set(I, ops.iterate(I, a[0], None), None))
    def discard(I, a, k): o.discard(ops.dict_key(I, a[0], None))
    def intersection(I, a, k): return set(o).intersection(*[ops.make_set(I, ops.iterate(I, x, None), None) for x in a])
    def difference(I, a, k): return set(o).difference(*[ops.make_set(I, ops.iterate(I, x, None), None) for x in a])
    fn = locals().get(name)
    return NativeFn("set." + name, fn) if fn else None


def _str_method(I, o, name):
    conc = isinstance(o, str)

    def _allc(a):
        return conc and all(not isinstance(I.force(x), Sym) for x in a)

    def startswith(I, a, k):
        p = I.force(a[0])
        if isinstance(p, tuple):
            return Sym(ops.mk_bool_term(ops.or_any([_t(startswith(I, [x], k)) for x in p])), "bool")
        if ops.kind_of(p) != "str":
            _raise("TypeError", "startswith first arg must be str or a tuple of str")
        if _allc(a):
            return o.startswith(p)
        return Sym(z3.PrefixOf(mk_str(p), mk_str(o)), "bool")

    def endswith(I, a, k):
        p = I.force(a[0])
        if isinstance(p, tuple):
            return Sym(ops.mk_bool_term(ops.or_any([_t(endswith(I, [x], k)) for x in p])), "bool")
        if ops.kind_of(p) != "str":
            _raise("TypeError", "endswith first arg must be str or a tuple of str")
        if _allc(a):
            return o.endswith(p)
        return Sym(z3.SuffixOf(mk_str(p), mk_str(o)), "bool")

    def _t(v):
        return v if isinstance(v, bool) else v.t

    def join(I, a, k):
        src = ops.sv(I.force(a[0]))
        if isinstance(src, Sym) and src.kind == "seq" and src.elem == "str" and o == "":
            r = str_join(src.t)
            I.ctx.assume(z3.Implies(z3.Length(src.t) == 0, r == z3.StringVal("")))
            return Sym(r, "str")
        items = ops.iterate(I, a[0], None)
        parts = []
        for i, x in enumerate(items):
            x = I.force(x)
            if ops.kind_of(x) != "str":
                _raise("TypeError", "sequence item: expected str instance")
            if i:
                parts.append(o)
            parts.append(x)
        return ops.concat_strs(I, parts)

    def replace(I, a, k):
        x, y = I.force(a[0]), I.force(a[1])
        if _allc(a):
            return o.replace(x, y)
        if isinstance(x, str) and len(x) == 1 and isinstance(y, str):
            return charmap_apply(I, o, {x: y})
        if len(a) == 2 and not k and ops.kind_of(x) == "str" and ops.kind_of(y) == "str" and ops.kind_of(o) == "str":
            # general case: SMT-LIB str.replace_all (every non-overlapping occurrence, left to right, as CPython) - defined for a non-empty pattern
            pat = mk_str(x)
            if I.ctx.branch(z3.Length(pat) == 0):
                raise OutsideSubset("str.replace with a possibly empty pattern")
            so, sy = mk_str(o), mk_str(y)
            return Sym(z3.SeqRef(z3.Z3_mk_seq_replace_all(so.ctx_ref(), so.as_ast(), pat.as_ast(), sy.as_ast()), so.ctx), "str")
        raise OutsideSubset("str.replace on a symbolic string with a non single-character pattern")

    def lower(I, a, k):
        if conc:
            return o.lower()
        f = z3.Function("str.lower", z3.StringSort(), z3.StringSort())
        r = f(o.t)
        I.ctx.assume(z3.Length(r) == z3.Length(o.t))   # holds for all but a handful of code points (documented assumption)
        return Sym(r, "str")

    def upper(I, a, k):
        if conc:
            return o.upper()
        f = z3.Function("str.upper", z3.StringSort(), z3.StringSort())
        return Sym(f(o.t), "str")

    def encode(I, a, k):
        enc = I.force(a[0]) if a else k.get("encoding", "utf-8")
        if conc:
            try:
                return o.encode(enc)
            except UnicodeEncodeError:
                _raise("UnicodeEncodeError")
        h = I.E.externals.get("str.encode")
        if h is None:
            raise OutsideSubset("str.encode on a symbolic string without assumed codec contract")
        return h(I, [o, enc], {})

    def format(I, a, k):
        if not conc:
            h = I.E.externals.get("str.format")       # a contract may treat templates as opaque: the hook receives (template, *args), kwargs
            if h is not None:
                return h(I, [o] + list(a), k)
            raise OutsideSubset(".format on a symbolic template")
        return format_template(I, o, a, k)

    def split(I, a, k):
        if hasattr(o, "addr") and [I.force(x) for x in a] == ["."]:
            from contracts.c18 import octet, dec
            return [Sym(dec(octet(o.addr, i)), "str") for i in range(4)]     # assumed: dotted quad = four decimal octets
        if _allc(a):
            return o.split(*[I.force(x) for x in a])
        raise OutsideSubset("split on a symbolic string")

    def strip(I, a, k):
        if _allc(a):
            return o.strip(*a)
        if not a and not k:
            # whitespace stripping as an uninterpreted function with the facts every use here needs: the result is a substring, not longer
            # than the operand, and the empty string strips to itself.  Counter-models over it are replayed natively before they count.
            f = z3.Function("str.strip", z3.StringSort(), z3.StringSort())
            r = f(o.t)
            I.ctx.assume(z3.And(z3.Length(r) <= z3.Length(o.t), z3.Contains(o.t, r), z3.Implies(z3.Length(o.t) == 0, z3.Length(r) == 0)))
            return Sym(r, "str")
        raise OutsideSubset("strip on a symbolic string")

    def isdigit(I, a, k):
        if conc:
            return o.isdigit()
        raise OutsideSubset("isdigit on symbolic string")

    def find(I, a, k):
        if _allc(a):
            return o.find(*a)
        return Sym(z3.IndexOf(mk_str(o), mk_str(I.force(a[0])), mk_int(I.force(a[1])) if len(a) > 1 else z3.IntVal(0)), "int")

    def index(I, a, k):
        r = find(I, a, k)
        if isinstance(r, int):
            if r < 0:
                _raise("ValueError", "substring not found")
            return r
        if not I.ctx.branch(r.t >= 0):
            _raise("ValueError", "substring not found")
        return r

    def count(I, a, k):
        if _allc(a):
            return o.count(*a)
        raise OutsideSubset("count on symbolic string")

    def isupper(I, a, k):
        if conc:
            return o.isupper()
        raise OutsideSubset("isupper on symbolic string")

    def rstrip(I, a, k):
        if _allc(a):
            return o.rstrip(*a)
        raise OutsideSubset("rstrip on symbolic")

    def lstrip(I, a, k):
        if _allc(a):
            return o.lstrip(*a)
        raise OutsideSubset("lstrip on symbolic")
    def partition(I, a, k):
        if _allc(a):
            return o.partition(*[I.force(x) for x in a])
        raise OutsideSubset("partition on symbolic text")

    def rpartition(I, a, k):
        if _allc(a):
            return o.rpartition(*[I.force(x) for x in a])
        raise OutsideSubset("rpartition on symbolic text")
    fn = locals().get(name)
    if fn is None or name.startswith("_"):
        return None
    return NativeFn("str." + name, fn)


def charmap_fn(mapping):
    """uninterpreted per-character substitution  s -> concat(mapping.get(c, c) for c in s); canonical name from the mapping"""
    name = "charmap{" + ",".join(f"{k!r}:{v!r}" for k, v in sorted(mapping.items())) + "}"
    return z3.Function(name, z3.StringSort(), z3.StringSort())


def charmap_unfold(mapping, c, rest):
    """defining equations for a one-character string c followed by rest (instances are supplied as hints)"""
    f = charmap_fn(mapping)
    img = c
    for k, v in mapping.items():
        img = z3.If(c == z3.StringVal(k), z3.StringVal(v), img)
    return f(z3.Concat(c, rest)) == z3.Concat(img, f(rest))


def charmap_nil(mapping):
    return charmap_fn(mapping)(z3.StringVal("")) == z3.StringVal("")


def charmap_apply(I, o, mapping):
    """s.replace(a, b) for a single character a.  Chained replaces compose into one per-character map when no later
    pattern occurs in an earlier replacement and no earlier pattern equals a later one (checked; else outside subset).
    Assumed: CPython's str.replace replaces every occurrence, left to right (cross-checked natively by the bounded tier)."""
    prev = getattr(o, "charmap", None) if isinstance(o, Sym) else None
    if prev is not None:
        base, m0 = prev
        (k, v), = mapping.items()
        if any(k in r for r in m0.values()) or k in m0:
            raise OutsideSubset("replace chain is not a per-character map")
        m = dict(m0)
        m[k] = v
    else:
        base, m = o, dict(mapping)
    r = Sym(charmap_fn(m)(mk_str(base)), "str")
    r_ = SymStr(r.t, base, m)
    return r_


class SymStr(Sym):
    __slots__ = ("charmap",)

    def __init__(self, t, base, m):
        super().__init__(t, "str")
        self.charmap = (base, m)


def format_template(I, tmpl, a, k):
    """str.format for a *constant* template: split into literal segments and fields; {a.b} attribute fields supported."""
    import string
    parts = []
    auto = 0
    for lit, field, spec, conv in string.Formatter().parse(tmpl):
        if lit:
            parts.append(lit)
        if field is None:
            continue
        if spec or conv:
            raise OutsideSubset("format spec / conversion in template")
        head, *attrs = field.split(".")
        if head == "":
            v = a[auto]
            auto += 1
        elif head.isdigit():
            v = a[int(head)]
        else:
            if head not in k:
                _raise("KeyError", head)
            v = k[head]
        for at in attrs:
            v = ops.getattr_(I, v, at)
        parts.append(ops.to_str(I, v))
    return ops.concat_strs(I, parts)


def _bytes_method(I, o, name):
    def decode(I, a, k):
        enc = I.force(a[0]) if a else k.get("encoding", "utf-8")
        if isinstance(o, bytes):
            try:
                return o.decode(enc)
            except UnicodeDecodeError:
                _raise("UnicodeDecodeError")
        h = I.E.externals.get("bytes.decode")
        if h is None:
            raise OutsideSubset("bytes.decode on symbolic bytes without assumed codec contract")
        return h(I, [o, enc], {})
    fn = locals().get(name)
    return NativeFn("bytes." + name, fn) if fn else None


def _seq_method(I, o, name):
    def copy(I, a, k): return o

    def append(I, a, k):
        raise OutsideSubset("mutation of a symbolic-length list")
    fn = locals().get(name)
    return NativeFn("seq." + name, fn) if fn else None


# ----------------------------------------------------------------------------- externals (assumed contracts)
def x_cast(I, args, kwargs):
    return args[1]


def x_field(I, args, kwargs):
    raise OutsideSubset("dataclasses.field() call outside dataclass field default")


def x_deepcopy(I, args, kwargs):
    """copy.deepcopy: fresh, structurally equal (values are copied along their concrete spine)"""
    memo = {}

    def cp(v):
        if id(v) in memo:
            return memo[id(v)]
        if isinstance(v, list):
            r = []
            memo[id(v)] = r
            r.extend(cp(x) for x in v)
            return r
        if isinstance(v, dict):
            r = {}
            memo[id(v)] = r
            for kk, x in v.items():
                r[kk] = cp(x)
            return r
        if isinstance(v, tuple):
            return tuple(cp(x) for x in v)
        if isinstance(v, set):
            return set(v)
        if isinstance(v, SObj):
            r = SObj(v.cls, {}, v.lazy, {k2: v2 for k2, v2 in v.ghost.items() if k2 != "shared"})
            r.born = I.ctx
            memo[id(v)] = r
            for kk, x in v.fields.items():
                r.fields[kk] = cp(x)
            return r
        if isinstance(v, SOpt):
            return SOpt(v.is_none, cp(v.val))
        return v
    return cp(args[0])


def x_copy(I, args, kwargs):
    """copy.copy: a new top-level object, the contained objects are shared with the original"""
    v = I.force(args[0])
    if isinstance(v, list):
        return list(v)
    if isinstance(v, dict):
        return dict(v)
    if isinstance(v, set):
        return set(v)
    if isinstance(v, SObj):
        r = SObj(v.cls, dict(v.fields), v.lazy, {k2: v2 for k2, v2 in v.ghost.items() if k2 != "shared"})
        r.born = I.ctx
        return r
    return v


def x_replace(I, args, kwargs):
    """dataclasses.replace"""
    o = I.force(args[0])
    if not isinstance(o, SObj):
        raise OutsideSubset("dataclasses.replace on non-object")
    r = SObj(o.cls, dict(o.fields), o.lazy, dict(o.ghost))
    if hasattr(o.cls, "dataclass_fields") and o.cls.is_dataclass:
        # fields declared with init=False are not copied: the new object holds what its constructor puts there (the default / the
        # factory's fresh value, materialised on first access); __post_init__ of the copy is NOT run (assumption of the model)
        for (n, ann, dflt, owner) in o.cls.dataclass_fields():
            if dflt is not None and isinstance(dflt, ast.Call) and ast.unparse(dflt.func) in ("field", "dataclasses.field") \
                    and any(kw.arg == "init" and ast.literal_eval(kw.value) is False for kw in dflt.keywords):
                if n in kwargs:
                    from .interp import PyRaise
                    raise PyRaise(ExcValue("ValueError", (f"field {n} is declared with init=False, it cannot be specified with replace()",)))
                r.fields.pop(n, None)
    r.fields.update(kwargs)
    return r


def x_reduce(I, args, kwargs):
    f, items = args[0], ops.iterate(I, args[1], None)
    if len(args) > 2:
        acc = args[2]
    else:
        acc, items = items[0], items[1:]
    for x in items:
        acc = I.call(f, [acc, x], {})
    return acc


def x_pairwise(I, args, kwargs):
    items = ops.iterate(I, args[0], None)
    return list(zip(items, items[1:]))


def x_chain_from_iterable(I, args, kwargs):
    out = []
    for x in ops.iterate(I, args[0], None):
        out.extend(ops.iterate(I, x, None))
    return out


def x_product(I, args, kwargs):
    import itertools
    return [tuple(t) for t in itertools.product(*[ops.iterate(I, a, None) for a in args])]


def x_partial(I, args, kwargs):
    f, pre = args[0], list(args[1:])
    return NativeFn("partial", lambda I2, a, k: I2.call(f, pre + list(a), {**kwargs, **k}))


class SDefaultDict(dict):
    """collections.defaultdict: d[k] on a missing key calls the factory, stores and returns the value; .get does not"""
    factory = None


def x_defaultdict(I, args, kwargs):
    d = SDefaultDict()
    d.factory = args[0] if args else None
    if len(args) > 1:                  # defaultdict(factory, mapping): the entries of the mapping (same value objects), like dict(mapping)
        init = I.force(args[1])
        if not isinstance(init, dict):
            raise OutsideSubset("defaultdict initialised from something else than a concrete dict")
        d.update(init)
    d.update(kwargs)
    return d


def x_namedtuple(I, args, kwargs):
    name, fields = I.force(args[0]), [I.force(f) for f in ops.iterate(I, args[1], None)]

    def make(I2, a, k):
        vals = dict(zip(fields, a))
        vals.update(k)
        if set(vals) != set(fields):
            _raise("TypeError", f"{name}: wrong arguments")
        o = SObj(NamedTupleClass(name, fields), vals)
        o.born = I2.ctx
        return o
    return NativeFn(name, make)


class NamedTupleClass:
    def __init__(self, name, fields):
        self.name, self.fields = name, fields


def x_commonprefix(I, args, kwargs):
    """os.path.commonprefix (assumed stdlib contract): the longest common *character* prefix of the given strings (two strings modelled)"""
    items = ops.iterate(I, args[0], None)
    if len(items) != 2:
        raise OutsideSubset("commonprefix of other than two strings")
    a, b = mk_str(I.force(items[0])), mk_str(I.force(items[1]))
    r = I.fresh("commonprefix", "str")
    n = z3.Length(r.t)
    I.ctx.assume(z3.And(z3.PrefixOf(r.t, a), z3.PrefixOf(r.t, b),
                        z3.Or(n == z3.Length(a), n == z3.Length(b), z3.SubString(a, n, 1) != z3.SubString(b, n, 1))))
    return r


EXTERNALS = {
    "os.path.commonprefix": x_commonprefix,
    "collections.namedtuple": x_namedtuple,
    "functools.partial": x_partial,
    "collections.defaultdict": x_defaultdict,
    "typing.cast": x_cast,
    "copy.deepcopy": x_deepcopy,
    "copy.copy": x_copy,
    "dataclasses.replace": x_replace,
    "functools.reduce": x_reduce,
    "itertools.pairwise": x_pairwise,
    "itertools.chain.from_iterable": x_chain_from_iterable,
    "itertools.product": x_product,
}
