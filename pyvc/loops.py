"""Loop contracts: inductive invariants for loops over sequences of symbolic length.

For `for x in xs` with xs symbolic, a LoopSpec splits the path into
   (a) initiation:  inv(done=[], rest=xs) is required on entry;
   (b) an arbitrary iteration: modified variables are havoced, xs == done ++ [x] ++ rest2 with fresh done/x/rest2,
       inv(done, [x]+rest2) assumed, the body executed, inv(done+[x], rest2) required, and the path ends;
       `break`, `return` and `raise` leave the loop from this state;
   (c) exit: modified variables havoced, inv(done=xs, rest=[]) assumed, execution continues behind the loop.
Spec functions are uninterpreted; `hints` supply instances of their defining equations (explicit unfolding).
"""
from __future__ import annotations
import z3
from .values import *
from .path import PathEnd
from . import ops


class LoopSpec:
    modifies = {}      # local variable -> kind ('int' | 'bool' | 'str' | ('seq', elem))
    source_hash = None

    def inv(self, I, env, done, rest, total):
        """-> list of (label, z3 Bool)"""
        raise NotImplementedError

    def hints(self, I, env, phase, x, done, rest2, total):
        """phase 'pre' (before the body) / 'post' (after the body) / 'exit' -> list of z3 Bool facts, each an instance of a spec
        definition or of a proved lemma"""
        return []

    # ------------------------------------------------------------------
    def havoc(self, I, env):
        for name, kind in self.modifies.items():
            if isinstance(kind, tuple) and kind[0] == "seq":
                v = SList(I.fresh(name, "seq", elem=kind[1]))
            else:
                v = I.fresh(name, kind)
            env.assign(name, v)

    def snapshot(self, env):
        """immutable copy of the variables at loop entry (mutable symbolic lists are frozen to their current value)"""
        out = {}
        for k, v in self.view(env).items():
            out[k] = SList(v.sym) if isinstance(v, SList) else (list(v) if isinstance(v, list) else v)
        return out

    def view(self, env):
        out = {}
        e = env
        while e is not None:
            for k, v in e.vars.items():
                out.setdefault(k, v)
            e = e.parent
        return out

    def run_for(self, I, st, it, env, module, cls):
        from .interp import BreakSig, ContinueSig
        it = ops.sv(it)
        if isinstance(it, str):
            it = Sym(z3.StringVal(it), "str")
        if not (isinstance(it, Sym) and it.kind in ("seq", "str")):
            raise OutsideSubset(f"loop invariant given but iterable is {it!r} (line {st.lineno})")
        total = it.t
        is_str = it.kind == "str"
        sort = total.sort()
        empty = z3.StringVal("") if is_str else z3.Empty(sort)
        c = I.ctx
        where = f"{I.call_stack[-1]} loop@{st.lineno}"
        shared = list((getattr(c, "class_attrs", None) or {}).items())
        for name, kind in self.modifies.items():
            if isinstance(kind, tuple) and kind[0] == "seq":
                cur = self.view(env).get(name)
                hit = [k for k, v in shared if v is cur and isinstance(cur, (list, SList))]
                if hit:     # the loop appends to an object that is class-level state: every later call (and every instance) sees the additions
                    c.require(False, f"the list '{name}' the loop builds is a fresh object, not the class-level list {hit[0][0].split(':')[-1]}.{hit[0][1]} (shared by all calls)", kind="FRAME", site=where)
        entry = self.snapshot(env)
        self.entry_key = f"$entry@{st.lineno}"
        env.vars[self.entry_key] = entry
        for h in self.hints(I, self.view(env), "entry", None, empty, total, total):
            c.assume(h)
        for label, cond in self.inv(I, self.view(env), empty, total, total):
            c.require(cond, f"loop invariant holds on entry: {label}", kind="VC", site=where)
        choice = I.fresh("loop_iter", "bool")
        if c.branch(choice.t):
            self.havoc(I, env)
            done = z3.Const(c.fresh_name("done"), sort)
            rest2 = z3.Const(c.fresh_name("rest"), sort)
            if is_str:
                x = z3.String(c.fresh_name("c"))
                c.assume(z3.Length(x) == 1)
                xs = x
                xv = Sym(x, "str")
            else:
                xe = z3.Const(c.fresh_name("x"), ops.elem_sort(it.elem))
                xs = z3.Unit(xe)
                xv = ops.wrap_elem(xe, it.elem)
                x = xe
            rest = z3.Concat(xs, rest2)
            c.assume(total == z3.Concat(done, rest))
            for label, cond in self.inv(I, self.view(env), done, rest, total):
                c.assume(cond)
            for h in self.hints(I, self.view(env), "pre", x, done, rest2, total):
                c.assume(h)
            I.assign_target(st.target, I.force(xv), env, module, cls)
            try:
                I.exec_block(st.body, env, module, cls)
            except ContinueSig:
                pass
            except BreakSig:
                return
            for h in self.hints(I, self.view(env), "post", x, done, rest2, total):
                c.assume(h)
            for label, cond in self.inv(I, self.view(env), z3.Concat(done, xs), rest2, total):
                c.require(cond, f"loop invariant preserved: {label}", kind="VC", site=where)
            raise PathEnd()
        else:
            self.havoc(I, env)
            for label, cond in self.inv(I, self.view(env), total, empty, total):
                c.assume(cond)
            for h in self.hints(I, self.view(env), "exit", None, total, empty, total):
                c.assume(h)
            I.exec_block(st.orelse, env, module, cls)


class SpecFn:
    """uninterpreted spec function with an explicit defining equation: unfold(args) is the instance f(args) == body(args)"""

    def __init__(self, name, arg_sorts, ret_sort, body):
        self.f = z3.Function(name, *arg_sorts, ret_sort)
        self.body = body
        self.name = name

    def __call__(self, *args):
        return self.f(*args)

    def unfold(self, *args):
        return self.f(*args) == self.body(self, *args)
