import sys, os, argparse, traceback


def main():
    ap = argparse.ArgumentParser()
    ap.add_argument("prop")
    ap.add_argument("--tier", default=os.environ.get("VERIF_TIER", "quick"))
    ap.add_argument("--only", default=None)
    ap.add_argument("--replay", default=None)
    ap.add_argument("-v", action="store_true")
    a = ap.parse_args()
    seed = int(os.environ.get("VERIF_SEED", "0") or 0)
    try:
        from pyvc import runner
        if a.replay:
            sys.exit(runner.replay_file(a.prop, a.replay))
        rc = runner.run_property(a.prop, a.tier, seed, a.only, a.v)
    except SystemExit:
        raise
    except BaseException:
        traceback.print_exc()
        sys.exit(3)
    sys.exit(rc)


main()
