"""Operations on symbolic / concrete values with Python semantics (truthiness, ==, arithmetic, indexing, slicing,
attribute access, iteration).  Everything that CPython could raise here is raised as PyRaise(ExcValue(...)) so that it
becomes an exceptional exit of the function under verification (SAFE obligations)."""
from __future__ import annotations
import ast, z3
from .values import *
from .extract import ClassInfo, FunctionInfo


def PyRaise(exc):
    from .interp import PyRaise as P
    return P(exc)


class SymCallable:
    """a callable symbolic thing (e.g. the builtin any/all stored in a field)"""

    def call(self, I, args, kwargs):
        raise NotImplementedError


class AnyAllVal(SymCallable):
    """the builtins `any` / `all` as first-class values"""

    def __init__(self, which):
        self.which = which

    def call(self, I, args, kwargs):
        from .builtins_ import b_any, b_all
        return (b_any if self.which == "any" else b_all)(I, args, kwargs)

    def __repr__(self):
        return f"<builtin {self.which}>"


ANY, ALL = AnyAllVal("any"), AnyAllVal("all")


ADTS = {}      # name -> (z3 sort, wrap(term)->value, unwrap(I, value)->term)   (registered by contract models)


def elem_sort(elem):
    if isinstance(elem, tuple) and elem[0] == "adt":
        return ADTS[elem[1]][0]
    if elem == "int":
        return z3.IntSort()
    if elem == "bool":
        return z3.BoolSort()
    if elem == "str":
        return z3.StringSort()
    if isinstance(elem, tuple) and elem[0] == "opaque":
        return z3.DeclareSort(elem[1])
    if isinstance(elem, z3.SortRef):
        return elem
    raise OutsideSubset(f"element kind {elem!r}")


def wrap_elem(t, elem):
    if elem in ("int", "bool", "str"):
        return Sym(t, elem)
    if isinstance(elem, tuple) and elem[0] == "opaque":
        return Sym(t, "opaque", elem[1])
    if isinstance(elem, tuple) and elem[0] == "adt":
        return ADTS[elem[1]][1](t)
    raise OutsideSubset(f"element kind {elem!r}")


def unwrap_elem(I, v, elem):
    if isinstance(elem, tuple) and elem[0] == "adt":
        return ADTS[elem[1]][2](I, v)
    v = I.force(v)
    if elem == "int":
        return mk_int(v)
    if elem == "bool":
        return mk_bool(v)
    if elem == "str":
        return mk_str(v)
    if isinstance(elem, tuple) and elem[0] == "opaque" and isinstance(v, Sym) and v.kind == "opaque":
        return v.t
    raise OutsideSubset(f"cannot put {v!r} into a sequence of {elem!r}")


def sv(v):
    """read-only view: the symbolic sequence held by an SList"""
    return v.sym if isinstance(v, SList) else v


def seq_term(I, v, elem):
    """z3 Seq term of a list-like value (concrete list, SList, Sym seq)"""
    v = sv(I.force(v))
    if isinstance(v, Sym) and v.kind == "seq":
        return v.t
    if isinstance(v, (list, tuple)):
        return list_to_seq(I, list(v), elem)
    raise OutsideSubset(f"not a list: {v!r}")


def is_immutable(v):
    if v is None or isinstance(v, (int, float, str, bytes, bool, Sym, EnumVal, ClassRef, BuiltinClass, FuncRef, External, ModuleRef, NativeFn, frozenset, SymCallable)):
        return True
    if isinstance(v, tuple):
        return all(is_immutable(x) for x in v)
    return False


# ----------------------------------------------------------------------------- truthiness / equality
def truth(I, v):
    v = sv(I.force(v))
    if v is None:
        return False
    if isinstance(v, bool):
        return v
    if isinstance(v, (int, float, str, bytes, tuple, list, dict, set, frozenset)):
        return bool(v)
    if isinstance(v, Sym):
        if v.kind == "bool":
            return v.t
        if v.kind == "int":
            return v.t != 0
        if v.kind in ("str", "seq"):
            return z3.Length(v.t) > 0
        if v.kind == "bytes":
            return blen(v.t) > 0
        if v.kind == "opaque":
            h = I.E.opaque_truth.get(v.elem)
            if h:
                return h(I, v)
            if v.elem in getattr(I.E, "opaque_objects", ()):         # declared by the contract to stand for plain objects (always true)
                return True
            # an abstract value of unknown kind may be a container or a text: whether it is "true" is an unknown of its own
            return z3.Function(f"truth!{v.elem}", v.t.sort(), z3.BoolSort())(v.t)
    if isinstance(v, SObj):
        for name in ("__bool__", "__len__"):
            m = v.cls.find_method(name) if isinstance(v.cls, ClassInfo) else None
            if m is not None:
                r = I.call_function(m, v, [], {})
                return truth(I, r)
        return True
    if isinstance(v, CharSet):
        return z3.Length(v.t) > 0
    if isinstance(v, (EnumVal, ClassRef, BuiltinClass, FuncRef, Closure, BoundMethod, External, NativeFn, SymCallable, ExcValue, ModuleRef)):
        return True
    raise OutsideSubset(f"truth value of {v!r}")


def kind_of(v):
    if isinstance(v, Sym):
        return v.kind
    if isinstance(v, bool):
        return "bool"
    if isinstance(v, int):
        return "int"
    if isinstance(v, str):
        return "str"
    if isinstance(v, bytes):
        return "bytes"
    return None


def py_eq(I, a, b):
    a, b = I.force(a), I.force(b)
    if a is b and isinstance(a, SList):
        return True
    a, b = sv(a), sv(b)
    if a is b:
        if not isinstance(a, float):
            return True
    # an abstract object whose equality is modelled by the contract (a NativeFn under __eq__): Python asks the left operand first, then the
    # reflected operation of the right one
    for x, y in ((a, b), (b, a)):
        if isinstance(x, SObj) and isinstance(x.fields.get("__eq__"), NativeFn):
            return truth(I, x.fields["__eq__"].fn(I, [y], {}))
    ka, kb = kind_of(a), kind_of(b)
    if isinstance(a, Sym) or isinstance(b, Sym):
        if ka in ("int", "bool") and kb in ("int", "bool"):
            if ka == "bool" and kb == "bool":
                return mk_bool(a) == mk_bool(b)
            return _as_int(a) == _as_int(b)
        if ka == "str" and kb == "str":
            return mk_str(a) == mk_str(b)
        if ka == "bytes" and kb == "bytes":
            return mk_bytes(a, I) == mk_bytes(b, I)
        if ka == "opaque" and kb == "opaque" and a.elem == b.elem:
            return a.t == b.t
        if ka == "seq" and kb == "seq" and a.elem == b.elem:
            return a.t == b.t
        if ka == "seq" and isinstance(b, (list,)) or kb == "seq" and isinstance(a, (list,)):
            s, l = (a, b) if ka == "seq" else (b, a)
            return s.t == list_to_seq(I, l, s.elem)
        return False      # different types never compare equal
    if isinstance(a, SObj) and isinstance(b, SObj) and (a.ghost.get("eq_unknown") or b.ghost.get("eq_unknown")):
        # abstract objects whose class defines its own (structural) equality: == between two different objects is an unknown
        # symmetric boolean, one per pair
        key = tuple(sorted((a.ghost.get("eq_unknown") or str(id(a)), b.ghost.get("eq_unknown") or str(id(b)))))
        return z3.Bool(f"objeq!{key[0]}!{key[1]}")
    if isinstance(a, SObj) and isinstance(b, SObj):
        eqm = a.cls.find_method("__eq__") if isinstance(a.cls, ClassInfo) else None
        if eqm is not None:
            return truth(I, I.call_function(eqm, a, [b], {}))
        if isinstance(a.cls, ClassInfo) and a.cls.is_dataclass:
            if a.cls is not b.cls:
                return False
            conds = []
            for (n, _, dflt, _) in a.cls.dataclass_fields():
                if dflt is not None and "compare=False" in ast.unparse(dflt).replace(" ", ""):
                    continue
                if n in a.fields and n in b.fields:
                    conds.append(py_eq(I, a.fields[n], b.fields[n]))
                elif (n in a.fields) != (n in b.fields):
                    return False
            return and_all(conds)
        return False
    if isinstance(a, SObj) or isinstance(b, SObj):
        o, x = (a, b) if isinstance(a, SObj) else (b, a)
        eqm = o.cls.find_method("__eq__") if isinstance(o.cls, ClassInfo) else None
        if eqm is not None:
            return truth(I, I.call_function(eqm, o, [x], {}))
        return False
    if isinstance(a, (list, tuple)) and isinstance(b, (list, tuple)):
        if type(a) is not type(b) or len(a) != len(b):
            return False
        return and_all([py_eq(I, x, y) for x, y in zip(a, b)])
    if isinstance(a, dict) and isinstance(b, dict):
        if set(a.keys()) != set(b.keys()):
            return False
        return and_all([py_eq(I, a[k], b[k]) for k in a])
    try:
        return bool(a == b)
    except Exception:
        return False


def and_all(conds):
    out = []
    for c in conds:
        if isinstance(c, bool):
            if not c:
                return False
        else:
            out.append(c)
    if not out:
        return True
    return z3.And(*out) if len(out) > 1 else out[0]


def or_any(conds):
    out = []
    for c in conds:
        if isinstance(c, bool):
            if c:
                return True
        else:
            out.append(c)
    if not out:
        return False
    return z3.Or(*out) if len(out) > 1 else out[0]


def mk_or(conds):
    conds = list(conds)
    if not conds:
        return z3.BoolVal(False)
    return z3.Or(*conds) if len(conds) > 1 else conds[0]


def mk_bool_term(c):
    return z3.BoolVal(c) if isinstance(c, bool) else c


def neg(c):
    return (not c) if isinstance(c, bool) else z3.Not(c)


def _as_int(v):
    if isinstance(v, Sym) and v.kind == "bool":
        return z3.If(v.t, 1, 0)
    return mk_int(v)


def list_to_seq(I, l, elem):
    if not l:
        return z3.Empty(z3.SeqSort(elem_sort(elem)))
    us = [z3.Unit(unwrap_elem(I, x, elem)) for x in l]
    return us[0] if len(us) == 1 else z3.Concat(*us)


# ----------------------------------------------------------------------------- comparison
def compare(I, op, a, b, node):
    if isinstance(op, ast.Is):
        return is_(I, a, b)
    if isinstance(op, ast.IsNot):
        return neg(is_(I, a, b))
    if isinstance(op, ast.Eq):
        return py_eq(I, a, b)
    if isinstance(op, ast.NotEq):
        return neg(py_eq(I, a, b))
    if isinstance(op, ast.In):
        return contains(I, b, a, node)
    if isinstance(op, ast.NotIn):
        return neg(contains(I, b, a, node))
    a, b = I.force(a), I.force(b)
    ka, kb = kind_of(a), kind_of(b)
    if ka in ("int", "bool") and kb in ("int", "bool"):
        if not isinstance(a, Sym) and not isinstance(b, Sym):
            return {ast.Lt: a < b, ast.LtE: a <= b, ast.Gt: a > b, ast.GtE: a >= b}[type(op)]
        x, y = _as_int(a), _as_int(b)
        return {ast.Lt: x < y, ast.LtE: x <= y, ast.Gt: x > y, ast.GtE: x >= y}[type(op)]
    if isinstance(a, (int, float)) and isinstance(b, (int, float)):
        return {ast.Lt: a < b, ast.LtE: a <= b, ast.Gt: a > b, ast.GtE: a >= b}[type(op)]
    if isinstance(a, str) and isinstance(b, str):
        return {ast.Lt: a < b, ast.LtE: a <= b, ast.Gt: a > b, ast.GtE: a >= b}[type(op)]
    if isinstance(a, tuple) and isinstance(b, tuple):
        for x, y in zip(a, b):          # lexicographic, deciding equality of the components along the path
            if not I.ctx.branch(py_eq(I, x, y)):
                return compare(I, op, x, y, node)
        return {ast.Lt: len(a) < len(b), ast.LtE: len(a) <= len(b), ast.Gt: len(a) > len(b), ast.GtE: len(a) >= len(b)}[type(op)]
    if ka == "str" and kb == "str":
        x, y = mk_str(a), mk_str(b)
        return {ast.Lt: x < y, ast.LtE: x <= y, ast.Gt: y < x, ast.GtE: y <= x}[type(op)]
    if isinstance(a, SObj) and isinstance(a.cls, ClassInfo):
        name = {ast.Lt: "__lt__", ast.LtE: "__le__", ast.Gt: "__gt__", ast.GtE: "__ge__"}[type(op)]
        m = a.cls.find_method(name)
        if m is not None:
            return truth(I, I.call_function(m, a, [b], {}))
    if a is None or b is None:
        raise PyRaise(ExcValue("TypeError", ("ordering comparison with None",)))
    raise OutsideSubset(f"ordering comparison of {a!r} and {b!r} (line {getattr(node, 'lineno', '?')})")


def is_(I, a, b):
    if isinstance(a, SOpt) and b is None:
        return a.is_none
    if isinstance(b, SOpt) and a is None:
        return b.is_none
    a, b = I.force(a), I.force(b)
    if a is None or b is None:
        return a is b
    if isinstance(a, Sym) and isinstance(b, Sym):
        if a.kind == b.kind == "bool":
            return a.t == b.t
        if a.kind == b.kind == "opaque" and a.elem == b.elem:
            return a.t == b.t
    if isinstance(a, Sym) and a.kind == "bool" and isinstance(b, bool):
        return a.t == z3.BoolVal(b)
    if isinstance(b, Sym) and b.kind == "bool" and isinstance(a, bool):
        return b.t == z3.BoolVal(a)
    if isinstance(a, (bool, EnumVal, ClassRef, BuiltinClass, SymCallable)) or isinstance(b, (bool, EnumVal, ClassRef, BuiltinClass, SymCallable)):
        return a is b
    if isinstance(a, (SObj, list, dict, set)) or isinstance(b, (SObj, list, dict, set)):
        return a is b
    raise OutsideSubset(f"`is` on {a!r} / {b!r}")


def symbolic_key(x):
    """does equality of this dictionary key depend on symbolic content (a symbolic value, or a tuple holding one)?"""
    if isinstance(x, Sym):
        return True
    if isinstance(x, tuple):
        return any(symbolic_key(y) for y in x)
    return False


def dict_find(I, d, k):
    """the key of d that equals k (decided along the path), or None: keys with symbolic content are compared with ==, not by identity"""
    keys = [kk for kk in d.keys()]
    if not symbolic_key(k) and not any(symbolic_key(kk) for kk in keys):
        try:
            return k if k in d else None
        except TypeError:
            raise PyRaise(ExcValue("TypeError", ("unhashable",)))
    conds = [py_eq(I, k, kk) for kk in keys]
    j = I.ctx.choose(conds + [neg(or_any(conds))]) if keys else 0
    return keys[j] if j < len(keys) else None


def contains(I, container, x, node):
    c = sv(I.force(container))
    x = I.force(x)
    if isinstance(c, dict) and (symbolic_key(x) or any(symbolic_key(kk) for kk in c.keys())) and not isinstance(x, Sym):
        return or_any([py_eq(I, x, k) for k in c.keys()])
    if isinstance(c, (list, tuple, set, frozenset)):
        return or_any([py_eq(I, x, y) for y in c])
    if isinstance(c, dict):
        if isinstance(x, Sym):
            return or_any([py_eq(I, x, k) for k in c.keys()])
        try:
            return x in c
        except TypeError:
            raise PyRaise(ExcValue("TypeError", ("unhashable",)))
    if isinstance(c, str) and isinstance(x, str):
        return x in c
    if kind_of(c) == "str":
        if kind_of(x) != "str":
            raise PyRaise(ExcValue("TypeError", ("'in <string>' requires string as left operand",)))
        return z3.Contains(mk_str(c), mk_str(x))
    if isinstance(c, Sym) and c.kind == "seq":
        return z3.Contains(c.t, z3.Unit(unwrap_elem(I, x, c.elem)))
    if isinstance(c, SObj) and isinstance(c.fields.get("__contains__"), NativeFn):       # abstract object with a modelled membership test
        return truth(I, c.fields["__contains__"].fn(I, [x], {}))
    if isinstance(c, SObj) and isinstance(c.cls, ClassInfo):
        m = c.cls.find_method("__contains__")
        if m is not None:
            return truth(I, I.call_function(m, c, [x], {}))
        m = c.cls.find_method("__iter__")
        if m is not None:
            return or_any([py_eq(I, x, y) for y in iterate(I, c, node)])
    if isinstance(c, CharSet):
        if kind_of(x) != "str":
            return False
        return z3.Contains(c.t, mk_str(x))      # x is a single character wherever this model is used (iteration variable of a str)
    if isinstance(c, SymDict):
        return c.has_key(I, x)
    raise OutsideSubset(f"`in` on {c!r} (line {getattr(node, 'lineno', '?')})")


# ----------------------------------------------------------------------------- arithmetic
def binop(I, op, a, b, node):
    a, b = sv(I.force(a)), sv(I.force(b))
    ka, kb = kind_of(a), kind_of(b)
    concrete = not isinstance(a, Sym) and not isinstance(b, Sym)
    if concrete and not isinstance(a, (SObj, list, dict)) and not isinstance(b, (SObj,)):
        try:
            import operator
            fn = {ast.Add: operator.add, ast.Sub: operator.sub, ast.Mult: operator.mul, ast.FloorDiv: operator.floordiv,
                  ast.Mod: operator.mod, ast.Pow: operator.pow, ast.Div: operator.truediv, ast.BitOr: operator.or_,
                  ast.BitAnd: operator.and_, ast.LShift: operator.lshift, ast.RShift: operator.rshift, ast.BitXor: operator.xor}[type(op)]
            if isinstance(a, (int, float, str, bytes, tuple, set, frozenset)) and isinstance(b, (int, float, str, bytes, tuple, set, frozenset)):
                return fn(a, b)
        except ZeroDivisionError:
            raise PyRaise(ExcValue("ZeroDivisionError"))
        except TypeError as e:
            raise PyRaise(ExcValue("TypeError", (str(e),)))
    if isinstance(a, list) and isinstance(b, list) and isinstance(op, ast.Add):
        return a + b
    if isinstance(a, dict) and isinstance(b, dict) and isinstance(op, ast.BitOr):
        return {**a, **b}
    if ka in ("int", "bool") and kb in ("int", "bool"):
        x, y = _as_int(a), _as_int(b)
        if isinstance(op, ast.Add):
            return Sym(x + y, "int")
        if isinstance(op, ast.Sub):
            return Sym(x - y, "int")
        if isinstance(op, ast.Mult):
            return Sym(x * y, "int")
        if isinstance(op, (ast.FloorDiv, ast.Mod)):
            if not I.ctx.branch(y != 0):
                raise PyRaise(ExcValue("ZeroDivisionError"))
            # Python floor semantics; z3 div/mod are Euclidean: equal for positive divisors
            if isinstance(b, int) and b > 0:
                return Sym(x / y if isinstance(op, ast.FloorDiv) else x % y, "int")
            q = z3.If(y > 0, x / y, -((-x) / (-y)) if False else z3.If(x % y == 0, x / y, x / y - 1) if False else x / y)
            fl = z3.If(y > 0, x / y, (-x) / (-y))
            if isinstance(op, ast.FloorDiv):
                return Sym(fl, "int")
            return Sym(x - y * fl, "int")
        if isinstance(op, ast.Pow) and isinstance(a, int) and a == 2:
            raise OutsideSubset("2**symbolic: split on the exponent in the contract")
    if ka == "str" and kb == "str" and isinstance(op, ast.Add):
        return Sym(z3.Concat(mk_str(a), mk_str(b)), "str")
    if ka == "bytes" and kb == "bytes" and isinstance(op, ast.Add):
        x, y = mk_bytes(a, I), mk_bytes(b, I)
        r = bcat(x, y)
        I.ctx.assume(blen(r) == blen(x) + blen(y))
        return Sym(r, "bytes")
    if isinstance(op, ast.Mult) and ((ka in ("str", "bytes") and kb == "int") or (kb in ("str", "bytes") and ka == "int")):
        raise OutsideSubset("symbolic sequence repetition")
    if isinstance(op, ast.Mod) and ka == "str":
        raise OutsideSubset("% string formatting")
    if ka == "seq" and kb == "seq" and isinstance(op, ast.Add) and a.elem == b.elem:
        return SList(Sym(z3.Concat(a.t, b.t), "seq", a.elem))
    if (ka == "seq" and isinstance(b, list) or kb == "seq" and isinstance(a, list)) and isinstance(op, ast.Add):
        elem = a.elem if ka == "seq" else b.elem
        x = a.t if ka == "seq" else list_to_seq(I, a, elem)
        y = b.t if kb == "seq" else list_to_seq(I, b, elem)
        return SList(Sym(z3.Concat(x, y), "seq", elem))
    # operator overloading on repository objects
    names = {ast.Add: ("__add__", "__radd__"), ast.Sub: ("__sub__", "__rsub__"), ast.Mult: ("__mul__", "__rmul__"),
             ast.BitOr: ("__or__", "__ror__"), ast.BitAnd: ("__and__", "__rand__"), ast.Mod: ("__mod__", "__rmod__")}.get(type(op))
    if names:
        if isinstance(a, SObj) and isinstance(a.fields.get(names[0]), NativeFn):        # abstract object with a modelled operator
            return a.fields[names[0]].fn(I, [b], {})
        if isinstance(b, SObj) and isinstance(b.fields.get(names[1]), NativeFn):
            return b.fields[names[1]].fn(I, [a], {})
        if isinstance(a, SObj) and isinstance(a.cls, ClassInfo):
            m = a.cls.find_method(names[0])
            if m is not None:
                r = I.call_function(m, a, [b], {})
                if not (isinstance(r, NotImplementedVal)):
                    return r
        if isinstance(b, SObj) and isinstance(b.cls, ClassInfo):
            m = b.cls.find_method(names[1])
            if m is not None:
                return I.call_function(m, b, [a], {})
        if isinstance(a, Sym) and a.kind == "opaque" or isinstance(b, Sym) and b.kind == "opaque":
            h = I.E.opaque_binops.get((type(op).__name__, a.elem if isinstance(a, Sym) else None, b.elem if isinstance(b, Sym) else None)) if hasattr(I.E, "opaque_binops") else None
            if h:
                return h(I, a, b)
    if a is None or b is None or (ka and kb and ka != kb):
        raise PyRaise(ExcValue("TypeError", (f"unsupported operand types for {type(op).__name__}",)))
    raise OutsideSubset(f"binary {type(op).__name__} on {a!r} and {b!r} (line {getattr(node, 'lineno', '?')})")


class NotImplementedVal:
    pass


# ----------------------------------------------------------------------------- sequences
def length(I, v, node=None):
    v = sv(I.force(v))
    if isinstance(v, (set, frozenset)) and any(isinstance(x, Sym) for x in v):
        raise OutsideSubset("len() of a set with symbolic members")
    if isinstance(v, (str, bytes, list, tuple, dict, set, frozenset)):
        return len(v)
    if isinstance(v, Sym) and v.kind in ("str", "seq"):
        return Sym(z3.Length(v.t), "int")
    if isinstance(v, Sym) and v.kind == "bytes":
        I.ctx.assume(blen(v.t) >= 0)
        return Sym(blen(v.t), "int")
    if isinstance(v, SObj) and isinstance(v.cls, ClassInfo):
        m = v.cls.find_method("__len__")
        if m is not None:
            return I.call_function(m, v, [], {})
    if isinstance(v, SymDict):
        return v.length(I)
    raise PyRaise(ExcValue("TypeError", (f"object of type {type_name(v)} has no len()",)))


def norm_index(I, k, n_term, n_conc=None):
    """Python index normalisation for a symbolic index; raises IndexError on the out-of-range branch."""
    kt = _as_int(k)
    inb = z3.And(kt >= -n_term, kt < n_term)
    if not I.ctx.branch(inb):
        raise PyRaise(ExcValue("IndexError", ("index out of range",)))
    return z3.If(kt < 0, kt + n_term, kt)


def getitem(I, o, k, node):
    o = sv(I.force(o))
    k = I.force(k)
    if isinstance(o, (list, tuple, str, bytes)):
        if isinstance(k, bool) or isinstance(k, int):
            try:
                r = o[k]
            except IndexError:
                raise PyRaise(ExcValue("IndexError", ("index out of range",)))
            return r
        if isinstance(k, Sym) and k.kind in ("int", "bool"):
            if isinstance(o, (str, bytes)) or len(o) == 0:
                if len(o) == 0:
                    raise PyRaise(ExcValue("IndexError", ("index out of range",)))
                if isinstance(o, str):
                    return getitem(I, Sym(z3.StringVal(o), "str"), k, node)
                raise OutsideSubset("symbolic index into concrete bytes")
            idx = norm_index(I, k, z3.IntVal(len(o)))
            # n-way branch on the index value (concrete container, symbolic index)
            j = I.ctx.choose([idx == i for i in range(len(o))])
            return o[j]
        raise PyRaise(ExcValue("TypeError", ("indices must be integers",)))
    if isinstance(o, dict) and isinstance(k, tuple) and (symbolic_key(k) or any(symbolic_key(x) for x in o.keys())):
        hit = dict_find(I, o, k)
        if hit is not None:
            return o[hit]
        if getattr(o, "factory", None) is not None:
            v = I.call(o.factory, [], {})
            o[k] = v
            return v
        raise PyRaise(ExcValue("KeyError", (k,)))
    if isinstance(o, dict):
        if isinstance(k, Sym):
            keys = list(o.keys())
            conds = [py_eq(I, k, kk) for kk in keys]
            miss = neg(or_any(conds))
            alts = [c for c in conds] + [miss]
            j = I.ctx.choose(alts)
            if j == len(keys):
                if getattr(o, "factory", None) is not None:       # defaultdict: a missing key gets the factory's value
                    v = I.call(o.factory, [], {})
                    o[k] = v
                    return v
                raise PyRaise(ExcValue("KeyError", (k,)))
            return o[keys[j]]
        try:
            if k in o:
                return o[k]
        except TypeError:
            raise PyRaise(ExcValue("TypeError", ("unhashable",)))
        if getattr(o, "factory", None) is not None:
            v = I.call(o.factory, [], {})
            o[k] = v
            return v
        raise PyRaise(ExcValue("KeyError", (k,)))
    if isinstance(o, Sym) and o.kind == "str":
        if kind_of(k) not in ("int", "bool"):
            raise PyRaise(ExcValue("TypeError", ("string indices must be integers",)))
        idx = norm_index(I, k, z3.Length(o.t))
        return Sym(z3.SubString(o.t, idx, 1), "str")
    if isinstance(o, Sym) and o.kind == "seq":
        if kind_of(k) not in ("int", "bool"):
            raise PyRaise(ExcValue("TypeError", ("indices must be integers",)))
        idx = norm_index(I, k, z3.Length(o.t))
        return wrap_elem(o.t[idx], o.elem)
    if isinstance(o, Sym) and o.kind == "bytes":
        raise OutsideSubset("indexing abstract bytes")
    if isinstance(o, SObj) and isinstance(o.fields.get("__getitem__"), NativeFn):      # abstract object with a modelled __getitem__
        return o.fields["__getitem__"].fn(I, [k], {})
    if isinstance(o, SObj) and isinstance(o.cls, ClassInfo):
        m = o.cls.find_method("__getitem__")
        if m is not None:
            return I.call_function(m, o, [k], {})
    if isinstance(o, SymDict):
        return o.getitem(I, k)
    if isinstance(o, ClassRef) and (o.info.is_subclass_of("Enum") or o.info.is_subclass_of("enum.Enum")):
        members = [n for n, e in o.info.class_attrs.items() if not n.startswith("_") and n not in o.info.methods]
        if kind_of(k) != "str":
            raise PyRaise(ExcValue("KeyError", (k,)))
        conds = [py_eq(I, k, n) for n in members]
        j = I.ctx.choose(conds + [neg(or_any(conds))])
        if j == len(members):
            raise PyRaise(ExcValue("KeyError", (k,)))
        return EnumVal(o.info.find_class_attr(members[j])[0], members[j])
    if isinstance(o, SObj) and isinstance(o.cls, str) and o.cls in getattr(I.E, "external_getitem", {}):
        return I.E.external_getitem[o.cls](I, [o, k], {})
    if isinstance(o, SObj) and o.ghost.get("closed"):
        raise PyRaise(ExcValue("TypeError", (f"'{o.cls}' object is not subscriptable",)))
    if isinstance(o, SObj) and o.cls == "re.Match":
        if isinstance(k, int) and k in o.ghost["groups"]:
            return o.ghost["groups"][k]
        raise OutsideSubset("re.Match group")
    if o is None:
        raise PyRaise(ExcValue("TypeError", ("'NoneType' object is not subscriptable",)))
    if isinstance(o, (int, float, bool)) or (isinstance(o, Sym) and o.kind in ("int", "bool")):
        raise PyRaise(ExcValue("TypeError", ("object is not subscriptable",)))
    raise OutsideSubset(f"subscript of {o!r} (line {getattr(node, 'lineno', '?')})")


def slice_bounds(I, lo, hi, n):
    """Python slice normalisation (step 1) as z3 terms: returns (start, stop) with 0 <= start, stop <= n."""
    def norm(v, default):
        if v is None:
            return default
        t = _as_int(v)
        return z3.If(t < 0, z3.If(t + n < 0, z3.IntVal(0), t + n), z3.If(t > n, n, t))
    start = norm(lo, z3.IntVal(0))
    stop = norm(hi, n)
    return start, stop


def getslice(I, o, lo, hi, step, node):
    o = sv(I.force(o))
    lo, hi, step = I.force(lo), I.force(hi), I.force(step)
    if step is not None and step != 1:
        if isinstance(o, (list, tuple, str, bytes)) and all(x is None or isinstance(x, int) for x in (lo, hi, step)):
            return o[lo:hi:step]
        raise OutsideSubset("slice step")
    for x in (lo, hi):
        if x is not None and kind_of(x) not in ("int", "bool"):
            raise PyRaise(ExcValue("TypeError", ("slice indices must be integers or None",)))
    if isinstance(o, (list, tuple, str, bytes)) and not isinstance(lo, Sym) and not isinstance(hi, Sym):
        return o[lo:hi]
    if isinstance(o, str):
        o = Sym(z3.StringVal(o), "str")
    if isinstance(o, bytes):
        o = Sym(mk_bytes(o, I), "bytes")
    if isinstance(o, Sym) and o.kind == "bytes":
        n = blen(o.t)
        I.ctx.assume(n >= 0)
        start, stop = slice_bounds(I, lo, hi, n)
        start, stop = z3.simplify(start), z3.simplify(stop)
        r = bslice(o.t, start, stop)
        I.ctx.assume(blen(r) == z3.If(stop > start, stop - start, z3.IntVal(0)))
        return Sym(r, "bytes")
    if isinstance(o, Sym) and o.kind in ("str", "seq"):
        n = z3.Length(o.t)
        start, stop = slice_bounds(I, lo, hi, n)
        ln = z3.If(stop > start, stop - start, z3.IntVal(0))
        t = z3.SubString(o.t, start, ln) if o.kind == "str" else z3.Extract(o.t, start, ln)
        return Sym(z3.simplify(t), o.kind, o.elem)
    if isinstance(o, (list, tuple)):
        # concrete spine, symbolic bounds: decide the normalised bounds along the path
        n = len(o)
        start, stop = slice_bounds(I, lo, hi, z3.IntVal(n))
        a = I.ctx.choose([start == i for i in range(n + 1)])
        b = I.ctx.choose([stop == i for i in range(n + 1)])
        return o[a:b]
    if isinstance(o, SObj) and isinstance(o.fields.get("__getitem__"), NativeFn):      # abstract object with a modelled __getitem__
        return o.fields["__getitem__"].fn(I, [SliceVal(lo, hi, step)], {})
    if isinstance(o, SObj) and isinstance(o.cls, ClassInfo):
        m = o.cls.find_method("__getitem__")
        if m is not None:
            return I.call_function(m, o, [SliceVal(lo, hi, step)], {})
    raise OutsideSubset(f"slice of {o!r} (line {getattr(node, 'lineno', '?')})")


class SliceVal:
    def __init__(self, start, stop, step):
        self.start, self.stop, self.step = start, stop, step


def setitem(I, o, k, v, node):
    k = I.force(k)
    if isinstance(o, list):
        if isinstance(k, int):
            try:
                o[k] = v
            except IndexError:
                raise PyRaise(ExcValue("IndexError", ("assignment index out of range",)))
            return
        if isinstance(k, Sym) and k.kind == "int":
            idx = norm_index(I, k, z3.IntVal(len(o)))
            j = I.ctx.choose([idx == i for i in range(len(o))])
            o[j] = v
            return
    if isinstance(o, SList):
        if kind_of(k) not in ("int", "bool"):
            raise PyRaise(ExcValue("TypeError", ("list indices must be integers",)))
        st = o.sym.t
        n = z3.Length(st)
        idx = norm_index(I, k, n)
        x = unwrap_elem(I, v, o.sym.elem)
        if isinstance(k, int) and k == -1:        # last element (n >= 1 on this path): no suffix
            o.sym = Sym(z3.Concat(z3.Extract(st, z3.IntVal(0), n - 1), z3.Unit(x)), "seq", o.sym.elem)
        else:
            o.sym = Sym(z3.Concat(z3.Extract(st, z3.IntVal(0), idx), z3.Unit(x), z3.Extract(st, idx + 1, n - idx - 1)), "seq", o.sym.elem)
        return
    if isinstance(o, dict):
        kk = dict_key(I, k, node)
        if symbolic_key(kk) or any(symbolic_key(x) for x in o.keys()):      # an equal key (decided along the path) is overwritten, not added again
            hit = dict_find(I, o, kk)
            if hit is not None:
                kk = hit
        o[kk] = v
        return
    if isinstance(o, SymDict):
        return o.setitem(I, k, v)
    if isinstance(o, SObj) and isinstance(o.cls, ClassInfo):
        m = o.cls.find_method("__setitem__")
        if m is not None:
            I.call_function(m, o, [k, v], {})
            return
    raise OutsideSubset(f"item assignment on {o!r} (line {getattr(node, 'lineno', '?')})")


def delitem(I, o, k, node):
    k = I.force(k)
    if isinstance(o, dict):
        if isinstance(k, Sym):
            raise OutsideSubset("del d[symbolic]")
        if k not in o:
            raise PyRaise(ExcValue("KeyError", (k,)))
        del o[k]
        return
    if isinstance(o, list) and isinstance(k, int):
        try:
            del o[k]
        except IndexError:
            raise PyRaise(ExcValue("IndexError", ()))
        return
    if isinstance(o, SymDict):
        return o.delitem(I, k)
    raise OutsideSubset(f"del on {o!r}")


def dict_key(I, k, node):
    k = I.force(k)
    if isinstance(k, (list, dict, set)):
        raise PyRaise(ExcValue("TypeError", ("unhashable type",)))
    return k        # a symbolic key is kept by identity; lookups compare with == (path decisions)


def make_set(I, items, node):
    out = []
    for x in items:
        x = I.force(x)
        out.append(x)       # symbolic members are kept by identity: membership is decided by ==, len() of such a set is refused
    return set(out)


def iterate(I, v, node, comp=None):
    """concrete list of the items of v (v must have a concrete spine)"""
    v = sv(I.force(v))
    if isinstance(v, (list, tuple)):
        return list(v)
    if isinstance(v, (str,)):
        return list(v)
    if isinstance(v, bytes):
        return list(v)
    if isinstance(v, dict):
        return list(v.keys())
    if isinstance(v, (set, frozenset)):
        return sorted(v, key=repr) if all(isinstance(x, (str, int)) for x in v) else list(v)
    if isinstance(v, range):
        return list(v)
    if isinstance(v, SObj) and isinstance(v.cls, ClassInfo):
        m = v.cls.find_method("__iter__")
        if m is not None:
            return iterate(I, I.call_function(m, v, [], {}), node)
    if isinstance(v, ClassRef) and (v.info.is_subclass_of("Enum") or v.info.is_subclass_of("enum.Enum")):
        members = [n for n, e in v.info.class_attrs.items() if not n.startswith("_") and n not in v.info.methods]      # definition order
        return [EnumVal(v.info.find_class_attr(n)[0], n) for n in members]
    if isinstance(v, Sym) and v.kind in ("seq", "str", "bytes"):
        raise OutsideSubset(f"iteration over a sequence of symbolic length needs a loop invariant (line {getattr(node, 'lineno', '?')})")
    if v is None or isinstance(v, (int, float, bool)) or (isinstance(v, Sym) and v.kind in ("int", "bool")):
        raise PyRaise(ExcValue("TypeError", (f"'{type_name(v)}' object is not iterable",)))
    raise OutsideSubset(f"iteration over {v!r} (line {getattr(node, 'lineno', '?')})")


def symbolic_comprehension(I, e, env, module, cls):
    """[f(x) for x in <symbolic seq>] with a single generator, no conditions: a canonical uninterpreted map term."""
    if len(e.generators) != 1 or e.generators[0].ifs or not isinstance(e.generators[0].target, ast.Name):
        return None
    it = I.eval(e.generators[0].iter, env, module, cls)
    it_f = sv(I.force(it))
    if isinstance(it_f, Sym) and it_f.kind == "str" and isinstance(e.elt, ast.Compare) and len(e.elt.ops) == 1 and isinstance(e.elt.ops[0], ast.In) \
            and isinstance(e.elt.left, ast.Name) and e.elt.left.id == e.generators[0].target.id:
        cs = I.force(I.eval(e.elt.comparators[0], env, module, cls))
        if isinstance(cs, CharSet):
            return IntersectsGen(it_f.t, cs.t)
    if not (isinstance(it_f, Sym) and it_f.kind == "seq"):
        return None
    var = e.generators[0].target.id
    if isinstance(it_f.elem, tuple) and it_f.elem[0] == "adt" and isinstance(e.elt, ast.Call) and isinstance(e.elt.func, ast.Name) and e.elt.func.id == "isinstance" \
            and isinstance(e.elt.args[0], ast.Name) and e.elt.args[0].id == var:
        # (isinstance(x, C) for x in <sequence of ADT elements>): decided per constructor; consumable by any()
        cls_v = I.eval(e.elt.args[1], env, module, cls)
        sort, wrap, _ = ADTS[it_f.elem[1]]
        probe = z3.Const("probe!", sort)
        hits = []
        for cond, val in wrap(probe).alts:
            r = isinstance_(I, val, cls_v)
            if not isinstance(r, bool):
                raise OutsideSubset("isinstance over ADT elements is not decided per constructor")
            if r:
                hits.append(cond)
        return CtorGen(it_f.t, probe, hits)
    elt = e.elt
    # supported body: x.method(args...) with args not mentioning x, method declared for the opaque element sort
    if isinstance(elt, ast.Call) and isinstance(elt.func, ast.Attribute) and isinstance(elt.func.value, ast.Name) and elt.func.value.id == var \
            and not any(isinstance(n, ast.Name) and n.id == var for a in elt.args for n in ast.walk(a)) and not elt.keywords:
        args = [I.eval(a, env, module, cls) for a in elt.args]
        return map_method(I, it_f, elt.func.attr, args)
    raise OutsideSubset(f"comprehension over symbolic sequence with unsupported body (line {e.lineno})")


def map_method(I, seq, method, args):
    """canonical term  map_<sort>.<method>(seq, args...) : Seq(ret)"""
    if not (isinstance(seq.elem, tuple) and seq.elem[0] == "opaque"):
        raise OutsideSubset("map over non-opaque symbolic sequence")
    sortname = seq.elem[1]
    decl = I.E.opaque_methods.get((sortname, method))
    if decl is None:
        raise OutsideSubset(f"method {method} of opaque sort {sortname} not declared")
    argkinds, ret = decl
    arg_terms = [opaque_arg_term(I, a, argkinds[i] if i < len(argkinds) else None) for i, a in enumerate(args)]
    f = z3.Function(f"map!{sortname}.{method}", seq.t.sort(), *[t.sort() for t in arg_terms], z3.SeqSort(elem_sort(ret)))
    r = f(seq.t, *arg_terms)
    I.ctx.assume(z3.Length(r) == z3.Length(seq.t))
    # pointwise definition is instantiated on demand by contracts (see api.map_pointwise)
    return Sym(r, "seq", ret)


_OPTSTR = None


def optstr_sort():
    global _OPTSTR
    if _OPTSTR is None:
        d = z3.Datatype("OptStr")
        d.declare("none")
        d.declare("some", ("v", z3.StringSort()))
        _OPTSTR = d.create()
    return _OPTSTR


def optstr_term(a):
    D = optstr_sort()
    if isinstance(a, SOpt):
        return z3.If(a.is_none, D.none, D.some(mk_str(a.val)))
    if a is None:
        return D.none
    return D.some(mk_str(a))


def opaque_arg_term(I, a, kind=None):
    if kind == "optstr":
        return optstr_term(a)
    a = I.force(a)
    if isinstance(a, Sym):
        return a.t
    if isinstance(a, bool):
        return z3.BoolVal(a)
    if isinstance(a, int):
        return z3.IntVal(a)
    if isinstance(a, str):
        return z3.StringVal(a)
    if a is None:
        return z3.Const("None!", z3.DeclareSort("NoneType"))
    if isinstance(a, SObj) and "term" in a.ghost:
        return a.ghost["term"]
    raise OutsideSubset(f"cannot pass {a!r} to an uninterpreted method")


def call_opaque_method(I, obj, method, args):
    decl = I.E.opaque_methods.get((obj.elem, method))
    if decl is None:
        raise OutsideSubset(f"method {method} of opaque sort {obj.elem} not declared")
    argkinds, ret = decl
    arg_terms = [opaque_arg_term(I, a, argkinds[i] if i < len(argkinds) else None) for i, a in enumerate(args)]
    f = z3.Function(f"{obj.elem}.{method}", obj.t.sort(), *[t.sort() for t in arg_terms], elem_sort(ret))
    return wrap_elem(f(obj.t, *arg_terms), ret)


# ----------------------------------------------------------------------------- attributes
def type_name(v):
    if v is None:
        return "NoneType"
    if isinstance(v, SList):
        return "list"
    if isinstance(v, Sym):
        return {"int": "int", "bool": "bool", "str": "str", "bytes": "bytes", "seq": "list"}.get(v.kind, str(v.elem))
    if isinstance(v, SObj):
        return v.cls.name if isinstance(v.cls, ClassInfo) else str(v.cls)
    return type(v).__name__


def getattr_(I, o, name, node=None):
    from .interp import UNBOUND
    o = I.force(o)
    if isinstance(o, SObj):
        if name in o.fields:
            return o.fields[name]
        if name == "__class__":
            return ClassRef(o.cls) if isinstance(o.cls, ClassInfo) else o.fields.get("__class__", o.cls)
        if name == "__dict__":
            return dict(o.fields)
        if name in ("__getattribute__", "__getattr__") and not (isinstance(o.cls, ClassInfo) and o.cls.find_method(name)):
            def dyn_get(I2, a, k, o=o):
                n = I2.force(a[0])
                if not isinstance(n, str):
                    raise OutsideSubset("__getattribute__ with a symbolic name")
                return getattr_(I2, o, n)
            return NativeFn("__getattribute__", dyn_get)
        if name == "__setattr__" and not (isinstance(o.cls, ClassInfo) and o.cls.find_method(name)):
            def dyn_set(I2, a, k, o=o):
                n = I2.force(a[0])
                if not isinstance(n, str):
                    raise OutsideSubset("__setattr__ with a symbolic name")
                setattr_(I2, o, n, a[1])
            return NativeFn("__setattr__", dyn_set)
        if isinstance(o.cls, ClassInfo) and any(isinstance(b, str) and b.split(".")[-1] == "UserDict" for c in o.cls.mro() if isinstance(c, ClassInfo) for b in c.bases()) \
                and name in ("clear", "items", "keys", "values", "get", "update", "copy") and o.cls.find_method(name) is None:
            # collections.UserDict (assumed stdlib contract): a mapping stored in self.data; these methods act on self.data only
            from .builtins_ import builtin_method
            return builtin_method(I, o.fields.setdefault("data", {}), name)
        if isinstance(o.cls, ClassInfo):
            m = o.cls.find_method(name)
            if m is not None:
                if m.is_property:
                    return I.call_function(m, o, [], {})
                if m.is_staticmethod:
                    return FuncRef(m)
                if m.is_classmethod:
                    return BoundMethod(m, ClassRef(o.cls))
                return BoundMethod(m, o)
            found = o.cls.find_class_attr(name)
            if found is not None and found[0].is_dataclass and isinstance(found[1], ast.Call) and ast.unparse(found[1].func) in ("field", "dataclasses.field"):
                fac = next((kw.value for kw in found[1].keywords if kw.arg == "default_factory"), None)
                if fac is not None:       # a dataclass instance that never assigned the field holds what its constructor put there: factory()
                    from .interp import Env
                    val = I.call(I.eval(fac, Env(), found[0].module, found[0]), [], {})
                    o.fields[name] = val
                    return val
            v = I.class_attr(o.cls, name)
            if v is not UNBOUND:
                return v
            ga = o.cls.find_method("__getattr__")
            if ga is not None:
                return I.call_function(ga, o, [name], {})
            if "BaseException" in I.E.exc_class_chain(o.cls) and name == "args":
                return ()
        if o.ghost.get("closed"):
            raise PyRaise(ExcValue("AttributeError", (f"'{o.cls}' object has no attribute '{name}'",)))
        if not isinstance(o.cls, ClassInfo) and not o.lazy:
            raise OutsideSubset(f"attribute {name} of modelled external object {o.cls} (line {getattr(node, 'lineno', '?')})")
        if o.lazy:
            v = I.fresh(f"{o.cls.name if isinstance(o.cls, ClassInfo) else o.cls}.{name}", "opaque", "Any")
            o.fields[name] = v
            return v
        raise PyRaise(ExcValue("AttributeError", (f"'{type_name(o)}' object has no attribute '{name}'",)))
    if isinstance(o, ClassRef):
        if name == "__name__":
            return o.info.name
        if name == "__dataclass_fields__":
            return {f[0]: None for f in o.info.dataclass_fields()}
        m = o.info.find_method(name)
        if m is not None:
            if m.is_classmethod:
                return BoundMethod(m, o)
            return FuncRef(m)
        v = I.class_attr(o.info, name)
        if v is not UNBOUND:
            return v
        raise PyRaise(ExcValue("AttributeError", (f"type object '{o.info.name}' has no attribute '{name}'",)))
    if isinstance(o, EnumVal):
        if name == "name":
            return o.name
        if name == "value":
            expr = o.ecls.class_attrs[o.name]
            try:
                return ast.literal_eval(expr)
            except Exception:
                raise OutsideSubset("enum value not a literal")
        m = o.ecls.find_method(name)
        if m is not None:
            return BoundMethod(m, o)
    if isinstance(o, ModuleRef):
        m = I.E.index.module(o.name)
        if m is not None:
            r = m.resolve_name(name)
            if r is not None:
                return I.wrap_resolved(r)
        sub = I.E.index.module(o.name + "." + name)
        if sub is not None:
            return ModuleRef(o.name + "." + name)
        if f"{o.name}.{name}" in I.E.external_values:
            return I.E.external_values[f"{o.name}.{name}"]
        return External(f"{o.name}.{name}")
    if isinstance(o, External):
        if f"{o.key}.{name}" in I.E.external_values:
            return I.E.external_values[f"{o.key}.{name}"]
        return External(f"{o.key}.{name}")
    if isinstance(o, Sym) and o.kind == "opaque":
        hk = getattr(I.E, "opaque_attr_hooks", {}).get((o.elem, name))
        if hk is not None:
            return hk(I, o)
        decl = I.E.opaque_methods.get((o.elem, name))
        if decl is not None:
            return NativeFn(f"{o.elem}.{name}", lambda I2, args, kwargs, o=o, name=name: call_opaque_method(I2, o, name, args))
        fdecl = I.E.opaque_fields.get((o.elem, name))
        if fdecl is not None:
            f = z3.Function(f"{o.elem}.{name}", o.t.sort(), elem_sort(fdecl))
            return wrap_elem(f(o.t), fdecl)
        raise OutsideSubset(f"attribute {name} of opaque {o.elem} (line {getattr(node, 'lineno', '?')})")
    if isinstance(o, ExcValue):
        if name == "args":
            return tuple(o.args)
    if name == "__class__":
        from .builtins_ import b_type
        return b_type(I, [o], {})
    from .builtins_ import builtin_method
    bm = builtin_method(I, o, name)
    if bm is not None:
        return bm
    pyt = {"str": str, "int": int, "bool": bool, "bytes": bytes, "seq": list}.get(kind_of(o)) or (type(o) if isinstance(o, (list, dict, tuple, set, frozenset, float)) else list if isinstance(o, SList) else None)
    if pyt is not None and hasattr(pyt, name):
        raise OutsideSubset(f"{pyt.__name__}.{name} is not modelled (line {getattr(node, 'lineno', '?')})")
    raise PyRaise(ExcValue("AttributeError", (f"'{type_name(o)}' object has no attribute '{name}'",)))


def setattr_(I, o, name, v, node=None):
    if isinstance(o, SObj):
        if isinstance(o.cls, ClassInfo):
            setter = o.cls.find_method(name + ".setter")
            if setter is not None:
                I.call_function(setter, o, [v], {})
                return
            if any(d.startswith("dataclass(") and "frozen=True" in d for c in o.cls.mro() if isinstance(c, ClassInfo) for d in c.decorators):
                raise PyRaise(ExcValue("AttributeError", ("cannot assign to field of frozen dataclass",)))
        if I.E.frame_hook is not None:
            I.E.frame_hook(I, o, name, v)
        o.fields[name] = v
        return
    if isinstance(o, ClassRef):
        if I.E.frame_hook is not None:
            I.E.frame_hook(I, o, name, v)
        if not hasattr(I.ctx, "class_attrs"):
            I.ctx.class_attrs = {}
        I.ctx.class_attrs[(o.info.qualname, name)] = v       # class-level state of this path
        return
    if o is None or isinstance(o, (int, str, bool, float, tuple, list, dict, Sym)):
        raise PyRaise(ExcValue("AttributeError", (f"'{type_name(o)}' object has no attribute '{name}'",)))
    raise OutsideSubset(f"attribute assignment on {o!r}")


def isinstance_(I, v, c):
    """z3 Bool or Python bool"""
    c = I.force(c)
    if isinstance(c, tuple):
        return or_any([isinstance_(I, v, x) for x in c])
    if isinstance(v, SOpt):
        inner = isinstance_(I, v.val, c) if not (isinstance(c, BuiltinClass) and c.name == "NoneType") else False
        if isinstance(inner, bool):
            return z3.And(z3.Not(v.is_none), z3.BoolVal(inner)) if inner else (False if not (isinstance(c, BuiltinClass) and c.name == "NoneType") else v.is_none)
        return z3.And(z3.Not(v.is_none), inner)
    if isinstance(v, SUnion):
        return or_any([z3.And(cond, mk_bool(isinstance_(I, x, c))) if not isinstance(isinstance_(I, x, c), bool) else (cond if isinstance_(I, x, c) else False) for cond, x in v.alts])
    if isinstance(c, ClassRef):
        if isinstance(v, SObj) and isinstance(v.cls, ClassInfo):
            return v.cls.is_subclass_of(c.info)
        if isinstance(v, EnumVal):
            return v.ecls.is_subclass_of(c.info)
        if isinstance(v, Sym) and v.kind == "opaque":
            h = I.E.opaque_isinstance.get(v.elem)
            if h is not None:
                return h(I, v, c.info)
            raise OutsideSubset(f"isinstance of opaque {v.elem} against {c.info.name}")
        return False
    if isinstance(c, BuiltinClass):
        n = c.name
        k = kind_of(v)
        if n == "object":
            return True
        if k == "opaque" and v.elem in I.E.opaque_pytype:
            return n == I.E.opaque_pytype[v.elem]
        if n == "str":
            return k == "str"
        if n == "bool":
            return k == "bool"
        if n == "int":
            return k in ("int", "bool")
        if n == "float":
            return isinstance(v, float)
        if n == "bytes":
            return k == "bytes"
        if n == "list":
            return isinstance(v, (list, SList)) or k == "seq"
        if n == "tuple":
            return isinstance(v, tuple)
        if n == "dict":
            return isinstance(v, (dict, SymDict))
        if n in ("set", "frozenset"):
            return isinstance(v, (set, frozenset))
        if n == "NoneType":
            return v is None
        if n in EXC_PARENT:
            if isinstance(v, ExcValue):
                return n in I.E._builtin_chain(v.cname)
            if isinstance(v, SObj):
                return n in I.E.exc_class_chain(v.cls)
            return False
    if isinstance(c, NativeFn) and getattr(c, "isinstance_hook", None) is not None:          # a builtin type a contract replaced by a model of its constructor
        return c.isinstance_hook(I, v)
    if isinstance(c, External):
        h = I.E.external_isinstance.get(c.key)
        if h is not None:
            return h(I, v)
        if c.key in ("typing.Iterable", "collections.abc.Iterable", "typing.Sequence"):
            return isinstance(v, (list, tuple, str, dict, set)) or kind_of(v) in ("str", "seq")
        if c.key in ("typing.Callable", "collections.abc.Callable"):
            return isinstance(v, (Closure, FuncRef, BoundMethod, NativeFn, SymCallable, ClassRef))
    raise OutsideSubset(f"isinstance against {c!r}")


# ----------------------------------------------------------------------------- strings
def to_str(I, x, node=None):
    x = I.force(x)
    if isinstance(x, str):
        return x
    if isinstance(x, Sym) and x.kind == "str":
        return x
    if isinstance(x, bool) or x is None or isinstance(x, (int, float)):
        return str(x)
    if isinstance(x, Sym) and x.kind == "int":
        return Sym(z3.If(x.t >= 0, z3.IntToStr(x.t), z3.Concat(z3.StringVal("-"), z3.IntToStr(-x.t))), "str")
    if isinstance(x, SObj) and "str" in x.ghost:
        return x.ghost["str"]
    if isinstance(x, SObj) and isinstance(x.fields.get("__str__"), NativeFn):       # abstract object with a modelled __str__
        return x.fields["__str__"].fn(I, [], {})
    if isinstance(x, SObj) and "addr" in x.ghost:
        from contracts.c18 import IPStr
        return IPStr(x.ghost["addr"])
    if isinstance(x, SObj) and isinstance(x.cls, ClassInfo):
        m = x.cls.find_method("__str__")
        if m is not None:
            return I.call_function(m, x, [], {})
    if isinstance(x, EnumVal):
        return f"{x.ecls.name}.{x.name}"
    # anything else: an opaque text (exception messages etc.) - content is not modelled
    return I.fresh("strof", "str")


def to_repr(I, x, node=None):
    x = I.force(x)
    if isinstance(x, (int, bool, str)) or x is None:
        return repr(x)
    return I.fresh("reprof", "str")


def concat_strs(I, parts):
    if all(isinstance(p, str) for p in parts):
        return "".join(parts)
    ts = [mk_str(p) for p in parts if not (isinstance(p, str) and p == "")]
    if not ts:
        return ""
    return Sym(z3.Concat(*ts) if len(ts) > 1 else ts[0], "str")


# ----------------------------------------------------------------------------- symbolic dictionaries (YAML maps)
class SymDict:
    """placeholder type; the PyVal-based model lives in pyvc.pyval"""

    def has_key(self, I, k):
        raise OutsideSubset("SymDict")


class CtorGen:
    """(isinstance(x, C) for x in seq): hits = conditions (over `probe`) of the constructors that are instances of C"""

    def __init__(self, seq, probe, hits):
        self.seq, self.probe, self.hits = seq, probe, hits

    def any_term(self):
        out = []
        for h in self.hits:
            # nullary constructors appear as `probe == K`: membership of the constant
            if z3.is_eq(h) and (z3.eq(h.arg(0), self.probe) or z3.eq(h.arg(1), self.probe)):
                k = h.arg(1) if z3.eq(h.arg(0), self.probe) else h.arg(0)
                out.append(z3.Contains(self.seq, z3.Unit(k)))
            else:
                raise OutsideSubset("any(isinstance(..)) over a constructor with fields")
        return mk_or(out)


def intersects(s, chars):
    """some character of s occurs in chars (uninterpreted; defining equations supplied as hints)"""
    return z3.Function("str.intersects", z3.StringSort(), z3.StringSort(), z3.BoolSort())(s, chars)


def dict_sort():
    return z3.DeclareSort("Dict")


def dict_merge(a, b):
    """{**a, **b}: right-biased merge of abstract mappings"""
    return z3.Function("dict.merge", dict_sort(), dict_sort(), dict_sort())(a, b)


class CtxHandle:
    def __init__(self, value, exit_fn):
        self.value, self._exit = value, exit_fn

    def exit(self, I, exceptional):
        self._exit(I, exceptional)


def enter_context(I, cm, node):
    cm = I.force(cm)
    h = getattr(cm, "as_context", None)
    if h is not None:
        return h(I)
    raise OutsideSubset(f"with on {cm!r}")
