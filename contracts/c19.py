"""C19 - validation only observes: it is exact about references and changes nothing."""
from __future__ import annotations
import ast, os, z3
from pyvc.api import *
from pyvc.values import *
from pyvc import ops

VC = "sigma.validators.core.condition"
COND = "sigma.conditions"


def ident(I, name):
    o = SObj(I.E.index.lookup(f"{COND}:ConditionIdentifier"), {"args": [name], "identifier": name}, lazy=True)
    return o


def selector(I, pattern, resolved):
    o = SObj(I.E.index.lookup(f"{COND}:ConditionSelector"), {"args": ["1", pattern], "pattern": pattern}, lazy=True)
    o.ghost["resolved"] = resolved
    return o


def item(I, cls, kids):
    return SObj(I.E.index.lookup(f"{COND}:{cls}"), {"args": kids}, lazy=True)


def install_resolve(E):
    # resolve_referenced_detections has its own contract (C02): here it returns the identifiers fixed by the case
    E.summaries[f"{COND}:ConditionSelector.resolve_referenced_detections"] = lambda I, so, a, k: [ident(I, n) for n in so.ghost["resolved"]]


def tree_cases(I):
    """condition trees with symbolic names: (tree, referenced names (selector results included), selectors)"""
    n = [I.fresh(f"n{i}", "str") for i in range(5)]
    return {
        "identifier": lambda: (ident(I, n[0]), [n[0]], []),
        "selector": lambda: (selector(I, I.fresh("pat", "str"), [n[1], n[2]]), [n[1], n[2]], [("hit",)]),
        "selector_them": lambda: (selector(I, "them", [n[1]]), [n[1]], [("hit",)]),
        "selector_empty": lambda: (selector(I, I.fresh("pat", "str"), []), [], [("miss",)]),
        "nested": lambda: (item(I, "ConditionAND", [ident(I, n[0]), item(I, "ConditionNOT", [selector(I, I.fresh("pat", "str"), [n[3]])]), item(I, "ConditionOR", [ident(I, n[4]), None])]), [n[0], n[3], n[4]], [("hit",)]),
        "none": lambda: (None, [], []),
    }


def same_members(s, expected):
    """set s (members are the symbolic name objects) has exactly the expected members"""
    return isinstance(s, (set, frozenset)) and len(s) == len({id(x) for x in expected}) and all(any(m is x for x in expected) for m in s)


@register
class ConditionReferencedIds(Contract):
    """the identifiers a condition refers to: the identifier itself, exactly what a selector resolves to (same resolution as the converter uses),
    recursively through and / or / not"""
    id = "C19.DanglingDetectionValidator.condition_referenced_ids"
    target = f"{VC}:DanglingDetectionValidator.condition_referenced_ids"
    props = ("C19",)
    cases = ("identifier", "selector", "selector_them", "selector_empty", "nested", "none")
    assumed = ["ConditionSelector.resolve_referenced_detections contract (C02) - the same function the converter uses", "tree shapes: one representative per node kind plus a nested tree"]

    def setup(self, E):
        install_resolve(E)

    def args(self, I, case):
        tree, refs, sels = tree_cases(I)[case]()
        me = SObj(I.E.index.lookup(f"{VC}:DanglingDetectionValidator"), {}, lazy=True)
        return {"self": me, "args": [tree, I.fresh("detections", "opaque", "Detections")], "refs": refs}

    def post(self, I, inp, r):
        I.ctx.require(same_members(r, inp["refs"]), "referenced == identifiers named directly or resolved by a selector, nothing else")

    def frame_ok(self, I, inp, obj, name):
        return False


@register
class DanglingDetectionValidate(Contract):
    """a detection is reported as unused iff no condition refers to it"""
    id = "C19.DanglingDetectionValidator.validate"
    target = f"{VC}:DanglingDetectionValidator.validate"
    props = ("C19",)
    cases = ("rule", "correlation")

    def setup(self, E):
        install_resolve(E)
        from pyvc.interp import UNBOUND

        def hook(I, cinfo, args, kwargs):
            if cinfo.name.endswith("Issue"):
                o = SObj(cinfo, {}, lazy=True)
                o.ghost["args"] = list(args)
                o.born = I.ctx
                return o
            return UNBOUND
        E.instantiate_hook = hook

    def args(self, I, case):
        idx = I.E.index
        names = ["a", "b", "c", "_d"]
        conds = []
        for tree in (item(I, "ConditionAND", [ident(I, "a"), selector(I, "x*", ["c"])]), selector(I, "them", ["a", "b", "c"])[0:0] if False else ident(I, "a")):
            c = SObj("SigmaCondition", {"parse": NativeFn("parse", lambda I2, a, k, tree=tree: tree if (a and a[0] is False) else (_ for _ in ()).throw(OutsideSubset("validator must call parse(False): postprocessing rewrites the tree")))})
            conds.append(c)
        det = SObj("Detections", {"detections": {n: SObj("Detection", {}) for n in names}, "parsed_condition": conds})
        rule = SObj(idx.lookup("sigma.rule.rule:SigmaRule") if case == "rule" else idx.lookup("sigma.correlations:SigmaCorrelationRule"), {"detection": det}, lazy=True)
        me = SObj(idx.lookup(f"{VC}:DanglingDetectionValidator"), {}, lazy=True)
        return {"self": me, "args": [rule], "rule": rule, "case": case}

    def post(self, I, inp, r):
        if inp["case"] == "correlation":
            I.ctx.require(r == [], "correlation rules have no detections")
            return
        got = sorted(x.ghost["args"][1] for x in r) if isinstance(r, list) else None
        I.ctx.require(got == ["_d", "b"], f"reported == defined names minus referenced names (got {got})")
        I.ctx.require(all(x.ghost["args"][0] == [inp["rule"]] for x in r), "issues name this rule")

    def frame_ok(self, I, inp, obj, name):
        return obj is inp["self"]


@register
class UnknownReferencedIds(Contract):
    """a selector is reported as dangling iff it resolves to no detection"""
    id = "C19.DanglingConditionValidator.condition_unknown_referenced_ids"
    target = f"{VC}:DanglingConditionValidator.condition_unknown_referenced_ids"
    props = ("C19",)
    cases = ("identifier", "selector", "selector_empty", "nested", "none")

    def setup(self, E):
        install_resolve(E)

    def args(self, I, case):
        tree, refs, sels = tree_cases(I)[case]()
        me = SObj(I.E.index.lookup(f"{VC}:DanglingConditionValidator"), {}, lazy=True)
        return {"self": me, "args": [tree, I.fresh("detections", "opaque", "Detections")], "tree": tree, "case": case}

    def post(self, I, inp, r):
        if inp["case"] == "selector_empty":
            I.ctx.require(isinstance(r, set) and len(r) == 1 and list(r)[0] is inp["tree"].fields["pattern"], "a selector that resolves to nothing is reported with its pattern")
        else:
            I.ctx.require(isinstance(r, set) and len(r) == 0, "selectors that resolve to something, identifiers and empty trees are not reported")

    def frame_ok(self, I, inp, obj, name):
        return False


@register
class ValidateRuleExclusions(Contract):
    """a validator runs on a rule iff its class is not excluded for that rule's id; issues are concatenated in validator order"""
    id = "C19.SigmaValidator.validate_rule"
    target = "sigma.validation:SigmaValidator.validate_rule"
    props = ("C19",)
    cases = tuple((ex, has_id) for ex in ((), ("A",), ("B",), ("A", "B")) for has_id in (True, False))
    assumed = ["the exclusion table is a defaultdict(set) keyed by rule id; rules without id are looked up under None (as written by exclusions with a null key)"]

    def args(self, I, case):
        from pyvc.builtins_ import SDefaultDict
        ex, has_id = case
        idx = I.E.index
        ran = []
        A = SObj("ValidatorA", {"__class__": "A", "validate": NativeFn("validate", lambda I2, a, k: (ran.append("A"), ["issueA"])[1])})
        B = SObj("ValidatorB", {"__class__": "B", "validate": NativeFn("validate", lambda I2, a, k: (ran.append("B"), ["issueB1", "issueB2"])[1])})
        rid = I.fresh("rule_id", "opaque", "UUID") if has_id else None
        rule = SObj(idx.lookup("sigma.rule.rule:SigmaRule"), {"id": rid}, lazy=True)
        excl = SDefaultDict()
        excl.factory = NativeFn("set", lambda I2, a, k: set())
        other = I.fresh("other_rule_id", "opaque", "UUID")
        if rid is not None:
            I.ctx.assume(rid.t != other.t)
        excl[other] = {"A", "B"}          # exclusions of another rule never apply
        if ex:
            excl[rid] = set(ex)
        me = SObj(idx.lookup("sigma.validation:SigmaValidator"), {"validators": [A, B], "exclusions": excl}, lazy=True)
        return {"self": me, "args": [rule], "ran": ran, "case": ex}

    def post(self, I, inp, r):
        want_ran = [x for x in ("A", "B") if x not in inp["case"]]
        want = [i for x in want_ran for i in {"A": ["issueA"], "B": ["issueB1", "issueB2"]}[x]]
        I.ctx.require(inp["ran"] == want_ran and r == want, "exactly the non-excluded validators run, issues in validator order")

    def frame_ok(self, I, inp, obj, name):
        return False


# ----------------------------------------------------------------------------------------------- purity of every validator (frame analysis)
MUTATORS = {"append", "extend", "insert", "remove", "pop", "clear", "update", "add", "discard", "setdefault", "sort", "reverse", "postprocess", "apply", "apply_modifiers",
            "disable_conversion_to_plain", "add_applied_processing_item", "set_conversion_result", "set_conversion_states", "disable_output", "resolve_rule_references", "__setitem__", "__delitem__"}


@register
class ValidatorPurity(Inventory):
    """FRAME: no validate / finalize method of a core validator writes an attribute of (or calls a mutating method on) the rule or anything
    derived from it; condition trees are only obtained with parse(False) (a private copy, C15)"""
    id = "C19.inventory.validator_purity"
    props = ("C19",)

    def run(self, index):
        root = os.path.join(index.repo, "sigma", "validators")
        n_methods, mism, sites = 0, [], []
        for dp, dn, fn in os.walk(root):
            for f in sorted(fn):
                if not f.endswith(".py"):
                    continue
                path = os.path.join(dp, f)
                rel = os.path.relpath(path, index.repo)
                tree = ast.parse(open(path).read())
                for cls in [n for n in ast.walk(tree) if isinstance(n, ast.ClassDef)]:
                    for fnode in [n for n in cls.body if isinstance(n, ast.FunctionDef) and (n.name.startswith("validate") or n.name == "finalize" or n.name.startswith("condition_"))]:
                        n_methods += 1
                        params = [a.arg for a in fnode.args.args if a.arg != "self"]
                        tainted = set(params)
                        changed = True
                        while changed:
                            changed = False
                            for n in ast.walk(fnode):
                                tgt = None
                                if isinstance(n, ast.Assign):
                                    tgt, val = n.targets, n.value
                                elif isinstance(n, (ast.For, ast.comprehension)):
                                    tgt, val = [n.target], n.iter
                                elif isinstance(n, ast.NamedExpr):
                                    tgt, val = [n.target], n.value
                                if tgt is None:
                                    continue
                                if any(isinstance(x, ast.Name) and x.id in tainted for x in ast.walk(val)):
                                    for t in tgt:
                                        for x in ast.walk(t):
                                            if isinstance(x, ast.Name) and x.id not in tainted:
                                                tainted.add(x.id)
                                                changed = True
                        for n in ast.walk(fnode):
                            if isinstance(n, (ast.Assign, ast.AugAssign, ast.AnnAssign)):
                                for t in (n.targets if isinstance(n, ast.Assign) else [n.target]):
                                    if isinstance(t, (ast.Attribute, ast.Subscript)):
                                        base = t
                                        while isinstance(base, (ast.Attribute, ast.Subscript)):
                                            base = base.value
                                        if isinstance(base, ast.Name) and base.id in tainted and base.id != "self":
                                            mism.append(f"{rel}:{cls.name}.{fnode.name} line {n.lineno}: writes {ast.unparse(t)} (reachable from the rule)")
                            if isinstance(n, ast.Call) and isinstance(n.func, ast.Attribute):
                                base = n.func.value
                                while isinstance(base, (ast.Attribute, ast.Subscript, ast.Call)):
                                    base = base.func if isinstance(base, ast.Call) else base.value
                                if isinstance(base, ast.Name) and base.id in tainted and base.id != "self":
                                    sites.append(n.func.attr)
                                    if n.func.attr in MUTATORS:
                                        # local accumulators (sets / lists created in the method) are fine: they are not tainted unless assigned from the rule
                                        mism.append(f"{rel}:{cls.name}.{fnode.name} line {n.lineno}: calls mutating method {ast.unparse(n.func)} on a value derived from the rule")
                                    if n.func.attr == "parse" and not (n.args and isinstance(n.args[0], ast.Constant) and n.args[0].value is False):
                                        mism.append(f"{rel}:{cls.name}.{fnode.name} line {n.lineno}: condition.parse() without postprocess=False rewrites / resolves the tree")
        return {"n_sites": n_methods, "methods_scanned": n_methods, "calls_on_rule_derived_values": sorted(set(sites)), "mismatches": mism}


@register
class SpecificLogsourceValidatorState(Contract):
    """SpecificInsteadOfGenericLogsourceValidator.validate: whatever rule was validated before (the validator object is reused for every
    rule and keeps the table of the last mapped log source), a rule whose log source is in no table yields no issue, and a rule whose log
    source is mapped is checked against ITS table"""
    id = "C19.SpecificInsteadOfGenericLogsourceValidator.validate"
    target = "sigma.validators.core.logsources:SpecificInsteadOfGenericLogsourceValidator.validate"
    props = ("C19",)
    cases = ("sysmon", "security", "unmapped", "correlation")
    assumed = ["SigmaDetectionValidator.validate (the walk over the detections and their items) is abstract: it reports with the table the object holds when it is called",
               "state left by an earlier rule: the security table (for a sysmon / unmapped rule) or the sysmon table"]

    def setup(self, E):
        def s_walk(I, so, a, k):
            so.ghost["walked_with"] = (so.fields.get("logsource"), so.fields.get("eventid_mappings"))
            return [SObj("Issue", {})]
        E.summaries["sigma.validators.base:SigmaDetectionValidator.validate"] = s_walk

    def args(self, I, case):
        idx = I.E.index
        L = idx.lookup("sigma.rule.logsource:SigmaLogSource")
        mk = lambda c, p, s: SObj(L, {"category": c, "product": p, "service": s, "definition": None, "source": None, "custom_attributes": None})
        ls = {"sysmon": mk(None, "windows", "sysmon"), "security": mk("process_creation", "windows", "security"), "unmapped": mk(None, "windows", "system"), "correlation": None}[case]
        rule = SObj(idx.lookup("sigma.correlations:SigmaCorrelationRule"), {}, lazy=True) if case == "correlation" else SObj(idx.lookup("sigma.rule.rule:SigmaRule"), {"logsource": ls}, lazy=True)
        stale_ls = mk(None, "windows", "security" if case != "security" else "sysmon")
        stale_map = {4688: "process_creation"} if case != "security" else {1: "process_creation"}
        me = SObj(idx.lookup("sigma.validators.core.logsources:SpecificInsteadOfGenericLogsourceValidator"), {"logsource": stale_ls, "eventid_mappings": stale_map, "disallowed_logsource_event_ids": list(stale_map)}, lazy=True)
        return {"self": me, "args": [rule], "case": case, "stale": stale_map}

    def post(self, I, inp, r):
        c, case, me = I.ctx, inp["case"], inp["self"]
        r = I.force(r) if not isinstance(r, list) else r
        if case in ("unmapped", "correlation"):
            c.require(isinstance(r, list) and r == [] and "walked_with" not in me.ghost, "a rule whose log source has no table (or a correlation rule) yields no issue, whatever was validated before")
        else:
            ok = "walked_with" in me.ghost
            c.require(ok, "a rule with a mapped log source is checked")
            if ok:
                lsrc, table = me.ghost["walked_with"]
                want = {"sysmon": (1, "process_creation"), "security": (4688, "process_creation")}[case]
                tbl = I.force(table) if not isinstance(table, dict) else table
                c.require(isinstance(tbl, dict) and tbl is not inp["stale"] and tbl.get(want[0]) == want[1] and isinstance(lsrc, SObj) and lsrc.fields.get("service") == case,
                          "the table and log source used are those of this rule's log source, not those of the previous rule")

    def frame_ok(self, I, inp, obj, name):
        return obj is inp["self"] and name in ("logsource", "eventid_mappings", "disallowed_logsource_event_ids", "rule")


@register
class DanglingConditionValidate(Contract):
    """DanglingConditionValidator.validate: the unknown references of EVERY condition of the rule are reported (a rule may have a list of
    conditions), each once"""
    id = "C19.DanglingConditionValidator.validate"
    target = f"{VC}:DanglingConditionValidator.validate"
    props = ("C19",)
    cases = ((), (("x",),), (("x",), ()), ((), ("y",)), (("x", "y"), ("y", "z")), (("x",), (), ("z",)))
    assumed = ["condition_unknown_referenced_ids by its own contract (summarised: the unknown names of each condition are given)"]

    def setup(self, E):
        DanglingDetectionValidate.setup(self, E)
        E.summaries[f"{VC}:DanglingConditionValidator.condition_unknown_referenced_ids"] = lambda I, so, a, k: set(a[0].ghost["unknown"])

    def args(self, I, case):
        idx = I.E.index
        conds = []
        for unk in case:
            tree = SObj("Tree", {}, ghost={"unknown": unk})
            conds.append(SObj("SigmaCondition", {"parse": NativeFn("parse", lambda I2, a, k, tree=tree: tree if (a and a[0] is False) else (_ for _ in ()).throw(OutsideSubset("validator must call parse(False)")))}))
        det = SObj("Detections", {"parsed_condition": conds})
        rule = SObj(idx.lookup("sigma.rule.rule:SigmaRule"), {"detection": det}, lazy=True)
        return {"self": SObj(idx.lookup(f"{VC}:DanglingConditionValidator"), {}, lazy=True), "args": [rule], "rule": rule, "case": case}

    def post(self, I, inp, r):
        want = sorted(set(n for unk in inp["case"] for n in unk))
        got = sorted(x.ghost["args"][1] for x in r) if isinstance(r, list) else None
        I.ctx.require(got == want, f"one issue per unknown reference of any condition: {want} (got {got})")
        I.ctx.require(isinstance(r, list) and all(x.ghost["args"][0] == [inp["rule"]] for x in r), "issues name this rule")

    def frame_ok(self, I, inp, obj, name):
        return False


VM = "sigma.validators.core.metadata"


def _mk_unique(clsname, issue, attr, store):
    class C(Contract):
        __doc__ = f"""{clsname}: after any sequence of validate() calls, finalize() names exactly the groups of two or more rules sharing a {attr}
        (each group once, with all its rules in validation order); rules without {attr} are ignored"""
        id = f"C19.{clsname}.finalize"
        target = f"{VM}:{clsname}.finalize"
        props = ("C19",)
        cases = (("A", "A", "B", None), ("A", "B", "C"), ("A", "B", "A", "B", "A"), ())
        assumed = ["history: validate() was called once per rule of the case, on a freshly constructed validator (executed on the real code)"]

        def setup(self, E):
            DanglingDetectionValidate.setup(self, E)

        def args(self, I, case):
            idx = I.E.index
            me = I.instantiate(idx.lookup(f"{VM}:{clsname}"), [], {})
            rules = [SObj(idx.lookup("sigma.rule.rule:SigmaRule"), {attr: v}, lazy=True) for v in case]
            return {"self": me, "args": [], "rules": rules, "case": case}

        def before(self, I, inp):
            v = I.E.index.lookup(f"{VM}:{clsname}.validate")
            for r in inp["rules"]:
                out = I.call_function(v, inp["self"], [r], {})
                I.ctx.require(out == [], "validate() itself reports nothing")

        def post(self, I, inp, r):
            groups = {}
            for rule, v in zip(inp["rules"], inp["case"]):
                if v is not None:
                    groups.setdefault(v, []).append(rule)
            want = {k: g for k, g in groups.items() if len(g) > 1}
            r = I.force(r) if not isinstance(r, list) else r
            ok = isinstance(r, list) and len(r) == len(want)
            I.ctx.require(ok, f"one issue per {attr} shared by several rules ({sorted(want)})")
            if ok:
                for iss in r:
                    a = iss.ghost["args"]
                    key = a[1]
                    I.ctx.require(key in want and len(a[0]) == len(want[key]) and all(x is y for x, y in zip(a[0], want[key])), f"the issue for {key!r} names exactly the rules with that {attr}, in validation order")

        def frame_ok(self, I, inp, obj, name):
            return False
    C.__name__ = "Unique_" + clsname
    return C


register(_mk_unique("IdentifierUniquenessValidator", "IdentifierCollisionIssue", "id", "ids"))
register(_mk_unique("DuplicateTitleValidator", "DuplicateTitleIssue", "title", "titles"))


@register
class DuplicateReferences(Contract):
    """DuplicateReferencesValidator: one issue per reference that occurs more than once in the rule, none otherwise"""
    id = "C19.DuplicateReferencesValidator.validate"
    target = f"{VM}:DuplicateReferencesValidator.validate"
    props = ("C19",)
    cases = ((), ("a",), ("a", "b"), ("a", "a"), ("a", "b", "a", "b", "c"), ("a", "a", "a"))

    def setup(self, E):
        DanglingDetectionValidate.setup(self, E)
        from collections import Counter

        def x_counter(I, a, k):
            c = {}
            for x in a[0]:
                c[x] = c.get(x, 0) + 1
            return c
        E.externals["collections.Counter"] = x_counter

    def args(self, I, case):
        rule = SObj(I.E.index.lookup("sigma.rule.rule:SigmaRule"), {"references": list(case)}, lazy=True)
        return {"self": SObj(I.E.index.lookup(f"{VM}:DuplicateReferencesValidator"), {}, lazy=True), "args": [rule], "rule": rule, "case": case}

    def post(self, I, inp, r):
        want = sorted({x for x in inp["case"] if inp["case"].count(x) > 1})
        r = I.force(r) if not isinstance(r, list) else r
        got = sorted(x.ghost["args"][1] for x in r) if isinstance(r, list) else None
        I.ctx.require(got == want and all(x.ghost["args"][0] == [inp["rule"]] for x in r), f"exactly the repeated references {want} are reported, each once, for this rule")

    def frame_ok(self, I, inp, obj, name):
        return False
