"""C06 (part 2) - the container serialisers: SigmaDetection.to_plain (merging the plain forms of AND-linked items into one map),
SigmaDetections.to_dict / from_dict, SigmaRule / SigmaRuleBase / log source / filter dict forms."""
from __future__ import annotations
import itertools
import z3
from pyvc.api import *
from pyvc.values import *
from pyvc import ops

DET = "sigma.rule.detection"


# ----------------------------------------------------------------------------------------------- meaning of a plain detection
def clauses_of_map(m):
    """meaning of a plain map: a set of clauses (frozensets of atoms, OR inside, AND between). A key carrying |all links its values with AND
    (one clause per value), any other key links them with OR (one clause)."""
    out = set()
    for k, v in m.items():
        vals = v if isinstance(v, list) else [v]
        base = "|".join(p for p in k.split("|") if p != "all")
        if "all" in k.split("|")[1:]:
            for x in vals:
                out.add(frozenset({(base, id(x))}))
        else:
            out.add(frozenset((base, id(x)) for x in vals))
    return out


def V(name):
    return SObj("PlainValue", {"name": name})


A, B, C_, D_, E_ = V("a"), V("b"), V("c"), V("d"), V("e")
ITEM_FORMS = {
    "k=a": {"k": A}, "k=[b]": {"k": [B]}, "k=[a,b]": {"k": [A, B]}, "k|all=[c,d]": {"k|all": [C_, D_]}, "k|all=e": {"k|all": E_}, "j=c": {"j": C_}, "k|m=d": {"k|m": D_},
}
KW_FORMS = {"kw a": A, "kw [b,c]": [B, C_], "kw [d]": [D_]}


def copy_plain(p):
    if isinstance(p, dict):
        return {k: copy_plain(v) for k, v in p.items()}
    if isinstance(p, list):
        return list(p)
    return p


@register
class DetectionToPlain(Contract):
    """SigmaDetection.to_plain for a detection made of items (a map in the rule document, AND-linked): the returned map MEANS the
    conjunction of the items - each key that carries |all requires all of its values, every other key one of them - or the call fails with
    SigmaValueError where the map form cannot express that (two multi-valued OR lists under one key). Nothing is lost, nothing invented"""
    id = "C06.SigmaDetection.to_plain[items]"
    target = f"{DET}:SigmaDetection.to_plain"
    props = ("C06",)
    cases = tuple(c for n in (1, 2, 3) for c in itertools.product(ITEM_FORMS, repeat=n))
    assumed = ["item plain forms are abstract one-key maps over opaque values; 1..3 items (unrolled); keys k, k|all, k|m, j"]

    def args(self, I, case):
        idx = I.E.index
        DI = idx.lookup(f"{DET}:SigmaDetectionItem")
        forms = [copy_plain(ITEM_FORMS[c]) for c in case]
        items = [SObj(DI, {"to_plain": NativeFn("to_plain", (lambda f: lambda I2, a, k: f)(f))}, lazy=True) for f in forms]
        me = SObj(idx.lookup(f"{DET}:SigmaDetection"), {"detection_items": items, "source": None}, lazy=True)
        return {"self": me, "args": [], "forms": forms, "case": case}

    def expressible(self, case):
        # two items under the same non-all key where one of them has several (OR-linked) values cannot be written as one map
        by = {}
        for c in case:
            (k, v), = ITEM_FORMS[c].items()
            by.setdefault(k, []).append(v)
        for k, vs in by.items():
            if "all" not in k.split("|") and len(vs) > 1 and any(isinstance(v, list) and len(v) > 1 for v in vs):
                return False
        return True

    def post(self, I, inp, r):
        c = I.ctx
        want = set()
        for cname in inp["case"]:
            want |= clauses_of_map(ITEM_FORMS[cname])
        r = I.force(r) if not isinstance(r, dict) else r
        ok = isinstance(r, dict)
        c.require(ok, "a map")
        if ok:
            c.require(clauses_of_map(r) == want, f"the map means the conjunction of the items (|all keys: every value, other keys: one of the values); got {sorted(r)}")
        # (the plain forms of the items are temporaries built for this call: merging into them in place is not observable)

    def raises(self, I, inp, exc):
        I.ctx.require(exc_is(I, exc, "SigmaValueError") and not self.expressible(inp["case"]), f"fails only where one map cannot express the conjunction, and then with SigmaValueError (got {exc_name(exc)} for {inp['case']})")

    def frame_ok(self, I, inp, obj, name):
        return False


@register
class DetectionToPlainKeywords(Contract):
    """SigmaDetection.to_plain for keyword items and for a list of sub-detections: keyword values are gathered into one list in order (a
    single one stays as it is); sub-detections become the list of their plain forms in order (never merged - they are alternatives);
    a mixture of detections and items, or of maps and plain values, is a SigmaValueError"""
    id = "C06.SigmaDetection.to_plain[lists]"
    target = f"{DET}:SigmaDetection.to_plain"
    props = ("C06",)
    cases = tuple(("kw",) + c for n in (1, 2, 3) for c in itertools.product(KW_FORMS, repeat=n)) + (("sub", 1), ("sub", 3), ("mixed-kinds",), ("map+kw",), ("sub-none",))

    def args(self, I, case):
        idx = I.E.index
        DI, D = idx.lookup(f"{DET}:SigmaDetectionItem"), idx.lookup(f"{DET}:SigmaDetection")

        def item(form):
            return SObj(DI, {"to_plain": NativeFn("to_plain", lambda I2, a, k: form)}, lazy=True)

        def sub(form):
            return SObj(D, {"to_plain": NativeFn("to_plain", lambda I2, a, k: form)}, lazy=True)
        forms = []
        if case[0] == "kw":
            forms = [copy_plain(KW_FORMS[c]) for c in case[1:]]
            items = [item(f) for f in forms]
        elif case[0] == "sub":
            forms = [{"f": V(f"s{i}")} for i in range(case[1])]
            items = [sub(f) for f in forms]
        elif case[0] == "sub-none":
            forms = [{"f": A}, None, {"g": B}]
            items = [sub(f) for f in forms]
        elif case[0] == "mixed-kinds":
            items = [item({"k": A}), sub({"f": B})]
        else:
            items = [item({"k": A}), item(B)]
        me = SObj(idx.lookup(f"{DET}:SigmaDetection"), {"detection_items": items, "source": None}, lazy=True)
        return {"self": me, "args": [], "forms": forms, "case": case}

    def post(self, I, inp, r):
        c, case = I.ctx, inp["case"]
        c.require(case[0] not in ("mixed-kinds", "map+kw"), "mixtures cannot be written: rejected")
        r = I.force(r) if not isinstance(r, (list, dict, SObj)) else r
        if case[0] == "kw":
            flat = []
            for name in case[1:]:
                f = KW_FORMS[name]
                flat += f if isinstance(f, list) else [f]
            if len(case) == 2:
                f = KW_FORMS[case[1]]
                c.require((r is f) if not isinstance(f, list) else (isinstance(r, list) and len(r) == len(f) and all(x is y for x, y in zip(r, f))), "a single keyword item: its own plain form")
            else:
                c.require(isinstance(r, list) and len(r) == len(flat) and all(x is y for x, y in zip(r, flat)), "all keyword values in one list, in order")
        else:
            want = [f for f in inp["forms"] if f is not None]
            c.require(isinstance(r, list) and len(r) == len(want) and all(x is y for x, y in zip(r, want)), "the plain forms of the sub-detections, in order, not merged (forms that are None are left out)")

    def raises(self, I, inp, exc):
        I.ctx.require(inp["case"][0] in ("mixed-kinds", "map+kw") and exc_is(I, exc, "SigmaValueError"), f"SigmaValueError exactly for mixtures (got {exc_name(exc)})")

    def frame_ok(self, I, inp, obj, name):
        return False


# ----------------------------------------------------------------------------------------------- detection section, rule header
@register
class DetectionsToDict(Contract):
    """SigmaDetections.to_dict: every detection under its name with its plain form, in order, plus `condition` - a single condition as
    text, several as the list of texts"""
    id = "C06.SigmaDetections.to_dict"
    target = f"{DET}:SigmaDetections.to_dict"
    props = ("C06",)
    cases = ((1, 1), (2, 1), (2, 2), (3, 3))

    def args(self, I, case):
        nd, nc = case
        plains = [SObj("Plain", {"i": i}) for i in range(nd)]
        dets = {f"det{i}": SObj("Detection", {"to_plain": NativeFn("to_plain", (lambda p: lambda I2, a, k: p)(plains[i]))}) for i in range(nd)}
        conds = [I.fresh(f"cond{i}", "str") for i in range(nc)]
        me = SObj(I.E.index.lookup(f"{DET}:SigmaDetections"), {"detections": dets, "condition": list(conds)}, lazy=True)
        return {"self": me, "args": [], "plains": plains, "conds": conds, "names": list(dets)}

    def post(self, I, inp, r):
        c = I.ctx
        r = I.force(r) if not isinstance(r, dict) else r
        ok = isinstance(r, dict) and list(r) == inp["names"] + ["condition"]
        c.require(ok, "the detections in order, then condition")
        if ok:
            c.require(all(r[n] is p for n, p in zip(inp["names"], inp["plains"])), "each detection's own plain form under its name")
            cd = r["condition"]
            if len(inp["conds"]) == 1:
                c.require(cd is inp["conds"][0], "one condition: its text")
            else:
                cd = I.force(cd) if not isinstance(cd, list) else cd
                c.require(isinstance(cd, list) and len(cd) == len(inp["conds"]) and all(a is b for a, b in zip(cd, inp["conds"])), "several conditions: the list of texts in order")

    def frame_ok(self, I, inp, obj, name):
        return False


@register
class DetectionsFromDict(Contract):
    """SigmaDetections.from_dict: `condition` (text or list of texts) becomes the list of conditions; every OTHER key is a detection parsed
    from its definition with the rule's source; a missing condition is a SigmaConditionError"""
    id = "C06.SigmaDetections.from_dict"
    target = f"{DET}:SigmaDetections.from_dict"
    props = ("C06", "C07", "C11")
    cases = ("scalar", "list", "missing")

    def setup(self, E):
        E._c06b = []
        E.summaries[f"{DET}:SigmaDetection.from_definition"] = lambda I, so, a, k: (E._c06b.append(list(a)), SObj("ParsedDetection", {"of": a[0]}))[1]

        def hook(I, cinfo, args, kwargs):
            from pyvc.interp import UNBOUND
            if cinfo.name == "SigmaDetections":
                return SObj("NewDetections", {"a": list(args), "k": dict(kwargs)})
            return UNBOUND
        E.instantiate_hook = hook

    def args(self, I, case):
        del I.E._c06b[:]
        c1, c2 = I.fresh("cond1", "str"), I.fresh("cond2", "str")
        d1, d2 = SObj("Definition", {}), SObj("Definition", {})
        src = SObj("Location", {})
        d = {"sel": d1, "condition": c1 if case == "scalar" else [c1, c2], "flt": d2}
        if case == "missing":
            del d["condition"]
        return {"self": ClassRef(I.E.index.lookup(f"{DET}:SigmaDetections")), "args": [d, src], "d": d, "src": src, "c": (c1, c2), "defs": (d1, d2), "case": case}

    def post(self, I, inp, r):
        c, case = I.ctx, inp["case"]
        c.require(case != "missing", "a detection section without condition is rejected")
        ok = isinstance(r, SObj) and r.cls == "NewDetections" and r.fields["a"] == []
        c.require(ok, "a detections object")
        if not ok:
            return
        k = r.fields["k"]
        cd = I.force(k.get("condition")) if not isinstance(k.get("condition"), list) else k.get("condition")
        want = [inp["c"][0]] if case == "scalar" else list(inp["c"])
        c.require(isinstance(cd, list) and len(cd) == len(want) and all(a is b for a, b in zip(cd, want)), "condition: always a list of the texts")
        c.require(cd is not inp["d"].get("condition"), "the rule owns its list of conditions (filters rewrite it in place; the parsed document may be shared by a repeated rule or loaded again)")
        dets = I.force(k.get("detections")) if not isinstance(k.get("detections"), dict) else k.get("detections")
        c.require(isinstance(dets, dict) and list(dets) == ["sel", "flt"] and dets["sel"].fields["of"] is inp["defs"][0] and dets["flt"].fields["of"] is inp["defs"][1], "every other key is a detection parsed from its own definition, in order")
        c.require(all(len(a) == 2 and a[1] is inp["src"] for a in I.E._c06b) and k.get("source") is inp["src"], "the source location is passed on")

    def raises(self, I, inp, exc):
        I.ctx.require(inp["case"] == "missing" and exc_is(I, exc, "SigmaConditionError"), f"SigmaConditionError for a missing condition only (got {exc_name(exc)})")

    def frame_ok(self, I, inp, obj, name):
        return False


@register
class RuleBaseToDict(Contract):
    """SigmaRuleBase.to_dict: title; id / status / level / author / description / name as text where set; references / fields /
    falsepositives / scope as COPIES where non-empty; tags as texts; date / modified in ISO form; then the custom attributes"""
    id = "C06.SigmaRuleBase.to_dict"
    target = "sigma.rule.base:SigmaRuleBase.to_dict"
    props = ("C06",)
    cases = ("full", "minimal")

    def args(self, I, case):
        def strable(n):
            t = I.fresh(n + "_text", "str")
            return SObj("Attr", {"__str__": NativeFn("__str__", lambda I2, a, k: t)}), t
        f, texts = {}, {}
        title = I.fresh("title", "str")
        for n in ("id", "status", "level", "author", "description", "name"):
            if case == "full":
                f[n], texts[n] = strable(n)
            else:
                f[n] = None
        lists = {}
        for n in ("references", "fields", "falsepositives", "scope"):
            lists[n] = [I.fresh(n + "0", "str"), I.fresh(n + "1", "str")] if case == "full" else []
            f[n] = lists[n]
        tagtexts = [I.fresh("tag0", "str"), I.fresh("tag1", "str")] if case == "full" else []
        f["tags"] = [SObj("Tag", {"__str__": NativeFn("__str__", (lambda t: lambda I2, a, k: t)(t))}) for t in tagtexts]
        iso = {"date": I.fresh("date_iso", "str"), "modified": I.fresh("modified_iso", "str")}
        for n in ("date", "modified"):
            f[n] = SObj("Date", {"isoformat": NativeFn("isoformat", (lambda t: lambda I2, a, k: t)(iso[n]))}) if case == "full" else None
        cust = {"my_attr": I.fresh("custom", "str")} if case == "full" else {}
        f["custom_attributes"] = cust
        f["title"] = title
        me = SObj(I.E.index.lookup("sigma.rule.base:SigmaRuleBase"), f, lazy=True)
        return {"self": me, "args": [], "title": title, "texts": texts, "lists": lists, "tagtexts": tagtexts, "iso": iso, "cust": cust, "case": case}

    def post(self, I, inp, r):
        c, case = I.ctx, inp["case"]
        r = I.force(r) if not isinstance(r, dict) else r
        if case == "minimal":
            c.require(isinstance(r, dict) and list(r) == ["title"] and r["title"] is inp["title"], "only the title: nothing is written for attributes that are not set / empty")
            return
        want_keys = {"title", "id", "status", "level", "author", "description", "name", "references", "fields", "falsepositives", "scope", "tags", "date", "modified", "my_attr"}
        ok = isinstance(r, dict) and set(r) == want_keys
        c.require(ok, "exactly the keys of the attributes that are set, plus the custom attributes")
        if not ok:
            return
        c.require(r["title"] is inp["title"] and all(r[n] is inp["texts"][n] for n in inp["texts"]), "scalar attributes as their text")
        for n, l in inp["lists"].items():
            got = I.force(r[n]) if not isinstance(r[n], list) else r[n]
            c.require(isinstance(got, list) and got is not l and len(got) == 2 and all(a is b for a, b in zip(got, l)), f"{n}: a copy of the list (the dict form does not alias the rule)")
        tags = I.force(r["tags"]) if not isinstance(r["tags"], list) else r["tags"]
        c.require(isinstance(tags, list) and len(tags) == 2 and all(a is b for a, b in zip(tags, inp["tagtexts"])), "tags as their texts, in order")
        c.require(r["date"] is inp["iso"]["date"] and r["modified"] is inp["iso"]["modified"], "date and modified in ISO form, each from its own attribute")
        c.require(r["my_attr"] is inp["cust"]["my_attr"], "custom attributes are written back under their names")

    def frame_ok(self, I, inp, obj, name):
        return False


@register
class RuleToDict(Contract):
    """SigmaRule.to_dict: the header (base class) plus `logsource` and `detection`, each from its own object"""
    id = "C06.SigmaRule.to_dict"
    target = "sigma.rule.rule:SigmaRule.to_dict"
    props = ("C06",)

    def setup(self, E):
        E.summaries["sigma.rule.base:SigmaRuleBase.to_dict"] = lambda I, so, a, k: {"title": "t", "level": "high"}

    def args(self, I):
        ls, dt = SObj("LogsourceDict", {}), SObj("DetectionDict", {})
        me = SObj(I.E.index.lookup("sigma.rule.rule:SigmaRule"), {"logsource": SObj("LS", {"to_dict": NativeFn("to_dict", lambda I2, a, k: ls)}), "detection": SObj("D", {"to_dict": NativeFn("to_dict", lambda I2, a, k: dt)})}, lazy=True)
        return {"self": me, "args": [], "ls": ls, "dt": dt}

    def post(self, I, inp, r):
        r = I.force(r) if not isinstance(r, dict) else r
        I.ctx.require(isinstance(r, dict) and set(r) == {"title", "level", "logsource", "detection"} and r["logsource"] is inp["ls"] and r["detection"] is inp["dt"] and r["title"] == "t" and r["level"] == "high",
                      "header keys kept, logsource and detection added from their own serialisers")

    def frame_ok(self, I, inp, obj, name):
        return False


# ----------------------------------------------------------------------------------------------- filters and correlation rules
FIL = "sigma.filters"
COR = "sigma.correlations"


@register
class GlobalFilterToDict(Contract):
    """SigmaGlobalFilter.to_dict: the detection section plus `rules` - the keyword `any` as it is, otherwise the references AS WRITTEN
    (rule names are looked up case-sensitively) in order"""
    id = "C06.SigmaGlobalFilter.to_dict"
    target = f"{FIL}:SigmaGlobalFilter.to_dict"
    props = ("C06", "C11")
    cases = ("any", "refs0", "refs2")

    def setup(self, E):
        E.summaries[f"{DET}:SigmaDetections.to_dict"] = lambda I, so, a, k: {"flt": "plain", "condition": "flt"}

    def args(self, I, case):
        names = [I.fresh("ref0", "str"), I.fresh("ref1", "str")] if case == "refs2" else []
        rules = "any" if case == "any" else [SObj(I.E.index.lookup(f"{COR}:SigmaRuleReference"), {"reference": n}, lazy=True) for n in names]
        me = SObj(I.E.index.lookup(f"{FIL}:SigmaGlobalFilter"), {"rules": rules}, lazy=True)
        return {"self": me, "args": [], "names": names, "case": case}

    def post(self, I, inp, r):
        c = I.ctx
        r = I.force(r) if not isinstance(r, dict) else r
        ok = isinstance(r, dict) and set(r) == {"flt", "condition", "rules"}
        c.require(ok, "the detection section plus rules")
        if not ok:
            return
        if inp["case"] == "any":
            c.require(r["rules"] == "any", "the keyword any")
        else:
            got = I.force(r["rules"]) if not isinstance(r["rules"], list) else r["rules"]
            c.require(isinstance(got, list) and len(got) == len(inp["names"]) and all(a is b for a, b in zip(got, inp["names"])), "the references exactly as written, in order")

    def frame_ok(self, I, inp, obj, name):
        return False


@register
class FilterToDict(Contract):
    """SigmaFilter.to_dict: the header plus `logsource` and `filter`, each from its own serialiser"""
    id = "C06.SigmaFilter.to_dict"
    target = f"{FIL}:SigmaFilter.to_dict"
    props = ("C06",)

    def setup(self, E):
        E.summaries["sigma.rule.base:SigmaRuleBase.to_dict"] = lambda I, so, a, k: {"title": "t"}

    def args(self, I):
        ls, fl = SObj("LogsourceDict", {}), SObj("FilterDict", {})
        me = SObj(I.E.index.lookup(f"{FIL}:SigmaFilter"), {"logsource": SObj("LS", {"to_dict": NativeFn("to_dict", lambda I2, a, k: ls)}), "filter": SObj("GF", {"to_dict": NativeFn("to_dict", lambda I2, a, k: fl)})}, lazy=True)
        return {"self": me, "args": [], "ls": ls, "fl": fl}

    def post(self, I, inp, r):
        r = I.force(r) if not isinstance(r, dict) else r
        I.ctx.require(isinstance(r, dict) and set(r) == {"title", "logsource", "filter"} and r["logsource"] is inp["ls"] and r["filter"] is inp["fl"], "header, logsource, filter")

    def frame_ok(self, I, inp, obj, name):
        return False


@register
class ExtendedConditionToDict(Contract):
    """SigmaExtendedCorrelationCondition.to_dict: the expression text as it was written (re-generating it from the parse tree would have to
    reproduce every grouping)"""
    id = "C06.SigmaExtendedCorrelationCondition.to_dict"
    target = f"{COR}:SigmaExtendedCorrelationCondition.to_dict"
    props = ("C06",)

    def args(self, I):
        text = I.fresh("expression", "str")
        me = SObj(I.E.index.lookup(f"{COR}:SigmaExtendedCorrelationCondition"), {"expression": text}, lazy=True)
        return {"self": me, "args": [], "text": text}

    def post(self, I, inp, r):
        I.ctx.require(r is inp["text"] or (isinstance(r, Sym) and r.kind == "str" and r.t == inp["text"].t), "the stored expression text")

    def frame_ok(self, I, inp, obj, name):
        return False


@register
class FieldAliasesToDict(Contract):
    """SigmaCorrelationFieldAliases.to_dict: alias -> {rule reference as written: field name}, every alias and every mapping entry, in order"""
    id = "C06.SigmaCorrelationFieldAliases.to_dict"
    target = f"{COR}:SigmaCorrelationFieldAliases.to_dict"
    props = ("C06", "C10")
    cases = (0, 1, 2)

    def args(self, I, case):
        idx = I.E.index
        RR = idx.lookup(f"{COR}:SigmaRuleReference")
        aliases, want = {}, {}
        for i in range(case):
            refs = [I.fresh(f"a{i}ref{j}", "str") for j in range(2)]
            flds = [I.fresh(f"a{i}field{j}", "str") for j in range(2)]
            keys = [SObj(RR, {"reference": n}, lazy=True) for n in refs]
            aliases[f"alias{i}"] = SObj(idx.lookup(f"{COR}:SigmaCorrelationFieldAlias"), {"alias": f"alias{i}", "mapping": {keys[0]: flds[0], keys[1]: flds[1]}}, lazy=True)
            want[f"alias{i}"] = list(zip(refs, flds))
        me = SObj(idx.lookup(f"{COR}:SigmaCorrelationFieldAliases"), {"aliases": aliases}, lazy=True)
        return {"self": me, "args": [], "want": want}

    def post(self, I, inp, r):
        c = I.ctx
        r = I.force(r) if not isinstance(r, dict) else r
        ok = isinstance(r, dict) and list(r) == list(inp["want"])
        c.require(ok, "one entry per alias, in order")
        if ok:
            for a, pairs in inp["want"].items():
                m = I.force(r[a]) if not isinstance(r[a], dict) else r[a]
                c.require(isinstance(m, dict) and len(m) == len(pairs) and all(k is p[0] and v is p[1] for (k, v), p in zip(m.items(), pairs)), f"{a}: reference as written -> field name, in order")

    def frame_ok(self, I, inp, obj, name):
        return False


@register
class CorrelationRuleToDict(Contract):
    """SigmaCorrelationRule.to_dict: header plus `correlation` = type in lower case, rule references as written, the timespan as written,
    group-by, aliases, `generate: true` iff set, and the condition from its own serialiser (absent when there is none)"""
    id = "C06.SigmaCorrelationRule.to_dict"
    target = f"{COR}:SigmaCorrelationRule.to_dict"
    props = ("C06", "C09")
    cases = tuple((gen, cond, al) for gen in (True, False) for cond in (True, False) for al in (True, False))

    def setup(self, E):
        E.summaries["sigma.rule.base:SigmaRuleBase.to_dict"] = lambda I, so, a, k: {"title": "t"}

    def args(self, I, case):
        gen, cond, al = case
        idx = I.E.index
        T = ClassRef(idx.lookup(f"{COR}:SigmaCorrelationType"))
        refs = [I.fresh("ref0", "str"), I.fresh("ref1", "str")]
        spec, gb = I.fresh("timespan", "str"), [I.fresh("g0", "str")]
        cd, ad = SObj("ConditionDict", {}), SObj("AliasesDict", {})
        f = {"type": ops.getattr_(I, T, "VALUE_COUNT", None), "rules": [SObj(idx.lookup(f"{COR}:SigmaRuleReference"), {"reference": n}, lazy=True) for n in refs], "timespan": SObj("Timespan", {"spec": spec}), "group_by": gb,
             "aliases": SObj("Aliases", {"to_dict": NativeFn("to_dict", lambda I2, a, k: ad)}) if al else None, "generate": gen,
             "condition": SObj("Cond", {"to_dict": NativeFn("to_dict", lambda I2, a, k: cd)}) if cond else None}
        me = SObj(idx.lookup(f"{COR}:SigmaCorrelationRule"), f, lazy=True)
        return {"self": me, "args": [], "refs": refs, "spec": spec, "gb": gb, "cd": cd, "ad": ad, "case": case}

    def post(self, I, inp, r):
        c, (gen, cond, al) = I.ctx, inp["case"]
        r = I.force(r) if not isinstance(r, dict) else r
        ok = isinstance(r, dict) and set(r) == {"title", "correlation"} and isinstance(r["correlation"], dict)
        c.require(ok, "header plus correlation")
        if not ok:
            return
        d = r["correlation"]
        c.require(set(d) == {"type", "rules", "timespan", "group-by", "aliases"} | ({"generate"} if gen else set()) | ({"condition"} if cond else set()), "exactly the documented keys; generate only when set, condition only when there is one")
        c.require(d["type"] == "value_count", "the type in lower case")
        rl = I.force(d["rules"]) if not isinstance(d["rules"], list) else d["rules"]
        c.require(isinstance(rl, list) and len(rl) == 2 and all(a is b for a, b in zip(rl, inp["refs"])), "rule references as written, in order")
        c.require(d["timespan"] is inp["spec"] and d["group-by"] is inp["gb"], "timespan as written; group-by")
        c.require((d["aliases"] is inp["ad"]) if al else d["aliases"] is None, "aliases from their own serialiser")
        if gen:
            c.require(d["generate"] is True, "generate: true")
        if cond:
            c.require(d["condition"] is inp["cd"], "the condition from its own serialiser")

    def frame_ok(self, I, inp, obj, name):
        return False


@register
class LogSourceToDict(Contract):
    """SigmaLogSource.to_dict: category / product / service / definition where set, as text, and the custom attributes under their own
    keys (as they were read) - not the source location, no nested `custom_attributes` entry"""
    id = "C06.SigmaLogSource.to_dict"
    target = "sigma.rule.logsource:SigmaLogSource.to_dict"
    props = ("C06",)
    cases = ("all", "category-only", "custom", "none-custom")

    def args(self, I, case):
        vals = {n: I.fresh(n, "str") for n in ("category", "product", "service", "definition")}
        f = dict(vals) if case in ("all", "custom") else {"category": vals["category"], "product": None, "service": None, "definition": None}
        cust = {"myattr": I.fresh("custom1", "str"), "other": SObj("Nested", {})} if case == "custom" else ({} if case == "none-custom" else None)
        f["custom_attributes"] = cust
        f["source"] = SObj("Location", {})
        me = SObj(I.E.index.lookup("sigma.rule.logsource:SigmaLogSource"), f, lazy=True)
        return {"self": me, "args": [], "vals": vals, "f": f, "cust": cust, "case": case}

    def post(self, I, inp, r):
        c = I.ctx
        r = I.force(r) if not isinstance(r, dict) else r
        want = [n for n in ("category", "product", "service", "definition") if inp["f"][n] is not None] + (list(inp["cust"]) if inp["cust"] else [])
        ok = isinstance(r, dict) and list(r) == want
        c.require(ok, f"exactly the keys {want}")
        if ok:
            for n in want:
                if n in inp["vals"]:
                    c.require(True if r[n] is inp["f"][n] else (r[n].t == inp["f"][n].t if isinstance(r[n], Sym) and r[n].kind == "str" else False), f"{n}: the attribute value as text")
            if inp["cust"]:
                c.require(all(r[k] is v for k, v in inp["cust"].items()), "custom attributes under their own keys, values as they are")

    def frame_ok(self, I, inp, obj, name):
        return False
