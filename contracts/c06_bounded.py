"""C06 bounded stand-in: X.from_dict(x.to_dict()) and the YAML leg on enumerated documents, and rules after every single built-in
transformation: to_dict() either fails with a Sigma error or reloads to a rule with the same queries."""
from __future__ import annotations
import copy, datetime, itertools
from pyvc.api import *
from .c07_bounded import RULE, CORR, CORR2, CORR3, FILT


def norm(d):
    """dict form comparison: dates / UUIDs / enums as text"""
    if isinstance(d, dict):
        return {str(k): norm(v) for k, v in d.items() if v is not None and v != [] and v != {}}
    if isinstance(d, (list, tuple)):
        return [norm(x) for x in d]
    if isinstance(d, (datetime.date,)):
        return d.isoformat()
    return d if isinstance(d, (int, float, bool, str)) or d is None else str(d)


@register
class C06Bounded(Bounded):
    id = "C06.bounded.roundtrip"
    props = ("C06",)

    def run(self, tier, seed):
        import yaml
        from sigma.rule import SigmaRule
        from sigma.correlations import SigmaCorrelationRule
        from sigma.filters import SigmaFilter
        from sigma.collection import SigmaCollection
        from sigma.backends.test import TextQueryTestBackend
        from sigma.processing.pipeline import ProcessingPipeline
        from sigma.exceptions import SigmaError
        ev = nontriv = 0
        seen, fails, samples = {}, [], []

        def fail(kind, text, inp):
            kind = kind + ":" + str(inp[0]) + (":known" if text.startswith("KNOWN") else "")
            seen[kind] = seen.get(kind, 0) + 1
            if seen[kind] == 1:
                fails.append({"text": text, "input": inp})

        def queries(rule_docs):
            return TextQueryTestBackend().convert(SigmaCollection.from_dicts(copy.deepcopy(rule_docs)))
        # --- detection shapes x modifier chains x values
        values = ["a", "a*", "a\\*b", "a\\\\b", "*", "", "100%", "x y", 5, 1.5, True, None, ["a", "b*"], ["a", 1, None], [], "index.php\\?id=", "a\\?b*", "?a\\?", ["x\\?", "y?"]]
        keys = ["f", "f|contains", "f|startswith", "f|endswith", "f|contains|all", "f|re", "f|re|i", "f|re|i|m", "f|cidr", "f|cased", "f|base64", "f|base64offset|contains", "f|wide|base64", "f|windash", "f|expand",
                "f|exists", "f|fieldref", "f|gt", "f|lte", "f|hour", "f|neq", "|contains", "",
                # the same modifiers in another order / repeated are another chain (all in one process: nothing remembered about one chain may answer for another)
                "f|base64|wide", "f|base64|base64", "f|contains|cased", "f|cased|contains", "f|utf16be|base64offset|contains", "f|base64offset|utf16be|contains", "f|all|contains"]
        specials = {"f|cidr": ["10.0.0.0/8", "::1/128"], "f|exists": [True, False], "f|gt": [5, 1.5], "f|lte": [3], "f|hour": [7], "f|fieldref": ["other", "o\\*x"], "f|re": ["a.*b", "x\\\\y", "^a\\*$", "a|b"], "f|re|i": ["ab+"], "f|re|i|m": ["ab*"]}
        for k in keys:
            for v in specials.get(k, values):
                det_shapes = [{"sel": {k: v} if k else (v if isinstance(v, list) else [v]), "condition": "sel"}] if k else [{"sel": v if isinstance(v, list) and v else [v] if not isinstance(v, list) else ["x"], "condition": "sel"}]
                for det in det_shapes:
                    doc = {"title": "t", "logsource": {"category": "c"}, "detection": det}
                    ev += 1
                    try:
                        r = SigmaRule.from_dict(copy.deepcopy(doc))
                    except SigmaError:
                        continue
                    except Exception as e:
                        continue      # loading problems belong to C07
                    nontriv += 1
                    try:
                        TextQueryTestBackend().convert_rule(SigmaRule.from_dict(copy.deepcopy(doc)))
                    except Exception:
                        continue      # not convertible by the test backend at all: no query to compare
                    try:
                        d1 = r.to_dict()
                    except SigmaError:
                        continue      # refusing to serialise is allowed
                    except Exception as e:
                        fail("to_dict-crash", f"detection {det}: to_dict() raises {type(e).__name__}: {e}", [k, v])
                        continue
                    try:
                        r2 = SigmaRule.from_dict(copy.deepcopy(d1))
                        d2 = r2.to_dict()
                        r3 = SigmaRule.from_yaml(yaml.safe_dump(d1))
                        q0, q2, q3 = TextQueryTestBackend().convert_rule(SigmaRule.from_dict(copy.deepcopy(doc))), TextQueryTestBackend().convert_rule(r2), TextQueryTestBackend().convert_rule(r3)
                    except SigmaError as e:
                        qerr = None
                        try:
                            TextQueryTestBackend().convert_rule(SigmaRule.from_dict(copy.deepcopy(doc)))
                        except SigmaError as e0:
                            qerr = e0
                        if qerr is None:
                            fail("reload-error", f"detection {det}: written as {d1.get('detection')} which fails to load / convert: {type(e).__name__}: {e}", [k, v])
                        continue
                    except Exception as e:
                        fail("reload-crash", f"detection {det}: written as {d1.get('detection')}: {type(e).__name__}: {e}", [k, v])
                        continue
                    if norm(d1) != norm(d2):
                        fail("dict-form", f"detection {det}: dict form changes on reload: {d1.get('detection')} -> {d2.get('detection')}", [k, v])
                    elif q0 != q2 or q0 != q3:
                        fail("queries", f"detection {det}: written as {d1.get('detection')}; queries {q0} -> {q2} (dict) / {q3} (yaml)", [k, v])
                    elif len(samples) < 3 and "|" in k and isinstance(v, str) and "\\" in v:
                        samples.append({"detection": str(det), "written": str(d1["detection"]), "query": q0})
        # --- whole documents: rule, correlation, filter
        RULE_OK = copy.deepcopy(RULE)
        RULE_OK["detection"]["sel"]["f|contains"] = ["a", "b"]
        def doc_queries(cls, d):
            from sigma.collection import SigmaCollection
            from sigma.backends.test import TextQueryTestBackend
            base = [SigmaRule.from_dict({"title": t, "name": t, "logsource": {"category": "c"}, "detection": {"s": {"User": t, "u": "admin"}, "condition": "s"}}) for t in "nmp"]
            col = SigmaCollection(base + [cls.from_dict(copy.deepcopy(d))])
            col.resolve_rule_references()
            return TextQueryTestBackend().convert(col)
        more = [{"title": "C4", "correlation": {"type": "temporal_ordered", "rules": ["n", "p", "m"], "timespan": "1d", "group-by": ["User"], "condition": "m and (n or p)"}},
                {"title": "C5", "correlation": {"type": "event_count", "rules": ["n"], "timespan": "1d", "group-by": ["User"], "condition": {"gt": 0}, "generate": True}},
                {"title": "C6", "correlation": {"type": "value_percentile", "rules": ["n"], "timespan": "1d", "group-by": ["User"], "condition": {"gt": 5, "field": "x", "percentile": 0}}},
                {"title": "C7", "correlation": {"type": "value_sum", "rules": ["n", "m"], "timespan": "1d", "group-by": ["User"], "condition": {"eq": 0, "field": "x"}}},
                {"title": "C8", "correlation": {"type": "temporal", "rules": ["m", "n"], "timespan": "1d", "group-by": ["User"]}},
                {"title": "C10", "correlation": {"type": "temporal", "rules": ["n", "m", "p"], "timespan": "1d", "group-by": ["User"], "condition": "n and not (m and p)"}},
                {"title": "C11", "correlation": {"type": "temporal", "rules": ["n", "m", "p"], "timespan": "1d", "group-by": ["User"], "condition": "not (n or m) and p"}},
                {"title": "C12", "correlation": {"type": "temporal_ordered", "rules": ["n", "m", "p"], "timespan": "1d", "group-by": ["User"], "condition": "(n or  (m and not p))   and not (not n and m)"}},
                {"title": "C13", "correlation": {"type": "temporal", "rules": ["n", "m", "p"], "timespan": "1d", "group-by": ["User"], "condition": "n or m and p"}},
                {"title": "C9", "correlation": {"type": "value_count", "rules": ["p", "n"], "timespan": "30s", "group-by": ["User", "Host"], "condition": {"neq": 1, "field": ["x", "y"]}, "aliases": {"Host": {"p": "h1", "n": "h2"}}, "generate": True}}]
        odd_names = {"title": "ODD", "logsource": {"category": "c"}, "detection": {"rules": {"f": "a"}, "filter": {"g": "b"}, "correlation": {"h": "c"}, "fields": {"i": "d"}, "condition": "rules and not filter or 1 of corr* or fields"}}
        odd_names2 = {"title": "ODD2", "logsource": {"category": "c"}, "detection": {"rules": {"f": "a"}, "timespan": {"g": "b"}, "condition": "1 of them"}}
        for kind, cls, doc in (("rule", SigmaRule, RULE_OK), ("rule", SigmaRule, odd_names), ("rule", SigmaRule, odd_names2), ("correlation", SigmaCorrelationRule, CORR), ("correlation", SigmaCorrelationRule, CORR2), ("correlation", SigmaCorrelationRule, CORR3), ("filter", SigmaFilter, FILT),
                               *[("correlation", SigmaCorrelationRule, m) for m in more],
                               ("rule", SigmaRule, {**RULE_OK, "date": datetime.date(2024, 1, 2), "modified": "2024/01/03"}),
                               ("rule", SigmaRule, {**RULE_OK, "title": "DT", "date": datetime.datetime(2024, 1, 2, 10, 30), "modified": datetime.datetime(2024, 1, 3, 1, 2, 3, tzinfo=datetime.timezone(datetime.timedelta(hours=2)))}),
                               ("rule", SigmaRule, {**RULE_OK, "title": "LS", "logsource": {"category": "c", "definition": "needs audit policy x", "myattr": "x", "other": "y"}})):
            ev += 1
            nontriv += 1
            try:
                x = cls.from_dict(copy.deepcopy(doc))
                d1 = x.to_dict()
                x2 = cls.from_dict(copy.deepcopy(d1))
                d2 = x2.to_dict()
                x3 = cls.from_yaml(yaml.safe_dump(norm(d1)))
                d3 = x3.to_dict()
            except Exception as e:
                fail("document", f"{kind} document {doc.get('title')}: round trip raises {type(e).__name__}: {e}", [kind])
                continue
            # "converts to the same queries": the original and both reloaded objects, each in a fresh collection with the rules they refer to
            if kind in ("correlation", "filter"):
                try:
                    qs = [doc_queries(cls, o) for o in (doc, d1, norm(d3))]
                except Exception as e:
                    fail("document-queries", f"{kind} document {doc.get('title')}: conversion of the original / reloaded object raises {type(e).__name__}: {e}", [kind, doc.get("title")])
                    continue
                if qs[0] != qs[1] or qs[0] != qs[2]:
                    fail("document-queries:" + str(doc.get("title")), f"{kind} document {doc.get('title')} converts to {qs[0]}, after to_dict() and reloading to {qs[1]}, after YAML to {qs[2]}", [kind, doc.get("title")])
            if doc.get("title") in ("ODD", "ODD2"):       # detections whose names are keywords of other document kinds are detections like any other
                want_q = {"ODD": ['f="a" and not g="b" or h="c" or i="d"'], "ODD2": ['f="a" or g="b"']}[doc["title"]]
                try:
                    from sigma.backends.test import TextQueryTestBackend as _TB
                    got_q = [[str(q) for q in _TB().convert_rule(SigmaRule.from_dict(copy.deepcopy(o)))] for o in (doc, d1, norm(d3))]
                except Exception as e:
                    got_q = [f"{type(e).__name__}: {e}"]
                if any(g != want_q for g in got_q):
                    fail("document-queries:" + doc["title"], f"rule document {doc['title']} with detections named {sorted(k for k in doc['detection'] if k != 'condition')} converts (original / reloaded / YAML) to {got_q}, expected {want_q} each", ["rule", doc["title"]])
            if norm(d1) != norm(d2) or norm(d1) != norm(d3):
                diff = [k for k in set(norm(d1)) | set(norm(d2)) if norm(d1).get(k) != norm(d2).get(k) or norm(d1).get(k) != norm(d3).get(k)]
                fail("document", f"{kind} document {doc.get('title')}: dict form differs after reload in {diff}: {[(norm(d1).get(k), norm(d2).get(k), norm(d3).get(k)) for k in diff][:2]}", [kind])
        # --- rules loaded from files (they carry a source location): the dict form is that of the same document loaded from a dict
        import tempfile, shutil, os
        from sigma.collection import SigmaCollection
        tmpd = tempfile.mkdtemp(prefix="c06_")
        try:
            for i, doc in enumerate((RULE_OK, {**RULE_OK, "title": "LS", "logsource": {"category": "c", "definition": "d", "myattr": "x"}})):
                ev += 1
                nontriv += 1
                open(os.path.join(tmpd, f"r{i}.yml"), "w").write(yaml.safe_dump(norm(SigmaRule.from_dict(copy.deepcopy(doc)).to_dict())))
            for r in SigmaCollection.load_ruleset([tmpd]).rules:
                dfile = r.to_dict()
                dplain = SigmaRule.from_dict(copy.deepcopy(dfile)).to_dict()
                if norm(dfile) != norm(dplain):
                    diff = [k for k in set(dfile) | set(dplain) if norm(dfile).get(k) != norm(dplain).get(k)]
                    fail("document-from-file", f"rule {r.title!r} loaded from a file: dict form differs after reload in {diff}: {[(dfile.get(k), dplain.get(k)) for k in diff][:2]}", ["file", r.title])
        finally:
            shutil.rmtree(tmpd, ignore_errors=True)
        # --- filtered rules: a rule a filter was applied to is written with the filter's detections AND the narrowed condition
        from .c12_bounded import equivalent as _equiv
        for fi, (rdoc, fdoc) in enumerate([({"title": "r", "name": "r", "logsource": {"category": "c"}, "detection": {"sel": {"f": "a"}, "flt": {"g": "b"}, "condition": ["sel and not flt", "sel"]}},
                                            {"title": "F", "logsource": {"category": "c"}, "filter": {"rules": ["r"], "adm": {"User|startswith": "adm"}, "condition": "not adm"}}),
                                           ({"title": "r", "name": "r", "logsource": {"category": "c", "product": "p"}, "detection": {"s1": {"f": "a"}, "s2": {"f": "b"}, "condition": "1 of s*"}},
                                            {"title": "F", "logsource": {"category": "c"}, "filter": {"rules": "any", "x": {"u": 1}, "y": {"v": 2}, "condition": "not 1 of them"}})]):
            ev += 1
            nontriv += 1
            try:
                col = SigmaCollection.from_dicts([copy.deepcopy(rdoc), copy.deepcopy(fdoc)])
                q0 = TextQueryTestBackend().convert(col)
                d1 = col.rules[0].to_dict()
                q1 = TextQueryTestBackend().convert_rule(SigmaRule.from_dict(copy.deepcopy(d1)))
                q2 = TextQueryTestBackend().convert_rule(SigmaRule.from_yaml(yaml.safe_dump(norm(d1))))
            except Exception as e:
                fail("filtered-rule", f"filtered rule {fi}: round trip raises {type(e).__name__}: {e}", ["filtered", fi])
                continue
            if not (len(q0) == len(q1) == len(q2) and all(_equiv(str(a), str(b)) and _equiv(str(a), str(c)) for a, b, c in zip(q0, q1, q2))):
                fail("filtered-rule", f"filtered rule {fi} converts to {q0}; written with to_dict() ({d1.get('detection', {}).get('condition')}) and loaded again it converts to {q1} / {q2}", ["filtered", fi])
        # --- after a single transformation: fails with a Sigma error, or reloads to the same queries
        transformations = [{"type": "field_name_mapping", "mapping": {"f": "g"}}, {"type": "field_name_mapping", "mapping": {"f": ["g", "h"]}}, {"type": "field_name_prefix", "prefix": "p."},
                           {"type": "field_name_suffix", "suffix": ".s"}, {"type": "drop_detection_item", "field_name_conditions": [{"type": "include_fields", "fields": ["g2"]}]},
                           {"type": "replace_string", "regex": "a", "replacement": "b"}, {"type": "map_string", "mapping": {"a": ["x", "y"]}}, {"type": "set_value", "value": "zz"},
                           {"type": "case", "method": "upper"}, {"type": "add_condition", "conditions": {"k": "v"}}, {"type": "value_placeholders"}, {"type": "wildcard_placeholders"},
                           {"type": "convert_type", "target_type": "str"}, {"type": "regex", "method": "plain"}, {"type": "hashes_fields", "valid_hash_algos": ["MD5"], "field_prefix": "File"}]
        rule_docs = [{"title": "t", "logsource": {"category": "c"}, "detection": {"sel": {"f": "a", "g2|contains": ["a", "b"]}, "kw": ["a"], "condition": "sel or kw"}},
                     {"title": "t", "logsource": {"category": "c"}, "detection": {"sel": {"f|fieldref": "f", "f2|expand": "%a%"}, "condition": "sel"}},
                     {"title": "t", "logsource": {"category": "c"}, "detection": {"sel": {"x|fieldref": "f", "y|fieldref|startswith": "f"}, "condition": "sel"}},
                     {"title": "t", "logsource": {"category": "c"}, "detection": {"sel": {"Hashes|contains": "MD5=0123"}, "lst": [{"f": 1}, {"f|re": "a+"}], "condition": "sel or lst"}},
                     {"title": "t", "logsource": {"category": "c"}, "detection": {"sel": {"f|windash|contains": "-a", "g|base64offset|contains": "xy", "h|wide|base64": "z"}, "num": {"f": [1, 2]}, "condition": "sel and num"}},
                     # case-sensitive values: `cased` is part of the meaning and must survive a value transformation and the round trip
                     {"title": "t", "logsource": {"category": "c"}, "detection": {"sel": {"f|cased": "a", "g|cased|contains": "ab", "h|endswith|cased": "xa"}, "condition": "sel"}}]
        import json
        kfile = os.path.join(VERIF, "known", "c06_after_transformation.json")
        KNOWN_T = set(tuple(x) for x in json.load(open(kfile))) if os.path.exists(kfile) else set()
        failing_t = []
        for (ti, t), (di, doc) in itertools.product(enumerate(transformations), enumerate(rule_docs)):
            ev += 1
            nontriv += 1
            try:
                p = ProcessingPipeline.from_dict({"vars": {"a": ["v1", "v2"]}, "transformations": [copy.deepcopy(t)]})
                r = SigmaRule.from_dict(copy.deepcopy(doc))
                if (ti + di) % 2:
                    r.to_dict()         # history: the rule was written out once BEFORE it is transformed (the second writing must describe the rule as it is then)
                p.apply(r)
                q0 = TextQueryTestBackend().convert_rule(r)
            except SigmaError:
                continue
            except Exception as e:
                continue
            try:
                d1 = r.to_dict()
            except SigmaError:
                continue        # "serialisation fails with a Sigma error rather than emitting a dict with a different meaning"
            except Exception as e:
                fail("after-transformation-crash", f"after {t['type']} on {doc['detection']}: to_dict() raises {type(e).__name__}: {e}", [t["type"]])
                continue
            try:
                q1 = TextQueryTestBackend().convert_rule(SigmaRule.from_dict(copy.deepcopy(d1)))
            except Exception as e:
                fail("after-transformation", f"after {t['type']} on {doc['detection']}: to_dict() gives {d1.get('detection')} which does not reload: {type(e).__name__}: {e}", [t["type"]])
                continue
            if q0 != q1:
                failing_t.append([ti, di])
                fail("after-transformation", ("KNOWN-C06T " if (ti, di) in KNOWN_T else "") + f"after {t['type']} on {doc['detection']}: to_dict() gives {d1.get('detection')} / {d1['detection'].get('condition') if isinstance(d1.get('detection'), dict) else ''}, which converts to {q1} instead of {q0}", [t["type"]])
        # --- key collisions: several fields folded onto one name by a field mapping; the merged plain form (f|all: [...]) must keep every value
        from .c12_bounded import equivalent

        class PlainB(TextQueryTestBackend):      # no in-lists, no startswith / endswith / contains operators: every comparison is one atom field="pattern"
            convert_or_as_in = False
            convert_and_as_in = False
            startswith_expression = endswith_expression = contains_expression = wildcard_match_expression = None
        opts = [(m, v) for m in ("", "|all", "|contains") for v in ("p", ["p", "q"])]
        coll_fail = {}
        for n in (2, 3):
            for combo in itertools.product(opts, repeat=n):
                det = {}
                for fld, (m, v) in zip("abc", combo):
                    vv = v if isinstance(v, str) else list(v)
                    det[fld + m] = (fld + vv) if isinstance(vv, str) else [fld + x for x in vv]
                ev += 1
                nontriv += 1
                doc = {"title": "t", "logsource": {"category": "c"}, "detection": {"sel": det, "condition": "sel"}}
                try:
                    pl = ProcessingPipeline.from_dict({"transformations": [{"type": "field_name_mapping", "mapping": {"a": "f", "b": "f", "c": "f"}}]})
                    r = SigmaRule.from_dict(copy.deepcopy(doc))
                    pl.apply(r)
                    q0 = PlainB().convert_rule(r)
                    d1 = r.to_dict()
                except SigmaError:
                    continue
                except Exception as e:
                    fail("collision-crash", f"fields a, b, c mapped to f on {det}: {type(e).__name__}: {e}", [str(det)])
                    continue
                try:
                    q1 = PlainB().convert_rule(SigmaRule.from_dict(copy.deepcopy(d1)))
                except Exception as e:
                    fail("collision", f"fields a, b, c mapped to f on {det}: to_dict() gives {d1.get('detection')}, which does not reload: {type(e).__name__}: {e}", [str(det)])
                    continue
                if len(q0) != len(q1) or not all(equivalent(str(x), str(y)) for x, y in zip(q0, q1)):
                    shape = tuple(m + ("[]" if isinstance(v, list) else "") for m, v in combo)
                    coll_fail[shape] = coll_fail.get(shape, 0) + 1
                    fail("collision:" + "/".join(shape), f"fields a, b, c mapped to f on {det}: to_dict() gives {d1.get('detection')}, which converts to {q1} instead of {q0}", [str(det)])
        if os.environ.get("C06_DUMP"):
            json.dump(failing_t, open(os.environ["C06_DUMP"], "w"))
        return {"evaluations": ev, "distinct_nontrivial": nontriv, "failures": fails, "failure_counts": seen,
                "bound": f"{len(keys)} field/modifier keys x {len(values)} values (+ type-specific values) ; 12 whole documents (rule in both date spellings, 9 correlation rules over all condition shapes incl. zero thresholds, extended conditions, aliases, generate; filter), correlation / filter documents also compared by their converted queries; {len(transformations)} transformations x {len(rule_docs)} rules; 2 filtered rules; 252 detections whose fields a, b, c (plain / all / contains, single / list values) are folded onto one field name",
                "rule": "distinct documents; non-trivial = loadable", "samples": samples, "exhaustive": True}
