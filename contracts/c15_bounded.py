"""C15 / C08 bounded stand-in: history independence on the real code.  A pool of rules (plus a filter) is converted in many orders on ONE
backend object with ONE pipeline object; every rule's result (queries or error) must be what a fresh backend with a fresh pipeline gives for
that rule alone.  Pipelines contain the transformations that keep state or rewrite objects in place."""
from __future__ import annotations
import copy, itertools, random
from pyvc.api import *

RULES = {
    "plain": {"title": "plain", "name": "plain", "logsource": {"category": "c", "product": "windows"}, "detection": {"s": {"f": "a", "g|contains": ["x", "y"]}, "condition": "s"}},
    "neg": {"title": "neg", "name": "neg", "logsource": {"category": "c", "product": "linux"}, "detection": {"s": {"f": "b"}, "t": {"Image|endswith": "\\\\cmd.exe", "ip|cidr": "10.0.0.0/8"}, "condition": "s and not t"}},
    "ph": {"title": "ph", "name": "ph", "logsource": {"category": "c", "product": "windows"}, "detection": {"s": {"User|expand": "%admins%", "h|re": "a.*b"}, "condition": "s"}},
    "two": {"title": "two", "name": "two", "logsource": {"category": "d"}, "detection": {"s1": {"k": 1}, "s2": {"k": 2}, "f_x": {"z": "q"}, "condition": ["s1 and not 1 of f_*", "1 of s*"]}},
    "bad": {"title": "bad", "name": "bad", "logsource": {"category": "c"}, "detection": {"s": {"User|expand": "%unknown%"}, "condition": "s"}},
    "lin_h": {"title": "lin_h", "name": "lin_h", "logsource": {"category": "c", "product": "linux"}, "fields": ["h", "User"], "detection": {"s": {"h": "x", "q|fieldref": "h"}, "condition": "s"}},
    "broken": {"title": "broken", "name": "broken", "logsource": {"category": "e"}, "detection": {"selection": {"a": 1}, "condition": "selection and not filter"}},
    "fixed": {"title": "fixed", "name": "fixed", "logsource": {"category": "e"}, "detection": {"selection": {"a": 1}, "filter": {"b": 2}, "condition": ["selection and not filter", "selection"]}},
    "badcased": {"title": "badcased", "name": "badcased", "logsource": {"category": "c", "product": "linux"}, "detection": {"s": {"User|expand|cased": "/home/%unknown%/*", "k": "v"}, "condition": "s"}},
    "strict": {"title": "strict", "name": "strict", "logsource": {"category": "m"}, "detection": {"s": {"fieldA": "probe"}, "condition": "s"}},
    "strictbad": {"title": "strictbad", "name": "strictbad", "logsource": {"category": "m"}, "detection": {"s": {"fieldA": "probe", "unmapped_field": "x"}, "condition": "s"}},      # fails the strict mapping check; the next rule must not
    # one condition object, rules whose compared attribute has a different TYPE (what the condition derives from one rule's value must not serve the next)
    "rev_num": {"title": "rev_num", "name": "rev_num", "rev": 5, "logsource": {"category": "n"}, "detection": {"s": {"k": "v"}, "condition": "s"}},
    "rev_low": {"title": "rev_low", "name": "rev_low", "rev": 1, "logsource": {"category": "n"}, "detection": {"s": {"k": "v"}, "condition": "s"}},
    "rev_str": {"title": "rev_str", "name": "rev_str", "rev": "abc", "logsource": {"category": "n"}, "detection": {"s": {"k": "v"}, "condition": "s"}},
    "rev_dt": {"title": "rev_dt", "name": "rev_dt", "rev": __import__("datetime").date(2024, 1, 1), "logsource": {"category": "n"}, "detection": {"s": {"k": "v"}, "condition": "s"}},
    "rev_none": {"title": "rev_none", "name": "rev_none", "rev": None, "logsource": {"category": "n"}, "detection": {"s": {"k": "v"}, "condition": "s"}},
    "rev_date": {"title": "rev_date", "name": "rev_date", "rev": "2024-01-01", "modified": "2024-01-01", "logsource": {"category": "n"}, "detection": {"s": {"k": "v"}, "condition": "s"}},
    "wd": {"title": "wd", "name": "wd", "logsource": {"category": "n"}, "detection": {"s": {"CommandLine|windash|contains": "-a", "k": "v"}, "condition": "s"}},
    "sel": {"title": "sel", "name": "sel", "logsource": {"category": "c", "product": "windows"}, "detection": {"sel_a": {"f": "1"}, "sel_b": {"f|exists": False}, "condition": "1 of sel_* and not sel_b"}},
    # the same TEXT with different meaning in different rules: a number and a string, a literal %x% and a placeholder, a plain and a
    # case-sensitive value (whatever a step remembers about one of them must not answer for the other)
    "portnum": {"title": "portnum", "name": "portnum", "logsource": {"category": "n"}, "detection": {"s": {"port": 8443}, "condition": "s"}},
    "portstr": {"title": "portstr", "name": "portstr", "logsource": {"category": "n"}, "detection": {"s": {"port": "8443"}, "condition": "s"}},
    "litph": {"title": "litph", "name": "litph", "logsource": {"category": "n"}, "detection": {"s": {"Path": ["%homedir%", "/root"]}, "condition": "s"}},
    "realph": {"title": "realph", "name": "realph", "logsource": {"category": "n"}, "detection": {"s": {"Path|expand": ["%homedir%", "/root"]}, "condition": "s"}},
    "casedA": {"title": "casedA", "name": "casedA", "logsource": {"category": "n"}, "detection": {"s": {"f|cased": "a"}, "condition": "s"}},
}
FILTER = {"title": "F", "logsource": {"category": "c"}, "filter": {"rules": "any", "adm": {"User|startswith": "adm"}, "condition": "not adm"}}
PIPELINE = {"name": "p", "priority": 10, "vars": {"admins": ["root", "admin"]}, "transformations": [
    # (before replace_string, which turns numbers into text)
    {"id": "strport", "type": "detection_item_failure", "message": "port must be a number", "detection_item_conditions": [{"type": "match_string", "cond": "any", "pattern": "^8443$"}], "rule_conditions": [{"type": "logsource", "category": "n"}]},
    {"id": "ac", "type": "add_condition", "conditions": {"source": "wineventlog"}, "rule_conditions": [{"type": "logsource", "product": "windows"}]},
    {"id": "st", "type": "set_state", "key": "index", "val": "win", "rule_conditions": [{"type": "logsource", "product": "windows"}]},
    {"id": "vp", "type": "value_placeholders", "include": ["admins"]},
    {"id": "fm", "type": "field_name_mapping", "mapping": {"f": ["f1", "f2"], "User": "user.name"}},
    {"id": "fmst", "type": "field_name_mapping", "mapping": {"h": "h_win"}, "field_name_conditions": [{"type": "processing_state", "key": "index", "val": "win"}]},
    {"id": "winmap", "type": "field_name_mapping", "mapping": {"user.name": "WinUser", "g": "gw"}, "rule_conditions": [{"type": "logsource", "product": "windows"}]},
    {"id": "rawsfx", "type": "field_name_suffix", "suffix": "_raw", "detection_item_conditions": [{"type": "processing_item_applied", "processing_item_id": "winmap"}], "detection_item_cond_not": True},
    {"id": "px", "type": "field_name_prefix", "prefix": "p."},
    {"id": "rs", "type": "replace_string", "regex": "^a$", "replacement": "aa"},
    # state written INSIDE a nested pipeline, read by a later item of the enclosing one
    {"id": "nestst", "type": "nest", "items": [{"id": "inner_st", "type": "set_state", "key": "nidx", "val": "nwin", "rule_conditions": [{"type": "logsource", "product": "windows"}]}]},
    {"id": "sfxn", "type": "field_name_suffix", "suffix": "_n", "rule_conditions": [{"type": "processing_state", "key": "nidx", "val": "nwin"}]},
    {"id": "revgate", "type": "field_name_suffix", "suffix": "_rev", "rule_conditions": [{"type": "rule_attribute", "attribute": "rev", "value": "3", "op": "gte"}]},
    {"id": "fail", "type": "rule_failure", "message": "unsupported", "rule_conditions": [{"type": "logsource", "category": "zzz"}]},
    # reads the field-mapping tracking of the pipeline it belongs to: fieldA is mapped by the backend's own (class-level) pipeline
    {"id": "strictmap", "type": "strict_field_mapping_failure", "rule_conditions": [{"type": "logsource", "category": "m"}]}],
    "postprocessing": [{"type": "embed", "prefix": "[", "suffix": "]"}, {"type": "template", "template": "{{ query }} fields={{ rule.fields | join(',') }}"}]}
# the fields list of a rule: set from the configuration, then edited per rule (the configuration must not drift with the rules converted)
PIPELINE["transformations"].insert(0, PIPELINE["transformations"].pop())          # the strict mapping check first: later items of this pipeline rename every field (which counts as mapped)
# (only for the rules of category n: the other rules keep the fields list they were written with - lin_h's is read by a later item)
PIPELINE["transformations"][2:2] = [{"id": "setf", "type": "set_field", "fields": ["host", "user"], "rule_conditions": [{"type": "logsource", "category": "n"}]},
                                    {"id": "addf", "type": "add_field", "field": "EventID", "rule_conditions": [{"type": "contains_field", "field": "port"}]},
                                    {"id": "remf", "type": "remove_field", "field": "user", "rule_conditions": [{"type": "contains_field", "field": "Path"}]}]


@register
class C15Bounded(Bounded):
    id = "C15.bounded.history_independence"
    props = ("C15", "C08")

    def run(self, tier, seed):
        from sigma.collection import SigmaCollection
        from sigma.backends.test import TextQueryTestBackend
        from sigma.processing.pipeline import ProcessingPipeline
        from sigma.exceptions import SigmaError
        rnd = random.Random(seed)
        ev = nontriv = 0
        seen, fails, samples = {}, [], []

        def fail(kind, text, inp):
            seen[kind] = seen.get(kind, 0) + 1
            if seen[kind] == 1:
                fails.append({"text": text, "input": inp})

        def backends():
            class NotEq(TextQueryTestBackend):
                convert_not_as_not_eq = True
                state_defaults = {"index": "main"}
                query_expression = "index={state[index]} {query}"

            class NoCidr(TextQueryTestBackend):
                cidr_expression = None
                field_not_exists_expression = None
            return {"default": TextQueryTestBackend, "noteq": NotEq, "nocidr": NoCidr}

        def outcome(backend, docs):
            """per rule name: tuple of queries, or the error type"""
            col = SigmaCollection.from_dicts(copy.deepcopy(docs))
            res = {}
            backend.collect_errors = True
            backend.errors = []
            backend.convert(col)
            errs = {getattr(r, "name", None): type(e).__name__ for r, e in backend.errors}
            for r in col.rules:
                if r.name in errs:
                    res[r.name] = ("error", errs[r.name])
                else:
                    try:
                        res[r.name] = tuple(str(q) for q in r.get_conversion_result())
                    except SigmaError as e:
                        res[r.name] = ("no-result", type(e).__name__)
            return res
        names = list(RULES)
        # references first, each in a process of its own (forked from this one before anything was converted here): module-level and
        # class-level state left by one conversion cannot reach another reference
        from pyvc.api import fork_map

        def ref(job):
            bname, with_filter, n = job
            B = backends()[bname]
            docs = [RULES[n]] + ([FILTER] if with_filter else [])
            try:
                return list(outcome(B(ProcessingPipeline.from_dict(copy.deepcopy(PIPELINE)), collect_errors=True), docs)[n])
            except Exception as e:
                return ["crash", type(e).__name__]
        jobs = [(bname, wf, n) for bname in backends() for wf in (False, True) for n in names]
        refs = dict(zip(jobs, fork_map(ref, jobs)))
        for bname in backends():
            for with_filter in (False, True):
                alone = {n: tuple(refs[(bname, with_filter, n)]) for n in names}
                perms = []          # random orders (the number of all orders grows with the factorial of the number of rules)
                while len(perms) < (8 if tier == "quick" else 60):
                    pm = tuple(rnd.sample(names, len(names)))
                    if pm not in perms:
                        perms.append(pm)
                B = backends()[bname]
                b = B(ProcessingPipeline.from_dict(copy.deepcopy(PIPELINE)), collect_errors=True)      # ONE object for all orders (and a second instance of the class in between)
                for perm in perms:
                    ev += 1
                    nontriv += 1
                    docs = [RULES[n] for n in perm] + ([FILTER] if with_filter else [])
                    try:
                        got = outcome(b, docs)
                    except Exception as e:
                        fail("crash", f"backend {bname}, order {perm}, filter {with_filter}: {type(e).__name__}: {e}", [bname, list(perm), with_filter])
                        continue
                    try:        # a second backend object of the same class with a pipeline object of ITS OWN (they still share the class-level backend pipeline) ...
                        B(ProcessingPipeline.from_dict(copy.deepcopy(PIPELINE))).convert(SigmaCollection.from_dicts([copy.deepcopy(RULES["strict"]), copy.deepcopy(RULES["plain"])]))
                    except SigmaError:
                        pass
                    try:        # a second backend object of the same class that is given the SAME pipeline object (its items are re-bound to that backend's combined pipeline) ...
                        B(b.processing_pipeline).convert(SigmaCollection.from_dicts([copy.deepcopy(RULES["lin_h"]), copy.deepcopy(RULES["plain"])]))
                    except SigmaError:
                        pass
                    for other in backends().values():       # ... and instances of the other backend classes are created and used in between (the LAST object created before the next order is of another class)
                        try:
                            other(ProcessingPipeline.from_dict(copy.deepcopy(PIPELINE))).convert(SigmaCollection.from_dicts([copy.deepcopy(RULES["sel"])]))
                        except SigmaError:
                            pass
                    for n in perm:
                        if got.get(n) != alone[n]:
                            fail(f"{bname}:{n}", f"backend {bname}{' with filter' if with_filter else ''}: rule {n!r} converted in the order {list(perm)} gives {got.get(n)}, alone it gives {alone[n]}", [bname, list(perm), with_filter, n])
                if len(samples) < 3:
                    samples.append({"backend": bname, "filter": with_filter, "alone": {k: str(v)[:120] for k, v in alone.items()}})
        # a rule the backend cannot convert for a reason it did not foresee must still be ONE error record, the other rules unchanged
        for kwkey in ("|windash", "|base64offset|contains"):
            ev += 1
            nontriv += 1
            docs3 = [copy.deepcopy(RULES["portnum"]), {"title": "kw", "name": "kw", "logsource": {"category": "n"}, "detection": {"s": {kwkey: ["-a"]}, "condition": "s"}}, copy.deepcopy(RULES["litph"])]
            b3 = TextQueryTestBackend(collect_errors=True)
            try:
                got3 = outcome(b3, docs3)
                ok3 = got3.get("portnum") == tuple(TextQueryTestBackend().convert(SigmaCollection.from_dicts([copy.deepcopy(RULES["portnum"])]))) and got3.get("litph") is not None and got3.get("litph")[0] != "error"
                what3 = str(got3)[:300]
            except Exception as e:
                ok3, what3 = False, f"{type(e).__name__}: {e}"
            if not ok3:
                known3 = "Unexpected value type class in condition parse tree: SigmaExpansion" in what3
                fail("keyword-expansion" + (":known" if known3 else ""), ("KNOWN-D39 " if known3 else "") + f"collection [portnum, a keyword detection with the key {kwkey!r}, litph] on a collecting backend: {what3} - expected the two other rules converted and one error record (or a query) for the keyword rule", [kwkey])
        # backend options of one backend object are not visible to a later, different backend object
        def probe(_):
            pl = ProcessingPipeline.from_dict({"name": "q", "priority": 10, "transformations": [{"type": "value_placeholders", "include": ["backend_index"]}]})
            rule = {"title": "o", "name": "o", "logsource": {"category": "c"}, "detection": {"s": {"User|expand": "%backend_index%"}, "condition": "s"}}
            try:
                return ["ok"] + [str(q) for q in TextQueryTestBackend(pl).convert(SigmaCollection.from_dicts([rule]))]
            except SigmaError as e:
                return ["error", type(e).__name__]
        fresh = fork_map(probe, [0, 1])[0]
        for user_pipeline in (None, ProcessingPipeline.from_dict({"name": "novars", "priority": 5, "transformations": [{"type": "field_name_suffix", "suffix": ".x"}]})):
            ev += 1
            nontriv += 1
            TextQueryTestBackend(user_pipeline, index="prod", other_option="zz").convert(SigmaCollection.from_dicts([copy.deepcopy(RULES["plain"])]))
            after = probe(0)
            if after != fresh:
                fail("backend-options", f"a rule using %backend_index% converts to {fresh} in a fresh process, and to {after} after another backend object was used with the option index='prod'", ["backend options"])
        # two pipelines that render the SAME template file with DIFFERENT helper files: creating the second must not change what the first renders
        import tempfile, shutil, os
        tdir = tempfile.mkdtemp(prefix="c15_tmpl_")
        try:
            open(os.path.join(tdir, "t.j2"), "w").write("{{ query }} by {{ who() }}")
            for nm in ("A", "B"):
                open(os.path.join(tdir, f"helpers_{nm}.py"), "w").write(f"def who():\n    return 'helper {nm}'\nvars = {{'who': who}}\n")
            mkp = lambda nm: ProcessingPipeline.from_dict({"name": nm, "priority": 10, "postprocessing": [{"type": "template", "path": tdir, "template": "t.j2", "vars": os.path.join(tdir, f"helpers_{nm}.py")}]}, allow_template_vars=True)
            rule_t = {"title": "t", "logsource": {"category": "c"}, "detection": {"s": {"f": "v"}, "condition": "s"}}
            for inline in (False, True):
                ev += 1
                nontriv += 1
                try:
                    if inline:
                        mk2 = lambda nm: ProcessingPipeline.from_dict({"name": nm, "priority": 10, "postprocessing": [{"type": "template", "template": "{{ query }} by {{ who() }}", "vars": os.path.join(tdir, f"helpers_{nm}.py")}]}, allow_template_vars=True)
                    else:
                        mk2 = mkp
                    ba = TextQueryTestBackend(mk2("A"))
                    first = ba.convert(SigmaCollection.from_dicts([copy.deepcopy(rule_t)]))
                    bb = TextQueryTestBackend(mk2("B"))
                    second = ba.convert(SigmaCollection.from_dicts([copy.deepcopy(rule_t)]))
                    other = bb.convert(SigmaCollection.from_dicts([copy.deepcopy(rule_t)]))
                except Exception as e:
                    first, second, other = f"{type(e).__name__}: {e}", None, None
                if first != ['f="v" by helper A'] or second != first or other != ['f="v" by helper B']:
                    fail("template-helpers", f"two pipelines rendering the same {'inline text' if inline else 'template file'} with different vars files: first pipeline {first}, again after the second was created {second}, second pipeline {other}", ["template helpers", inline])
        finally:
            shutil.rmtree(tdir, ignore_errors=True)
        return {"evaluations": ev, "distinct_nontrivial": nontriv, "failures": fails[:20], "failure_counts": seen,
                "bound": f"{len(RULES)} rules (negation, CIDR, placeholders incl. an unresolvable one, multi-condition, selectors, exists) x {'8' if tier == 'quick' else '60'} orders x 3 backend configurations (default, not-equals mode with "
                         "state defaults, no native CIDR / no not-exists) x with / without a filter; one backend and one pipeline object per configuration",
                "rule": "distinct (backend, filter, order)", "samples": samples, "exhaustive": False}
