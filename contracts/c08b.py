"""C08 / C14 / C15 (part 2) - the query post-processing transformations and finalizers (sigma/processing/postprocessing.py,
finalization.py): each returns the documented function of the query (or query list) it is given and of nothing else - in particular the
parsed JSON template of the `json` transformation is the same after every query."""
from __future__ import annotations
import copy as _copy
import z3
from pyvc.api import *
from pyvc.values import *
from pyvc import ops

PP = "sigma.processing.postprocessing"
FI = "sigma.processing.finalization"
TBASE = "sigma.processing.transformations.base"


def marks(E):
    E._c08b_marks = []
    E.summaries[f"{TBASE}:Transformation.processing_item_applied"] = lambda I, so, a, k: E._c08b_marks.append(a[0])


@register
class EmbedApply(Contract):
    """EmbedQueryTransformation.apply: prefix + query + suffix for a string query (the rule is marked); anything else is a TypeError"""
    id = "C08.EmbedQueryTransformation.apply"
    target = f"{PP}:EmbedQueryTransformation.apply"
    props = ("C08", "C14")
    cases = ("str", "dict")

    def setup(self, E):
        marks(E)

    def args(self, I, case):
        del I.E._c08b_marks[:]
        pre, suf, q = I.fresh("prefix", "str"), I.fresh("suffix", "str"), I.fresh("query", "str")
        rule = SObj("Rule", {})
        me = SObj(I.E.index.lookup(f"{PP}:EmbedQueryTransformation"), {"prefix": pre, "suffix": suf}, lazy=True)
        return {"self": me, "args": [rule, q if case == "str" else {"q": q}], "p": (pre, suf, q), "rule": rule, "case": case}

    def post(self, I, inp, r):
        pre, suf, q = inp["p"]
        c = I.ctx
        c.require(inp["case"] == "str", "a query that is not a string is rejected")
        c.require(isinstance(r, Sym) and r.kind == "str" and r.t == z3.Concat(pre.t, q.t, suf.t), "prefix + query + suffix")
        c.require(len(I.E._c08b_marks) == 1 and I.E._c08b_marks[0] is inp["rule"], "the rule is marked as processed by the item")

    def raises(self, I, inp, exc):
        I.ctx.require(inp["case"] == "dict" and exc_name(exc) == "TypeError", f"TypeError for a non-string query only (got {exc_name(exc)})")

    def frame_ok(self, I, inp, obj, name):
        return False


@register
class SimpleTemplateApply(Contract):
    """QuerySimpleTemplateTransformation.apply: the template formatted with query = THIS query, rule = THIS rule, pipeline = the pipeline
    the transformation belongs to now"""
    id = "C08.QuerySimpleTemplateTransformation.apply"
    target = f"{PP}:QuerySimpleTemplateTransformation.apply"
    props = ("C08", "C14", "C15")

    def args(self, I):
        calls = []
        out = I.fresh("formatted", "str")
        t = SObj("Template", {"format": NativeFn("format", lambda I2, a, k: (calls.append((list(a), dict(k))), out)[1])})
        rule, q, pl = SObj("Rule", {}), I.fresh("query", "str"), SObj("Pipeline", {})
        me = SObj(I.E.index.lookup(f"{PP}:QuerySimpleTemplateTransformation"), {"template": t, "_pipeline": pl}, lazy=True)
        return {"self": me, "args": [rule, q], "calls": calls, "out": out, "rule": rule, "q": q, "pl": pl}

    def post(self, I, inp, r):
        c = inp["calls"]
        I.ctx.require(r is inp["out"] and len(c) == 1 and c[0][0] == [] and set(c[0][1]) == {"query", "rule", "pipeline"} and c[0][1]["query"] is inp["q"] and c[0][1]["rule"] is inp["rule"] and c[0][1]["pipeline"] is inp["pl"],
                      "formatted once with this query, this rule and the current pipeline")

    def frame_ok(self, I, inp, obj, name):
        return False


JSON_SHAPES = {
    "top": {"query": "%QUERY%", "n": 1},
    "nested": {"request": {"bool": {"filter": [{"query_string": {"query": "%QUERY%"}}, "%QUERY%", 7]}}, "query": "%QUERY%", "keep": "x%QUERY%"},
    "list": ["%QUERY%", ["%QUERY%", {"a": "%QUERY%"}], "other"],
    "scalar": "%QUERY%",
    "none": {"a": [1, 2.5, "b", None, True]},
}


def json_expected(v, q):
    if isinstance(v, dict):
        return {k: json_expected(x, q) for k, x in v.items()}
    if isinstance(v, list):
        return [json_expected(x, q) for x in v]
    return q if isinstance(v, str) and v == "%QUERY%" else v


def same_structure(a, b):
    if isinstance(a, dict) and isinstance(b, dict):
        return list(a) == list(b) and all(same_structure(a[k], b[k]) for k in a)
    if isinstance(a, list) and isinstance(b, list):
        return len(a) == len(b) and all(same_structure(x, y) for x, y in zip(a, b))
    if isinstance(a, Sym) or isinstance(b, Sym):
        return a is b
    return type(a) is type(b) and a == b


@register
class JSONReplacePlaceholder(Contract):
    """EmbedQueryInJSONTransformation._replace_placeholder: a structure like the template in which every string `%QUERY%`, at any depth,
    is the query and everything else is as in the template - and the TEMPLATE is the same afterwards (the next query starts from it)"""
    id = "C08.EmbedQueryInJSONTransformation._replace_placeholder"
    target = f"{PP}:EmbedQueryInJSONTransformation._replace_placeholder"
    props = ("C08", "C15", "C14")
    cases = tuple(JSON_SHAPES)

    def args(self, I, case):
        q = I.fresh("query", "str")
        v = _copy.deepcopy(JSON_SHAPES[case])
        me = SObj(I.E.index.lookup(f"{PP}:EmbedQueryInJSONTransformation"), {}, lazy=True)
        return {"self": me, "args": [v, q], "v": v, "q": q, "case": case}

    def post(self, I, inp, r):
        c = I.ctx
        c.require(same_structure(I.force(r) if not isinstance(r, (dict, list, str, Sym)) else r, json_expected(JSON_SHAPES[inp["case"]], inp["q"])), "every %QUERY% string at any depth is replaced by the query, everything else kept")
        c.require(same_structure(inp["v"], JSON_SHAPES[inp["case"]]), "the template structure handed in is unchanged", kind="FRAME")

    def frame_ok(self, I, inp, obj, name):
        return False


@register
class JSONApply(Contract):
    """EmbedQueryInJSONTransformation.apply: the JSON text of the template with the placeholders replaced by THIS query; the parsed
    template is untouched, so the n-th query is embedded like the first"""
    id = "C08.EmbedQueryInJSONTransformation.apply"
    target = f"{PP}:EmbedQueryInJSONTransformation.apply"
    props = ("C08", "C15", "C14")
    cases = ("nested", "top")
    assumed = ["json.dumps is external: a function of the structure it is given"]

    def setup(self, E):
        marks(E)
        E._c08b_dumped = []
        E.externals["json.dumps"] = lambda I, a, k: (E._c08b_dumped.append(a[0]), I.fresh("json_text", "str"))[1]

    def args(self, I, case):
        del I.E._c08b_marks[:]
        del I.E._c08b_dumped[:]
        q = I.fresh("query", "str")
        tpl = _copy.deepcopy(JSON_SHAPES[case])
        rule = SObj("Rule", {})
        me = SObj(I.E.index.lookup(f"{PP}:EmbedQueryInJSONTransformation"), {"parsed_json": tpl}, lazy=True)
        return {"self": me, "args": [rule, q], "tpl": tpl, "q": q, "case": case, "rule": rule}

    def post(self, I, inp, r):
        c, d = I.ctx, I.E._c08b_dumped
        c.require(len(d) == 1 and same_structure(I.force(d[0]) if not isinstance(d[0], (dict, list)) else d[0], json_expected(JSON_SHAPES[inp["case"]], inp["q"])), "the structure written out is the template with this query in place of every placeholder")
        c.require(inp["self"].fields["parsed_json"] is inp["tpl"] and same_structure(inp["tpl"], JSON_SHAPES[inp["case"]]), "the parsed template is the same afterwards", kind="FRAME")
        c.require(len(I.E._c08b_marks) == 1 and I.E._c08b_marks[0] is inp["rule"], "the rule is marked")

    def frame_ok(self, I, inp, obj, name):
        return False


@register
class NestedPostprocessingApply(Contract):
    """NestedQueryPostprocessingTransformation.apply: the query goes through the nested pipeline's post-processing for THIS rule; the
    identifiers of the nested items that applied are added to the enclosing pipeline's (when there is one)"""
    id = "C08.NestedQueryPostprocessingTransformation.apply"
    target = f"{PP}:NestedQueryPostprocessingTransformation.apply"
    props = ("C08", "C13", "C14")
    cases = (True, False)

    def setup(self, E):
        marks(E)

    def args(self, I, case):
        del I.E._c08b_marks[:]
        calls = []
        out, q, rule = I.fresh("out", "str"), I.fresh("query", "str"), SObj("Rule", {})
        nested = SObj("Pipeline", {"postprocess_query": NativeFn("pq", lambda I2, a, k: (calls.append(list(a)), out)[1]), "applied_ids": {"inner1", "inner2"}})
        outer_ids = {"outer"}
        outer = SObj("Pipeline", {"applied_ids": outer_ids}) if case else None
        me = SObj(I.E.index.lookup(f"{PP}:NestedQueryPostprocessingTransformation"), {"_nested_pipeline": nested, "_pipeline": outer}, lazy=True)
        return {"self": me, "args": [rule, q], "calls": calls, "out": out, "q": q, "rule": rule, "outer_ids": outer_ids, "nested": nested, "case": case}

    def post(self, I, inp, r):
        c = I.ctx
        c.require(r is inp["out"] and len(inp["calls"]) == 1 and inp["calls"][0][0] is inp["rule"] and inp["calls"][0][1] is inp["q"], "the result of the nested post-processing of this query for this rule")
        c.require(inp["outer_ids"] == ({"outer", "inner1", "inner2"} if inp["case"] else {"outer"}), "the nested applied identifiers are added to the enclosing pipeline's")
        c.require(inp["nested"].fields["applied_ids"] == {"inner1", "inner2"}, "the nested pipeline's own record is not modified here", kind="FRAME")

    def frame_ok(self, I, inp, obj, name):
        return False


@register
class ConcatFinalizer(Contract):
    """ConcatenateQueriesFinalizer.apply: prefix + the queries joined by the separator, in order + suffix"""
    id = "C08.ConcatenateQueriesFinalizer.apply"
    target = f"{FI}:ConcatenateQueriesFinalizer.apply"
    props = ("C08", "C14")
    cases = (0, 1, 2, 3)

    def args(self, I, case):
        pre, suf, sep = I.fresh("prefix", "str"), I.fresh("suffix", "str"), I.fresh("separator", "str")
        qs = [I.fresh(f"q{i}", "str") for i in range(case)]
        me = SObj(I.E.index.lookup(f"{FI}:ConcatenateQueriesFinalizer"), {"prefix": pre, "suffix": suf, "separator": sep}, lazy=True)
        return {"self": me, "args": [list(qs)], "p": (pre, suf, sep), "qs": qs}

    def post(self, I, inp, r):
        pre, suf, sep = inp["p"]
        parts = [pre.t]
        for i, q in enumerate(inp["qs"]):
            if i:
                parts.append(sep.t)
            parts.append(q.t)
        parts.append(suf.t)
        I.ctx.require(isinstance(r, Sym) and r.kind == "str" and r.t == z3.Concat(*parts), "prefix + separator.join(queries) + suffix")

    def frame_ok(self, I, inp, obj, name):
        return False


@register
class NestedFinalizerApply(Contract):
    """NestedFinalizer.apply / __post_init__: the queries are finalized by a pipeline made of exactly the configured finalizers"""
    id = "C08.NestedFinalizer.apply"
    target = f"{FI}:NestedFinalizer.apply"
    props = ("C08", "C14")

    def args(self, I):
        calls = []
        out = SObj("Output", {})
        qs = [I.fresh("q0", "str")]
        me = SObj(I.E.index.lookup(f"{FI}:NestedFinalizer"), {"_nested_pipeline": SObj("Pipeline", {"finalize": NativeFn("finalize", lambda I2, a, k: (calls.append(a[0]), out)[1])})}, lazy=True)
        return {"self": me, "args": [qs], "calls": calls, "out": out, "qs": qs}

    def post(self, I, inp, r):
        I.ctx.require(r is inp["out"] and len(inp["calls"]) == 1 and inp["calls"][0] is inp["qs"], "what the nested pipeline's finalize returns for these queries")

    def frame_ok(self, I, inp, obj, name):
        return False


@register
class NestedFinalizerPostInit(Contract):
    id = "C08.NestedFinalizer.__post_init__"
    target = f"{FI}:NestedFinalizer.__post_init__"
    props = ("C08", "C14")
    __doc__ = "NestedFinalizer.__post_init__: the nested pipeline consists of exactly the configured finalizers (no items, no post-processing)"

    def setup(self, E):
        E._c08b_built = []
        E.summaries["sigma.processing.pipeline:ProcessingPipeline"] = lambda I, so, a, k: (E._c08b_built.append((list(a), dict(k))), SObj("NestedPipeline", {}))[1]

    def args(self, I):
        del I.E._c08b_built[:]
        fs = [SObj("F1", {}), SObj("F2", {})]
        me = SObj(I.E.index.lookup(f"{FI}:NestedFinalizer"), {"finalizers": fs}, lazy=True)
        return {"self": me, "args": [], "fs": fs}

    def post(self, I, inp, r):
        b = I.E._c08b_built
        I.ctx.require(len(b) == 1 and b[0][0] == [] and set(b[0][1]) == {"finalizers"} and b[0][1]["finalizers"] is inp["fs"] and isinstance(inp["self"].fields.get("_nested_pipeline"), SObj),
                      "one pipeline, built from the configured finalizers only")

    def frame_ok(self, I, inp, obj, name):
        return obj is inp["self"] and name == "_nested_pipeline"


class _FromDict(Contract):
    props = ("C08", "C16")
    cases = ("ok", "bad-parameter")

    def args(self, I, case):
        from pyvc.interp import PyRaise
        made = []

        def hook(I2, cinfo, args, kwargs):
            from pyvc.interp import UNBOUND
            if "BaseException" in I2.E.exc_class_chain(cinfo):
                return UNBOUND
            if case == "bad-parameter":
                raise PyRaise(ExcValue("TypeError", ("unexpected keyword argument",)))
            o = SObj(cinfo, {}, lazy=True)
            made.append((cinfo, list(args), dict(kwargs)))
            return o
        I.E.instantiate_hook = hook
        d = {"a": I.fresh("a", "str"), "b": 2}
        cls = I.E.index.lookup(self.cls)
        return {"self": ClassRef(cls), "args": [d], "d": d, "made": made, "case": case, "cls": cls}

    def post(self, I, inp, r):
        m = inp["made"]
        I.ctx.require(inp["case"] == "ok" and len(m) == 1 and m[0][0] is inp["cls"] and m[0][1] == [] and set(m[0][2]) == {"a", "b"} and m[0][2]["a"] is inp["d"]["a"], "the class it is called on, constructed with exactly the keys of the definition")

    def raises(self, I, inp, exc):
        I.ctx.require(inp["case"] == "bad-parameter" and exc_is(I, exc, "SigmaConfigurationError"), f"a parameter the class does not take is a SigmaConfigurationError (got {exc_name(exc)})")

    def frame_ok(self, I, inp, obj, name):
        return False


for _n, _c in (("Finalizer", f"{FI}:ConcatenateQueriesFinalizer"), ("Transformation", "sigma.processing.transformations.fields:AddFieldTransformation")):
    register(type(f"FromDict_{_n}", (_FromDict,), {"id": f"C08.{_n}.from_dict", "target": (f"{FI}:Finalizer.from_dict" if _n == "Finalizer" else f"{TBASE}:Transformation.from_dict"), "cls": _c,
                                                   "__doc__": f"{_n}.from_dict: cls(**definition); a parameter the class does not take is a configuration error"}))


@register
class FinalizerSetPipeline(Contract):
    """Finalizer.set_pipeline: bound once; re-binding is an error that keeps the first binding"""
    id = "C08.Finalizer.set_pipeline"
    target = f"{FI}:Finalizer.set_pipeline"
    props = ("C08", "C14")
    cases = (False, True)

    def args(self, I, case):
        old, new = SObj("Pipeline", {}), SObj("Pipeline", {})
        me = SObj(I.E.index.lookup(f"{FI}:Finalizer"), {"_pipeline": old if case else None}, lazy=True)
        return {"self": me, "args": [new], "old": old, "new": new, "case": case}

    def post(self, I, inp, r):
        I.ctx.require(not inp["case"] and inp["self"].fields["_pipeline"] is inp["new"], "an unbound finalizer is bound to the given pipeline; a bound one is not re-bound")

    def raises(self, I, inp, exc):
        I.ctx.require(inp["case"] and exc_is(I, exc, "SigmaTransformationError") and inp["self"].fields["_pipeline"] is inp["old"], f"re-binding fails and keeps the binding (got {exc_name(exc)})")

    def frame_ok(self, I, inp, obj, name):
        return obj is inp["self"] and name == "_pipeline"


@register
class ExternalValuesCache(Contract):
    """ExternalSourceBaseTransformation._get_values (file / HTTP / command placeholders): values are cached only AFTER they were fetched and
    parsed; when the fetch or the parsing fails the error propagates and NOTHING is cached, so the next rule that uses the placeholder fails
    the same way (it does not silently get an empty list); a filled cache is returned as it is"""
    id = "C08.ExternalSourceBaseTransformation._get_values[cache]"
    target = "sigma.processing.transformations.external:ExternalSourceBaseTransformation._get_values"
    props = ("C08", "C15", "C17")
    cases = ("ok", "ok-filtered", "fetch-fails", "parse-fails", "cached")

    def setup(self, E):
        from pyvc.interp import PyRaise
        E.summaries["sigma.processing.transformations.external:ExternalSourceBaseTransformation._external_sources_allowed"] = lambda I, so, a, k: True

    def args(self, I, case):
        from pyvc.interp import PyRaise
        idx = I.E.index
        err = SObj(idx.lookup("sigma.exceptions:SigmaTransformationError"), {"args": ("cannot read",)}, lazy=True)
        data = I.fresh("data", "str")
        v1, v2 = I.fresh("value1", "str"), I.fresh("value2", "str")

        def fetch(I2, a, k):
            if case == "fetch-fails":
                raise PyRaise(err)
            return data

        def parse(I2, a, k):
            if case == "parse-fails":
                raise PyRaise(err)
            return [v1, v2]
        keep1 = I.fresh("filter_keeps_value1", "bool")
        flt = SObj("Pattern", {"search": NativeFn("search", lambda I2, a, k: SOpt(z3.Not(keep1.t), SObj("Match", {})) if a[0] is v1 else SObj("Match", {}))}) if case == "ok-filtered" else None
        cached = [I.fresh("cached", "str")]
        me = SObj(idx.lookup("sigma.processing.transformations.external:ExternalSourceBaseTransformation"),
                  {"_values_cache": cached if case == "cached" else None, "_filter_pattern": flt, "_fetch_data": NativeFn("_fetch_data", fetch), "_parse_data": NativeFn("_parse_data", parse)}, lazy=True)
        return {"self": me, "args": [], "v": (v1, v2), "keep1": keep1, "cached": cached, "case": case, "err": err}

    def post(self, I, inp, r):
        case, me = inp["case"], inp["self"]
        c = I.ctx
        c.require(case in ("ok", "ok-filtered", "cached"), "a failed fetch / parse does not return values")
        r = I.force(r) if not isinstance(r, list) else r
        if case == "cached":
            c.require(r is inp["cached"] and me.fields["_values_cache"] is inp["cached"], "a filled cache is returned as it is")
            return
        v1, v2 = inp["v"]
        if case == "ok":
            c.require(isinstance(r, list) and len(r) == 2 and r[0] is v1 and r[1] is v2, "the parsed values")
        else:
            c.require(isinstance(r, list) and r[-1] is v2 and z3.If(inp["keep1"].t, z3.BoolVal(len(r) == 2 and r[0] is v1), z3.BoolVal(len(r) == 1)), "the parsed values the filter keeps, in order")
        c.require(me.fields["_values_cache"] is r or (isinstance(me.fields["_values_cache"], list) and list(me.fields["_values_cache"]) == list(r)), "... which are cached")

    def raises(self, I, inp, exc):
        case, me = inp["case"], inp["self"]
        I.ctx.require(case in ("fetch-fails", "parse-fails") and exc is inp["err"], f"the error of the fetch / parse propagates unchanged (got {exc_name(exc)})")
        I.ctx.require(me.fields["_values_cache"] is None, "nothing is cached when the fetch or the parsing failed: the next use fails the same way", kind="FRAME")

    def frame_ok(self, I, inp, obj, name):
        return obj is inp["self"] and name == "_values_cache"


@register
class ConvertRuleLazyInit(Contract):
    """Backend.convert_rule called directly: a backend that has no combined pipeline yet initialises it for the REQUESTED output format
    (the output-format stage of that format, not of the default one); a backend that has one keeps it"""
    id = "C08.Backend.convert_rule[lazy init]"
    target = "sigma.conversion.base:Backend.convert_rule"
    props = ("C08", "C14")
    cases = ("never-initialised", "none", "initialised")

    def setup(self, E):
        E._c08b_init = []

        def s_init(I, so, a, k):
            E._c08b_init.append((list(a), dict(k)))
            so.fields["last_processing_pipeline"] = so.ghost["fresh_pipe"]
        E.summaries["sigma.conversion.base:Backend.init_processing_pipeline"] = s_init

    def args(self, I, case):
        del I.E._c08b_init[:]
        idx = I.E.index
        applied = []
        mk = lambda tag: SObj("Pipeline", {"apply": NativeFn("apply", lambda I2, a, k: applied.append(tag)), "state": {}})
        old, fresh = mk("old"), mk("fresh")
        rule = SObj(idx.lookup("sigma.rule.rule:SigmaRule"), {"detection": SObj("Detections", {"parsed_condition": []}), "_backreferences": [], "_output": True,
                                                              "set_conversion_result": NativeFn("scr", lambda I2, a, k: None), "set_conversion_states": NativeFn("scs", lambda I2, a, k: None), "source": None}, lazy=True)
        f = {"collect_errors": False, "errors": [], "finalize_correlation_subqueries": True, "default_format": "default"}
        if case == "none":
            f["last_processing_pipeline"] = None
        elif case == "initialised":
            f["last_processing_pipeline"] = old
        me = SObj(idx.lookup("sigma.conversion.base:Backend"), f, lazy=(case != "never-initialised"))
        if case == "never-initialised":
            me.ghost["closed"] = True          # the attribute does not exist yet: reading it is an AttributeError, hasattr() is False
        me.ghost["fresh_pipe"] = fresh
        fmt = I.fresh("output_format", "str")
        return {"self": me, "args": [rule, fmt, None], "applied": applied, "fmt": fmt, "case": case}

    def post(self, I, inp, r):
        c, case, init = I.ctx, inp["case"], I.E._c08b_init
        if case == "initialised":
            c.require(init == [] and inp["applied"] == ["old"], "a backend that has a combined pipeline uses it")
        else:
            ok = len(init) == 1
            c.require(ok, "the combined pipeline is initialised once")
            if ok:
                a, k = init[0]
                got = a[0] if a else k.get("output_format")
                c.require(got is inp["fmt"], "... for the output format this conversion was asked for")
            c.require(inp["applied"] == ["fresh"], "the rule is processed by the pipeline that was just initialised")

    def frame_ok(self, I, inp, obj, name):
        return True
