"""C13 - a pipeline item acts exactly where its conditions hold (sigma/processing/pipeline.py).

Spec (A.5):  gate(conds, linking, negation, expr) = True                      if there are no conditions
                                                    neg(r)                    otherwise, r = expr.match(x) | linking(map(match, conds))
Class invariant established by ProcessingItemBase._check_conditions (precondition of every gate):
   expression given  => linking is None and conditions is a mapping;   no expression => linking in {any, all} and conditions is a list.
"""
from __future__ import annotations
import z3
from pyvc.api import *
from pyvc.values import *
from pyvc import ops

RESULT = z3.BoolSort()


def declare(E):
    for sort in ("RuleCond", "DICond", "FNCond"):
        for m in ("match", "match_detection_item", "match_field_name", "match_value"):
            E.opaque_methods[(sort, m)] = ((), "bool")
    for m in ("match", "match_detection_item", "match_field_name"):
        E.opaque_methods[("CondExpr", m)] = ((), "bool")
    E.opaque_methods[("CondExpr", "match_field_name")] = (("optstr",), "bool")
    E.opaque_methods[("FNCond", "match_field_name")] = (("optstr",), "bool")
    E.opaque_pytype["CondDict"] = "dict"
    E.opaque_truth["CondDict"] = lambda I, v: z3.Function("CondDict.nonempty", v.t.sort(), z3.BoolSort())(v.t)
    E.opaque_fields[("FieldRef", "field")] = "str"
    fr = E.index.lookup("sigma.types:SigmaFieldReference")
    E.opaque_isinstance["SigmaType"] = lambda I, v, cinfo: z3.Function("SigmaType.is_fieldref", v.t.sort(), z3.BoolSort())(v.t) if cinfo.qualname == fr.qualname else (_ for _ in ()).throw(OutsideSubset("isinstance"))


def group(I, prefix, condsort):
    """symbolic (expression, linking, conditions, negation) of one condition group satisfying the class invariant"""
    has_expr = z3.Bool(I.ctx.fresh_name(prefix + ".has_expr"))
    link_all = z3.Bool(I.ctx.fresh_name(prefix + ".link_all"))
    expr = SOpt(z3.Not(has_expr), I.fresh(prefix + ".expr", "opaque", "CondExpr"))
    linking = SUnion([(has_expr, None), (z3.And(z3.Not(has_expr), link_all), ops.ALL), (z3.And(z3.Not(has_expr), z3.Not(link_all)), ops.ANY)])
    lst = SList(I.fresh(prefix + ".list", "seq", elem=("opaque", condsort)))
    dct = I.fresh(prefix + ".dict", "opaque", "CondDict")
    conds = SUnion([(has_expr, dct), (z3.Not(has_expr), lst)])
    neg = I.fresh(prefix + ".negation", "bool")
    # an expression references at least one condition, and every referenced identifier must exist (resolve): the mapping is non-empty
    I.ctx.assume(z3.Implies(has_expr, z3.Function("CondDict.nonempty", dct.t.sort(), z3.BoolSort())(dct.t)))
    return {"has_expr": has_expr, "link_all": link_all, "expr": expr, "linking": linking, "list": lst, "dict": dct, "conds": conds, "neg": neg}


def gate_spec(I, g, method, arg_terms, sortname, expr_args=None):
    """the specification gate as a z3 term"""
    expr_args = arg_terms if expr_args is None else expr_args
    exprf0 = z3.Function(f"CondExpr.{ {'match': 'match', 'match_detection_item': 'match_detection_item', 'match_field_name': 'match_field_name', 'match_value': 'match_field_name'}[method] }",
                        g["expr"].val.t.sort(), *[t.sort() for t in expr_args], z3.BoolSort())
    exprf = lambda e, *a: exprf0(e, *expr_args)
    mp = z3.Function(f"map!{sortname}.{method}", g["list"].sym.t.sort(), *[t.sort() for t in arg_terms], z3.SeqSort(z3.BoolSort()))(g["list"].sym.t, *arg_terms)
    any_r = z3.Contains(mp, z3.Unit(z3.BoolVal(True)))
    all_r = z3.Not(z3.Contains(mp, z3.Unit(z3.BoolVal(False))))
    r = z3.If(g["has_expr"], exprf(g["expr"].val.t, *arg_terms), z3.If(g["link_all"], all_r, any_r))
    r = z3.If(g["neg"].t, z3.Not(r), r)
    nonempty = z3.If(g["has_expr"], z3.Function("CondDict.nonempty", g["dict"].t.sort(), z3.BoolSort())(g["dict"].t), z3.Length(g["list"].sym.t) > 0)
    return z3.Or(z3.Not(nonempty), r), mp


def mk_item(I, groups):
    cinfo = I.E.index.lookup("sigma.processing.pipeline:ProcessingItem")
    f = {}
    for name, g in groups.items():
        f[f"{name}_condition_expression"] = g["expr"]
        f[f"{name}_condition_linking"] = g["linking"]
        f[f"{name}_conditions"] = g["conds"]
        f[f"{name}_condition_negation"] = g["neg"]
    return SObj(cinfo, f, lazy=True)


class _Gate(Contract):
    props = ("C13",)
    groups = ()          # (field prefix, opaque condition sort, method used on list conditions)
    argsort = "Rule"
    assumed = ["conditions are abstract: match results are uninterpreted (each built-in condition has its own contract)",
               "class invariant of ProcessingItem established by _check_conditions (contract C13._check_conditions)"]

    def setup(self, E):
        declare(E)

    def mk_arg(self, I):
        return I.fresh("x", "opaque", self.argsort)

    def args(self, I):
        gs = {p: group(I, p, s) for p, s, m in self.groups}
        x = self.mk_arg(I)
        return {"self": mk_item(I, gs), "args": [x], "x": x, "groups": gs}

    def arg_terms(self, inp, p):
        return [inp["x"].t]

    def expr_args(self, inp, p):
        return None

    def wrap_spec(self, inp, spec):
        return spec

    def post(self, I, inp, r):
        spec = z3.BoolVal(True)
        for p, s, m in self.groups:
            gterm, mp = gate_spec(I, inp["groups"][p], m, self.arg_terms(inp, p), s, self.expr_args(inp, p))
            spec = z3.And(spec, gterm)
        spec = self.wrap_spec(inp, spec)
        rt = ops.truth(I, r)
        I.ctx.require(ops.kind_of(r) == "bool", "returns a bool")
        I.ctx.require((z3.BoolVal(rt) if isinstance(rt, bool) else rt) == spec,
                      "result == gate(conditions, linking, negation, expression); an item without conditions always applies")

    def frame_ok(self, I, inp, obj, name):
        return False

    def model_terms(self, inp):
        out = {}
        for p, s, m in self.groups:
            g = inp["groups"][p]
            _, mp = gate_spec(None, g, m, self.arg_terms(inp, p), s)
            out[p] = {"has_expr": g["has_expr"], "link_all": g["link_all"], "neg": g["neg"].t, "results": mp, "n": z3.Length(g["list"].sym.t)}
        flat = {}
        for p, d in out.items():
            for k, v in d.items():
                flat[f"{p}.{k}"] = v
        return flat


@register
class MatchRuleConditions(_Gate):
    id = "C13.match_rule_conditions"
    target = "sigma.processing.pipeline:ProcessingItemBase.match_rule_conditions"
    groups = (("rule", "RuleCond", "match"),)

    def replay(self, values):
        return replay_gate("rule", values)


@register
class MatchDetectionItem(_Gate):
    id = "C13.match_detection_item"
    target = "sigma.processing.pipeline:ProcessingItem.match_detection_item"
    groups = (("detection_item", "DICond", "match"), ("field_name", "FNCond", "match_detection_item"))
    argsort = "DetectionItem"

    def replay(self, values):
        return replay_gate("detection_item", values)


@register
class MatchFieldName(_Gate):
    id = "C13.match_field_name"
    target = "sigma.processing.pipeline:ProcessingItem.match_field_name"
    groups = (("field_name", "FNCond", "match_field_name"),)

    def mk_arg(self, I):
        return SOpt(z3.Bool(I.ctx.fresh_name("field_is_none")), I.fresh("field", "str"))

    def arg_terms(self, inp, p):
        # the field name (or None) is passed on unchanged: encode Optional[str] as one term
        x = inp["x"]
        return [ops.optstr_term(x)]

    def replay(self, values):
        return replay_gate("field_name", values)


@register
class MatchFieldInValue(_Gate):
    """field-name conditions on a field reference value; any other value type never matches"""
    id = "C13.match_field_in_value"
    target = "sigma.processing.pipeline:ProcessingItem.match_field_in_value"
    groups = (("field_name", "FNCond", "match_value"),)
    argsort = "SigmaType"

    def setup(self, E):
        declare(E)
        E.opaque_fields[("SigmaType", "field")] = "str"

    def expr_args(self, inp, p):
        f = z3.Function("SigmaType.field", inp["x"].t.sort(), z3.StringSort())
        return [ops.optstr_sort().some(f(inp["x"].t))]

    def wrap_spec(self, inp, spec):
        isref = z3.Function("SigmaType.is_fieldref", inp["x"].t.sort(), z3.BoolSort())(inp["x"].t)
        return z3.And(isref, spec)

    def replay(self, values):
        return None


def optstr_term(x):
    D = optstr_sort()
    return z3.If(x.is_none, D.none, D.some(x.val.t))


_OS = None


def optstr_sort():
    global _OS
    if _OS is None:
        d = z3.Datatype("OptStr")
        d.declare("none")
        d.declare("some", ("v", z3.StringSort()))
        _OS = d.create()
    return _OS


# ----------------------------------------------------------------------------------------------- native replay
def replay_gate(kind, values):
    """build a real ProcessingItem whose conditions return the model's results and compare with the spec gate"""
    from sigma.processing.pipeline import ProcessingItem
    from sigma.processing.conditions.base import RuleProcessingCondition, DetectionItemProcessingCondition, FieldNameProcessingCondition
    from sigma.processing.transformations.base import Transformation
    from sigma.rule import SigmaRule, SigmaDetectionItem
    from sigma.types import SigmaString
    from dataclasses import dataclass

    class T(Transformation):
        def apply(self, rule):
            pass

    def conds(base, results):
        out = []
        for r in results:
            class C(base):
                res = bool(r)

                def match(self, *a, **k):
                    return self.res

                def match_field_name(self, *a, **k):
                    return self.res

                def match_detection_item(self, *a, **k):
                    return self.res

                def match_value(self, *a, **k):
                    return self.res
            out.append(C())
        return out

    def get(p, k, d=None):
        return values.get(f"{p}.{k}", d)
    kw = {}
    spec = True
    groups = {"rule": ["rule"], "detection_item": ["detection_item", "field_name"], "field_name": ["field_name"]}[kind]
    for p in groups:
        if get(p, "has_expr"):
            return None       # expression form needs a parsed expression: covered by the bounded tier
        res = [bool(x) for x in (get(p, "results") or [])][: int(get(p, "n", 0) or 0)]
        res += [False] * (int(get(p, "n", 0) or 0) - len(res))
        if len(res) > 6:
            return None
        base = {"rule": RuleProcessingCondition, "detection_item": DetectionItemProcessingCondition, "field_name": FieldNameProcessingCondition}[p]
        kw[f"{p}_conditions"] = conds(base, res)
        kw[f"{p}_condition_linking"] = all if get(p, "link_all") else any
        kw[f"{p}_condition_negation"] = bool(get(p, "neg"))
        r = (all if get(p, "link_all") else any)(res)
        if get(p, "neg"):
            r = not r
        spec = spec and (not res or r)
    item = ProcessingItem(transformation=T(), **kw)
    if kind == "rule":
        got = item.match_rule_conditions(None)
    elif kind == "detection_item":
        got = item.match_detection_item(SigmaDetectionItem("f", [], [SigmaString("v")]))
    else:
        got = item.match_field_name("f")
    if bool(got) != bool(spec):
        return f"{kind} gate with {({k: v for k, v in values.items()})}: real result {got}, spec gate {spec}"
    return None


# ----------------------------------------------------------------------------------------------- per-rule tracking reset
TRACKING_FIELDS = ("applied", "applied_ids", "field_name_applied_ids", "field_mappings", "state")


class ApplyLoop(LoopSpec):
    """invariant of the item loop of ProcessingPipeline.apply: every per-rule tracking field is a container created by this
    call (not the object that was there on entry) and - at loop entry - empty"""
    modifies = {}

    def inv(self, I, env, done, rest, total):
        me = env["self"]
        out = []
        for f in TRACKING_FIELDS:
            v = me.fields.get(f)
            def is_empty(x):
                if isinstance(x, (list, dict, set)):
                    return len(x) == 0
                if isinstance(x, SObj):      # a tracking object is empty iff every container it holds is empty (e.g. the mapping AND its reverse index)
                    return all(is_empty(y) for y in x.fields.values() if isinstance(y, (list, dict, set, SObj)))
                return False
            out.append((f"per-rule field {f} carries nothing of the previous rule when the first item runs (re-created or completely emptied)",
                        z3.Implies(z3.Length(done) == 0, z3.BoolVal(bool(v is not None and is_empty(v))))))
        return out


@register
class PipelineApplyReset(Contract):
    id = "C13.ProcessingPipeline.apply.reset"
    target = "sigma.processing.pipeline:ProcessingPipeline.apply"
    props = ("C13", "C15", "C09", "C10")
    cases = ("any rule", "detection rule", "correlation rule")         # the reset does not depend on the kind of rule: a correlation rule starts from scratch like every rule
    assumed = ["items are abstract (item.apply is an uninterpreted call); only the reset of the five per-rule tracking fields and the returned rule are decided here"]

    def setup(self, E):
        E.opaque_methods[("PItem", "apply")] = ((), "bool")
        E.opaque_fields[("PItem", "identifier")] = "str"
        E.loop_invariants[(self.target, 0)] = ApplyLoop()
        E.externals["collections.defaultdict"] = lambda I, args, kwargs: {}

    def args(self, I, case):
        cinfo = I.E.index.lookup("sigma.processing.pipeline:ProcessingPipeline")
        old = {"applied": [True], "applied_ids": {"old"}, "field_name_applied_ids": {"f": {"old"}}, "field_mappings": SObj(I.E.index.lookup("sigma.processing.tracking:FieldMappingTracking"), {"data": {"a": {"b"}}, "target_fields": {"b": {"a"}}}), "state": {"k": "v"}}
        me = SObj(cinfo, dict(old), lazy=True)
        me.fields["items"] = SList(I.fresh("items", "seq", elem=("opaque", "PItem")))
        me.ghost["pre_ids"] = {id(v) for v in old.values()}
        rule = I.fresh("rule", "opaque", "Rule") if case == "any rule" else SObj(I.E.index.lookup("sigma.rule.rule:SigmaRule" if case == "detection rule" else "sigma.correlations:SigmaCorrelationRule"), {}, lazy=True)
        if isinstance(rule, SObj):
            rule.ghost["term"] = I.fresh("rule", "opaque", "Rule").t
        return {"self": me, "args": [rule], "rule": rule}

    def post(self, I, inp, r):
        if isinstance(inp["rule"], Sym):
            I.ctx.require(isinstance(r, Sym) and r.kind == "opaque" and z3.eq(r.t, inp["rule"].t), "returns the rule it was given")
        else:
            I.ctx.require(r is inp["rule"], "returns the rule it was given")

    def frame_ok(self, I, inp, obj, name):
        return obj is inp["self"] and name in TRACKING_FIELDS

    def replay(self, values):
        from sigma.processing.pipeline import ProcessingPipeline
        from sigma.processing.tracking import FieldMappingTracking
        from sigma.rule import SigmaRule
        from collections import defaultdict
        p = ProcessingPipeline()
        old = {"applied": [True], "applied_ids": {"old"}, "field_name_applied_ids": defaultdict(set, {"f": {"old"}}), "field_mappings": FieldMappingTracking(), "state": {"k": "v"}}
        old["field_mappings"].add_mapping("a", "b")
        for k, v in old.items():
            setattr(p, k, v)
        rule = SigmaRule.from_yaml("title: t\nlogsource:\n  category: c\ndetection:\n  sel:\n    f: v\n  condition: sel\n")
        p.apply(rule)
        bad = [k for k in old if len(getattr(p, k)) != 0 or (k == "field_mappings" and len(p.field_mappings.target_fields) != 0)]
        return f"after ProcessingPipeline.apply on a pipeline without items the per-rule fields {bad} still carry the previous rule's content" if bad else None


# ----------------------------------------------------------------------------------------------- class invariant, expressions, apply
PIPE = "sigma.processing.pipeline"
CE = "sigma.processing.condition_expressions"


@register
class CheckConditions(Contract):
    """_check_conditions establishes the class invariant the gates rely on: an expression excludes linking and needs a mapping of
    conditions; without an expression the linking defaults to `all` and a mapping is flattened to its values; every condition has the
    expected class - otherwise a Sigma error"""
    id = "C13.ProcessingItemBase._check_conditions"
    target = f"{PIPE}:ProcessingItemBase._check_conditions"
    props = ("C13",)
    cases = tuple((expr, link, conds) for expr in (True, False) for link in ("none", "any", "all") for conds in ("list", "dict", "other", "list_bad"))

    def args(self, I, case):
        expr, link, conds = case
        idx = I.E.index
        RC = idx.lookup("sigma.processing.conditions.base:RuleProcessingCondition")
        DC = idx.lookup("sigma.processing.conditions.base:DetectionItemProcessingCondition")
        good, bad = SObj(RC, {}, lazy=True), SObj(DC, {}, lazy=True)
        cv = {"list": [good], "dict": {"c1": good}, "other": 5, "list_bad": [good, bad]}[conds]
        me = SObj(idx.lookup(f"{PIPE}:ProcessingItem"), {"rule_condition_expression": SObj("Expr", {}) if expr else None,
                                                       "rule_condition_linking": {"none": None, "any": ops.ANY, "all": ops.ALL}[link], "rule_conditions": cv}, lazy=True)
        return {"self": me, "args": ["rule_condition_expression", "rule_condition_linking", "rule_conditions", ClassRef(RC), "Rule condition"], "case": case, "good": good}

    def post(self, I, inp, r):
        expr, link, conds = inp["case"]
        me = inp["self"]
        c = I.ctx
        c.require(conds in ("list", "dict") and not (expr and (link != "none" or conds != "dict")), "only well-formed combinations are accepted")
        if expr:
            c.require(me.fields["rule_condition_linking"] is None and isinstance(me.fields["rule_conditions"], dict), "with an expression: no linking, conditions stay a mapping")
        else:
            want = ops.ALL if link in ("none", "all") else ops.ANY
            c.require(me.fields["rule_condition_linking"] is want, "without an expression the linking is the configured one, `all` by default")
            c.require(isinstance(me.fields["rule_conditions"], list) and me.fields["rule_conditions"] == [inp["good"]], "without an expression the conditions are a list (a mapping is flattened to its values)")

    def raises(self, I, inp, exc):
        expr, link, conds = inp["case"]
        bad_combo = expr and (link != "none" or conds != "dict")
        I.ctx.require((exc_is(I, exc, "SigmaPipelineConditionError") and bad_combo) or (exc_is(I, exc, "SigmaTypeError") and conds in ("other", "list_bad") and not bad_combo),
                      f"SigmaPipelineConditionError for expression + linking / non-mapping, SigmaTypeError for a wrong container or condition class (got {exc_name(exc)})", kind="SAFE")

    def frame_ok(self, I, inp, obj, name):
        return obj is inp["self"] and name in ("rule_condition_linking", "rule_conditions")


class _ExprOp(Contract):
    props = ("C13",)
    method = "match"
    assumed = ["operand expressions are abstract (uninterpreted match results)"]

    def operand(self, I, name):
        r = {m: I.fresh(f"{name}.{m}", "bool") for m in ("match", "match_detection_item", "match_field_name")}
        o = SObj("Operand", {m: NativeFn(m, (lambda v: lambda I2, a, k: v)(v)) for m, v in r.items()})
        o.ghost["r"] = r
        return o


def _mk_binop(clsname, fn, method):
    class C(_ExprOp):
        id = f"C13.{clsname}.{method}"
        target = f"{CE}:BinaryConditionOp.{method}"
        props = ("C13",)

        def args(self, I):
            l, r = self.operand(I, "left"), self.operand(I, "right")
            me = SObj(I.E.index.lookup(f"{CE}:{clsname}"), {"left": l, "right": r}, lazy=True)
            return {"self": me, "args": [I.fresh("x", "opaque", "Item")], "l": l, "r": r}

        def post(self, I, inp, res):
            a, b = inp["l"].ghost["r"][method].t, inp["r"].ghost["r"][method].t
            I.ctx.require(ops.mk_bool_term(ops.truth(I, res)) == (z3.And(a, b) if fn == "and" else z3.Or(a, b)), f"{clsname}.{method} == left {fn} right, each evaluated with the same method")

        def frame_ok(self, I, inp, obj, name):
            return False
    C.__name__ = f"E_{clsname}_{method}"
    return C


for _c, _f in (("ConditionAND", "and"), ("ConditionOR", "or")):
    for _m in ("match", "match_detection_item", "match_field_name"):
        register(_mk_binop(_c, _f, _m))


def _mk_not(method):
    class C(_ExprOp):
        id = f"C13.ConditionNOT.{method}"
        target = f"{CE}:ConditionNOT.{method}"
        props = ("C13",)

        def args(self, I):
            o = self.operand(I, "operand")
            me = SObj(I.E.index.lookup(f"{CE}:ConditionNOT"), {"condition": o}, lazy=True)
            return {"self": me, "args": [I.fresh("x", "opaque", "Item")], "o": o}

        def post(self, I, inp, res):
            I.ctx.require(ops.mk_bool_term(ops.truth(I, res)) == z3.Not(inp["o"].ghost["r"][method].t), f"ConditionNOT.{method} == not operand")

        def frame_ok(self, I, inp, obj, name):
            return False
    C.__name__ = f"E_NOT_{method}"
    return C


for _m in ("match", "match_detection_item", "match_field_name"):
    register(_mk_not(_m))


@register
class ProcessingItemApply(Contract):
    """the transformation is applied to the rule iff the rule conditions hold (match_rule_conditions, own contract); result says whether"""
    id = "C13.ProcessingItem.apply"
    target = f"{PIPE}:ProcessingItem.apply"
    props = ("C13",)

    def args(self, I):
        applied = []
        g = I.fresh("gate", "bool")
        rule = I.fresh("rule", "opaque", "Rule")
        me = SObj(I.E.index.lookup(f"{PIPE}:ProcessingItem"), {"transformation": SObj("T", {"apply": NativeFn("apply", lambda I2, a, k: applied.append(a[0]))})}, lazy=True)
        I.E.summaries[f"{PIPE}:ProcessingItemBase.match_rule_conditions"] = lambda I2, so, a, k: g
        return {"self": me, "args": [rule], "g": g, "applied": applied, "rule": rule}

    def post(self, I, inp, r):
        I.ctx.require(ops.mk_bool_term(ops.truth(I, r)) == inp["g"].t, "returns whether the item applied")
        I.ctx.require(inp["g"].t == z3.BoolVal(inp["applied"] == [inp["rule"]]), "the transformation is applied (once, to this rule) iff the conditions hold")

    def frame_ok(self, I, inp, obj, name):
        return False


# ----------------------------------------------------------------------------------------------- built-in conditions
CR = "sigma.processing.conditions.rule"
CF = "sigma.processing.conditions.fields"


class _FieldCond(Contract):
    props = ("C13",)
    clsname, negate = None, False
    cases = (0, 1, 2)
    assumed = ["plain matching mode; field lists of 0..2 names (unrolled), contents symbolic"]

    def args(self, I, case):
        fields = [I.fresh(f"name{i}", "str") for i in range(case)]
        fld = SOpt(z3.Bool(I.ctx.fresh_name("field_none")), I.fresh("field", "str"))
        me = SObj(I.E.index.lookup(f"{CF}:{self.clsname}"), {"fields": fields, "mode": "plain"}, lazy=True)
        return {"self": me, "args": [fld], "fields": fields, "fld": fld}

    def post(self, I, inp, r):
        f = inp["fld"]
        inlist = z3.And(z3.Not(f.is_none), ops.mk_or([f.val.t == x.t for x in inp["fields"]]))
        spec = z3.Not(inlist) if self.negate else inlist
        I.ctx.require(ops.mk_bool_term(ops.truth(I, r)) == spec, ("not " if self.negate else "") + "(field name given and contained in the list)")

    def frame_ok(self, I, inp, obj, name):
        return False


@register
class IncludeFieldMatch(_FieldCond):
    id = "C13.IncludeFieldCondition.match_field_name"
    target = f"{CF}:IncludeFieldCondition.match_field_name"
    clsname = "IncludeFieldCondition"


@register
class ExcludeFieldMatch(_FieldCond):
    id = "C13.ExcludeFieldCondition.match_field_name"
    target = f"{CF}:ExcludeFieldCondition.match_field_name"
    clsname, negate = "ExcludeFieldCondition", True


@register
class LogsourceConditionMatch(Contract):
    """a detection rule matches iff its log source is covered by the condition's log source; a correlation rule iff one of the rules it refers to does"""
    id = "C13.LogsourceCondition.match"
    target = f"{CR}:LogsourceCondition.match"
    props = ("C13",)
    cases = ("rule", "corr0", "corr2", "corr_unresolved", "corr_nested")
    assumed = ["SigmaLogSource.__contains__ contract (C11)", "nesting of correlation rules unrolled to depth 2 (the recursion is structural)"]

    def setup(self, E):
        from .c11 import covers
        E.summaries["sigma.rule.logsource:SigmaLogSource.__contains__"] = lambda I, so, a, k: Sym(covers(so, a[0]), "bool")

    def args(self, I, case):
        from .c11 import mk_logsource
        idx = I.E.index
        R, C = idx.lookup("sigma.rule.rule:SigmaRule"), idx.lookup("sigma.correlations:SigmaCorrelationRule")
        me = SObj(idx.lookup(f"{CR}:LogsourceCondition"), {"logsource": mk_logsource(I, "cond")}, lazy=True)
        if case == "rule":
            rules = [SObj(R, {"logsource": mk_logsource(I, "r")}, lazy=True)]
            arg = rules[0]
        else:
            rules = [SObj(R, {"logsource": mk_logsource(I, f"r{i}")}, lazy=True) for i in range({"corr0": 0, "corr2": 2, "corr_unresolved": 1, "corr_nested": 2}[case])]
            refs = [SObj("Ref", {"rule": r} if case != "corr_unresolved" else {}) for r in rules]
            for x in refs:
                x.ghost["closed"] = True
            arg = SObj(C, {"referenced_rules": refs}, lazy=True)
            if case == "corr_nested":       # correlation -> [detection rule r0, correlation -> [detection rule r1]]
                inner = SObj(C, {"referenced_rules": [refs[1]]}, lazy=True)
                iref = SObj("Ref", {"rule": inner})
                iref.ghost["closed"] = True
                arg = SObj(C, {"referenced_rules": [refs[0], iref]}, lazy=True)
        return {"self": me, "args": [arg], "rules": rules, "case": case}

    def post(self, I, inp, r):
        from .c11 import covers
        me = inp["self"]
        if inp["case"] == "corr_unresolved":
            spec = z3.BoolVal(False)
        else:
            spec = ops.mk_or([covers(me.fields["logsource"], x.fields["logsource"]) for x in inp["rules"]])
        I.ctx.require(ops.mk_bool_term(ops.truth(I, r)) == spec, "matches iff (one of) the rule's log source(s) is covered by the condition's log source")

    def frame_ok(self, I, inp, obj, name):
        return False


@register
class IsRuleKind(Contract):
    id = "C13.IsSigmaRuleCondition.match"
    target = f"{CR}:IsSigmaRuleCondition.match"
    props = ("C13",)
    cases = ("rule", "corr")

    def args(self, I, case):
        idx = I.E.index
        rule = SObj(idx.lookup("sigma.rule.rule:SigmaRule") if case == "rule" else idx.lookup("sigma.correlations:SigmaCorrelationRule"), {}, lazy=True)
        return {"self": SObj(idx.lookup(f"{CR}:IsSigmaRuleCondition"), {}, lazy=True), "args": [rule], "case": case}

    def post(self, I, inp, r):
        I.ctx.require(ops.truth(I, r) is (inp["case"] == "rule"), "true exactly for detection rules")

    def frame_ok(self, I, inp, obj, name):
        return False


CBASE = "sigma.processing.conditions.base"


class _Ident(Contract):
    """a condition identifier in a condition expression evaluates exactly like the condition it names, with the SAME method: a field name
    condition asked about a detection item answers match_detection_item (field or field-reference values), not a part of it"""
    props = ("C13",)
    method = ""
    good = ""

    def cond(self, I, base):
        r = {m: I.fresh(f"cond.{m}", "bool") for m in ("match", "match_detection_item", "match_detection_item_field", "match_detection_item_value", "match_field_name", "match_value")}
        o = SObj(I.E.index.lookup(f"{CBASE}:{base}"), {m: NativeFn(m, (lambda v: lambda I2, a, k: v)(v)) for m, v in r.items()})
        o.ghost["r"] = r
        return o

    def item(self, I, kind):
        idx = I.E.index
        if kind == "rule":
            return SObj(idx.lookup("sigma.rule.rule:SigmaRule"), {}, lazy=True)
        if kind == "corr":
            return SObj(idx.lookup("sigma.correlations:SigmaCorrelationRule"), {}, lazy=True)
        if kind == "item":
            return SObj(idx.lookup("sigma.rule.detection:SigmaDetectionItem"), {}, lazy=True)
        return I.fresh("field_name", "str")

    def args(self, I, case):
        base, kind = case
        cnd = self.cond(I, base)
        me = SObj(I.E.index.lookup(f"{CE}:ConditionIdentifier"), {"identifier": "c1", "_condition": cnd, "expression": "c1", "location": 0}, lazy=True)
        return {"self": me, "args": [self.item(I, kind)], "cnd": cnd, "case": case}

    def post(self, I, inp, res):
        base, kind = inp["case"]
        I.ctx.require(self.ok(base, kind), "a condition of the wrong kind for the item is rejected")
        I.ctx.require(res is inp["cnd"].ghost["r"][self.method], f"the result is the named condition's {self.method}() on the same item")

    def raises(self, I, inp, exc):
        base, kind = inp["case"]
        I.ctx.require(exc_is(I, exc, "SigmaPipelineConditionError") and not self.ok(base, kind), f"SigmaPipelineConditionError exactly for a condition of the wrong kind (got {exc_name(exc)})", kind="SAFE")

    def frame_ok(self, I, inp, obj, name):
        return False


@register
class IdentMatch(_Ident):
    id = "C13.ConditionIdentifier.match"
    target = f"{CE}:ConditionIdentifier.match"
    method = "match"
    cases = tuple((b, k) for b in ("RuleProcessingCondition", "DetectionItemProcessingCondition", "FieldNameProcessingCondition") for k in ("rule", "corr", "item"))

    def ok(self, base, kind):
        return (base == "RuleProcessingCondition" and kind in ("rule", "corr")) or (base == "DetectionItemProcessingCondition" and kind == "item")


@register
class IdentMatchDetectionItem(_Ident):
    id = "C13.ConditionIdentifier.match_detection_item"
    target = f"{CE}:ConditionIdentifier.match_detection_item"
    method = "match_detection_item"
    cases = tuple((b, "item") for b in ("RuleProcessingCondition", "DetectionItemProcessingCondition", "FieldNameProcessingCondition"))

    def ok(self, base, kind):
        return base == "FieldNameProcessingCondition"


@register
class IdentMatchFieldName(_Ident):
    id = "C13.ConditionIdentifier.match_field_name"
    target = f"{CE}:ConditionIdentifier.match_field_name"
    method = "match_field_name"
    cases = tuple((b, "name") for b in ("RuleProcessingCondition", "DetectionItemProcessingCondition", "FieldNameProcessingCondition"))

    def ok(self, base, kind):
        return base == "FieldNameProcessingCondition"


@register
class FieldNameConditionDetectionItem(Contract):
    """FieldNameProcessingCondition.match_detection_item: the item's field matches, or one of its values is a field reference to a
    matching field (values of other types never match)"""
    id = "C13.FieldNameProcessingCondition.match_detection_item"
    target = f"{CBASE}:FieldNameProcessingCondition.match_detection_item"
    props = ("C13", "C12")
    cases = ("", "r", "s", "rs", "sr", "rr")
    assumed = ["match_field_name of the concrete condition is an uninterpreted predicate of the name; value lists of 0..2 values (r = field reference, s = string), unrolled"]

    def args(self, I, case):
        idx = I.E.index
        P = z3.Function("field_name_matches", z3.StringSort(), z3.BoolSort())
        me = SObj(idx.lookup(f"{CBASE}:FieldNameProcessingCondition"), {"match_field_name": NativeFn("match_field_name", lambda I2, a, k: Sym(P(mk_str(I2.force(a[0]))), "bool") if a[0] is not None else I2.fresh("kw", "bool"))}, lazy=True)
        vals, refs = [], []
        for i, ch in enumerate(case):
            if ch == "r":
                fr = I.fresh(f"ref{i}", "str")
                refs.append(fr)
                vals.append(SObj(idx.lookup("sigma.types:SigmaFieldReference"), {"field": fr}, lazy=True))
            else:
                vals.append(SObj(idx.lookup("sigma.types:SigmaString"), {}, lazy=True))
        fld = I.fresh("item_field", "str")
        item = SObj(idx.lookup("sigma.rule.detection:SigmaDetectionItem"), {"field": fld, "value": vals}, lazy=True)
        return {"self": me, "args": [item], "P": P, "fld": fld, "refs": refs}

    def post(self, I, inp, res):
        P = inp["P"]
        spec = z3.Or(P(inp["fld"].t), *[P(r.t) for r in inp["refs"]])
        I.ctx.require(ops.mk_bool_term(ops.truth(I, res)) == spec, "matches iff the field name matches or a field-reference value refers to a matching field")

    def frame_ok(self, I, inp, obj, name):
        return False


def _mk_find(clsname):
    class C(Contract):
        __doc__ = f"""{clsname}.find_detection_item searches the WHOLE detection tree: true iff some detection item at any nesting depth
        (a selection written as a list of maps, or produced by a one-to-many field mapping, nests detections) has the field"""
        id = f"C13.{clsname}.find_detection_item"
        target = f"{CR}:{clsname}.find_detection_item"
        props = ("C13",)
        cases = ("i", "[]", "[ii]", "[[i]i]", "[i[i[i]]]", "[[][i]]")
        assumed = ["tree shapes unrolled (depth <= 3); field names symbolic" + ("; the value comparison of contains_detection_item is an uninterpreted predicate per item" if "DetectionItem" in clsname else "")]

        def build(self, I, shape, leaves):
            idx = I.E.index
            D, IT = idx.lookup("sigma.rule.detection:SigmaDetection"), idx.lookup("sigma.rule.detection:SigmaDetectionItem")
            pos = [0]

            def rec():
                ch = shape[pos[0]]
                pos[0] += 1
                if ch == "i":
                    f = I.fresh(f"field{len(leaves)}", "str")
                    hit = I.fresh(f"value_hit{len(leaves)}", "bool")
                    leaves.append((f, hit))
                    return SObj(IT, {"field": f, "value": SObj("Values", {}, ghost={"hit": hit})}, lazy=True)
                kids = []
                while shape[pos[0]] != "]":
                    kids.append(rec())
                pos[0] += 1
                return SObj(D, {"detection_items": kids}, lazy=True)
            return rec()

        def setup(self, E):
            pass

        def args(self, I, case):
            leaves = []
            tree = self.build(I, case, leaves)
            want = I.fresh("wanted_field", "str")
            fields = {"field": want}
            if "DetectionItem" in clsname:
                fields.update({"value": I.fresh("v", "opaque", "V"), "sigma_value": SObj("SV", {})})
            me = SObj(I.E.index.lookup(f"{CR}:{clsname}"), fields, lazy=True)
            return {"self": me, "args": [tree], "leaves": leaves, "want": want}

        def post(self, I, inp, res):
            spec = ops.mk_or([f.t == inp["want"].t for f, hit in inp["leaves"]])
            I.ctx.require(ops.mk_bool_term(ops.truth(I, res)) == spec, "true iff some detection item of the tree, at any depth, has the field")

        def frame_ok(self, I, inp, obj, name):
            return False
    C.__name__ = f"Find_{clsname}"
    return C


register(_mk_find("RuleContainsFieldCondition"))


@register
class NestedApply(Contract):
    """NestedProcessingTransformation.apply: after the nested pipeline ran on the rule, the enclosing pipeline knows what happened inside:
    applied items appended in order, applied ids and field-name ids united, field mappings merged, and the STATE written inside wins over
    the enclosing pipeline's older value of the same key (later writes win, as everywhere in a pipeline)"""
    id = "C13.NestedProcessingTransformation.apply"
    target = "sigma.processing.transformations.meta:NestedProcessingTransformation.apply"
    props = ("C13", "C12", "C14", "C10")
    cases = ("sigma.rule.rule:SigmaRule", "sigma.correlations:SigmaCorrelationRule")        # field tracking also comes from the group-by / alias / condition fields of correlation rules
    assumed = ["the nested pipeline's apply() and FieldMappingTracking.merge are abstract here; concrete small containers"]

    def setup(self, E):
        E.summaries[f"sigma.processing.transformations.base:PreprocessingTransformation.apply"] = lambda I, so, a, k: None
        E.summaries[f"sigma.processing.transformations.base:Transformation.apply"] = lambda I, so, a, k: None

    def args(self, I, case):
        idx = I.E.index
        v = {n: I.fresh(n, "str") for n in ("outer_k", "outer_only", "nested_k", "nested_only")}
        merged = []
        fm_outer = SObj("FieldMappings", {"merge": NativeFn("merge", lambda I2, a, k: merged.append(a[0]))})
        fm_nested = SObj("FieldMappings", {})
        outer = SObj("Pipeline", {"applied": [True], "applied_ids": {"o1"}, "field_name_applied_ids": {"fo"}, "field_mappings": fm_outer, "state": {"k": v["outer_k"], "only_outer": v["outer_only"]}})
        ran = []

        def napply(I2, a, k):
            ran.append(a[0])
        nested = SObj("Pipeline", {"apply": NativeFn("apply", napply), "applied": [False, True], "applied_ids": {"n1", "n2"}, "field_name_applied_ids": {"fn"}, "field_mappings": fm_nested,
                                   "state": {"k": v["nested_k"], "only_nested": v["nested_only"]}})
        me = SObj(idx.lookup("sigma.processing.transformations.meta:NestedProcessingTransformation"), {"_pipeline": outer, "_nested_pipeline": nested}, lazy=True)
        rule = SObj(idx.lookup(case), {}, lazy=True)
        return {"self": me, "args": [rule], "outer": outer, "nested": nested, "v": v, "merged": merged, "ran": ran, "rule": rule, "fm_nested": fm_nested}

    def post(self, I, inp, r):
        c, o, v = I.ctx, inp["outer"], inp["v"]
        c.require(inp["ran"] == [inp["rule"]], "the nested pipeline is applied to the rule, once")
        c.require(list(o.fields["applied"]) == [True, False, True], "applied flags of the nested items are appended in order")
        c.require(set(o.fields["applied_ids"]) == {"o1", "n1", "n2"} and set(o.fields["field_name_applied_ids"]) == {"fo", "fn"}, "applied ids and field-name ids are united")
        c.require(len(inp["merged"]) == 1 and inp["merged"][0] is inp["fm_nested"], "field mappings of the nested pipeline are merged into the enclosing one")
        st = o.fields["state"]
        st = I.force(st) if not isinstance(st, dict) else st
        c.require(isinstance(st, dict) and set(st) == {"k", "only_outer", "only_nested"} and st["k"] is v["nested_k"] and st["only_outer"] is v["outer_only"] and st["only_nested"] is v["nested_only"],
                  "state: keys of both, and for a key written inside the nested pipeline the nested (later) value wins")

    def frame_ok(self, I, inp, obj, name):
        return obj is inp["outer"] or obj is inp["self"]
