"""C12 (part 2) - value / rule / detection-item transformations (sigma/processing/transformations/*.py): each equals its documented rewrite."""
from __future__ import annotations
import z3
from pyvc.api import *
from pyvc.values import *
from pyvc import ops

TB = "sigma.processing.transformations.base"
TV = "sigma.processing.transformations.values"
TY = "sigma.types"
KINDS = ("SigmaString", "SigmaCasedString", "SigmaNumber", "SigmaBool", "SigmaNull", "SigmaRegularExpression")


def summarise_ctors(E, names=("SigmaString", "SigmaNumber", "SigmaBool", "SigmaNull", "SigmaRegularExpression")):
    for n in names:
        E.summaries[f"{TY}:{n}"] = (lambda n: lambda I, so, a, k: SObj("New" + n, {"a": list(a), "k": dict(k)}))(n)


# ----------------------------------------------------------------------------------------------- walkers
@register
class ValueWalkerItem(Contract):
    """ValueTransformation.apply_detection_item: every value of an accepted type is replaced by what apply_value returns for it (None:
    kept; a list: spliced in at its position; otherwise the single replacement), values of other types are kept, order preserved; the
    item is returned iff at least one value was replaced"""
    id = "C12.ValueTransformation.apply_detection_item[results]"
    target = f"{TB}:ValueTransformation.apply_detection_item"
    props = ("C12",)
    cases = tuple(itertools_product := [(a, b) for a in ("keep", "one", "list2", "list0", "wrongtype") for b in ("keep", "one", "list2", "wrongtype")]) + (("keep",), ("one",), ())
    assumed = ["apply_value of the concrete transformation is abstract: per value one of the documented outcomes", "value lists of 0..2 values (unrolled)"]

    def args(self, I, case):
        idx = I.E.index
        S = idx.lookup(f"{TY}:SigmaString")
        vals, repl = [], []
        for i, what in enumerate(case):
            if what == "wrongtype":
                v = SObj(idx.lookup(f"{TY}:SigmaNumber"), {}, lazy=True)
                out = [v]
            else:
                v = SObj(S, {}, lazy=True)
                out = {"keep": [v], "one": [SObj(S, {}, lazy=True)], "list2": [SObj(S, {}, lazy=True), SObj(S, {}, lazy=True)], "list0": []}[what]
            v.ghost.update(what=what, out=out)
            vals.append(v)
            repl += out
        called = []

        def av(I2, a, k):
            v = a[1]
            called.append(v)
            w = v.ghost["what"]
            return None if w == "keep" else v.ghost["out"][0] if w == "one" else list(v.ghost["out"])
        fld = I.fresh("field", "str")
        item = SObj(idx.lookup("sigma.rule.detection:SigmaDetectionItem"), {"field": fld, "value": list(vals)}, lazy=True)
        me = SObj(idx.lookup(f"{TB}:ValueTransformation"), {"value_types": ClassRef(S), "apply_value": NativeFn("apply_value", av)}, lazy=True)
        return {"self": me, "args": [item], "item": item, "vals": vals, "want": repl, "called": called, "case": case, "old_list": item.fields["value"]}

    def post(self, I, inp, r):
        c, case = I.ctx, inp["case"]
        changed = any(w in ("one", "list2", "list0") for w in case)
        ol = inp["old_list"]
        c.require(len(ol) == len(inp["vals"]) and all(a is b for a, b in zip(ol, inp["vals"])),
                  "the value list object the item had before is not modified in place (items created by a one-to-many field mapping share it with their siblings)", kind="FRAME")
        c.require(inp["called"] == [v for v in inp["vals"] if v.ghost["what"] != "wrongtype"], "apply_value is asked once per value of an accepted type, in order")
        if changed:
            c.require(r is inp["item"], "the (modified) detection item is returned")
            got = inp["item"].fields["value"]
            c.require(isinstance(got, list) and len(got) == len(inp["want"]) and all(a is b for a, b in zip(got, inp["want"])), "values: replacements spliced in at the position of the value they replace, everything else kept, in order")
        else:
            c.require(r is None, "nothing replaced: None")
            c.require(all(a is b for a, b in zip(inp["item"].fields["value"], inp["vals"])) and len(inp["item"].fields["value"]) == len(inp["vals"]), "the values are untouched")

    def frame_ok(self, I, inp, obj, name):
        return obj is inp["item"] and name == "value"


@register
class StringValueGate(Contract):
    """StringValueTransformation.apply_value: string values go to apply_string_value, everything else is left alone"""
    id = "C12.StringValueTransformation.apply_value"
    target = f"{TB}:StringValueTransformation.apply_value"
    props = ("C12",)
    cases = KINDS

    def args(self, I, case):
        idx = I.E.index
        got = {}

        def asv(I2, a, k):
            got["a"] = list(a)
            got["r"] = SObj("Result", {})
            return got["r"]
        val = SObj(idx.lookup(f"{TY}:{case}"), {}, lazy=True)
        fld = I.fresh("field", "str")
        me = SObj(idx.lookup(f"{TB}:StringValueTransformation"), {"apply_string_value": NativeFn("apply_string_value", asv)}, lazy=True)
        return {"self": me, "args": [fld, val], "got": got, "val": val, "fld": fld, "case": case}

    def post(self, I, inp, r):
        if inp["case"] in ("SigmaString", "SigmaCasedString"):
            g = inp["got"]
            I.ctx.require("r" in g and r is g["r"] and g["a"][0] is inp["fld"] and g["a"][1] is inp["val"], "strings: the result of apply_string_value(field, value)")
        else:
            I.ctx.require(r is None and not inp["got"], "other types: left alone")

    def frame_ok(self, I, inp, obj, name):
        return False


# ----------------------------------------------------------------------------------------------- value transformations
@register
class MapParts(Contract):
    """SigmaString.map_parts (worker of upper / lower / snake_case and of replace_string with skip_special): the result is a new string OF
    THE CLASS OF THE ORIGINAL (a case-sensitive string stays case-sensitive), whose parts are, in order: the part itself where the
    filter rejects it, otherwise what the function returns for it (dropped for None; re-parsed for a str under interpret_special); the
    original keeps its parts"""
    id = "C12.SigmaString.map_parts"
    target = f"{TY}:SigmaString.map_parts"
    props = ("C12", "C05")
    cases = tuple((cls, shape, sp) for cls in ("SigmaString", "SigmaCasedString") for shape in ((), ("f",), ("r",), ("n",), ("f", "r"), ("r", "f", "n"), ("f", "f")) for sp in (False, True))
    assumed = ["part lists of 0..3 parts (unrolled); the mapped function and the filter are abstract: per part accepted / rejected / dropped"]

    def setup(self, E):
        def ctor(n):
            def f(I, so, a, k):
                return SObj("New" + n, {"a": list(a), "s": [("parsed", a[0])] if a else []})
            return f
        for n in ("SigmaString", "SigmaCasedString"):
            E.summaries[f"{TY}:{n}"] = ctor(n)

    def args(self, I, case):
        cls, shape, sp = case
        parts = [I.fresh(f"part{i}", "str") for i in range(len(shape))]
        outs = [I.fresh(f"out{i}", "str") for i in range(len(shape))]
        kind = {id(p): w for p, w in zip(parts, shape)}
        out = {id(p): o for p, o in zip(parts, outs)}
        me = SObj(I.E.index.lookup(f"{TY}:{cls}"), {"s": list(parts)}, lazy=True)
        func = NativeFn("func", lambda I2, a, k: None if kind[id(a[0])] == "n" else out[id(a[0])])
        filt = NativeFn("filter_func", lambda I2, a, k: kind[id(a[0])] != "r")
        return {"self": me, "args": [func, filt, sp], "parts": parts, "outs": outs, "case": case}

    def post(self, I, inp, r):
        cls, shape, sp = inp["case"]
        c = I.ctx
        c.require(isinstance(r, SObj) and r.cls == "New" + cls, "the result has the class of the original (case-sensitive strings stay case-sensitive)")
        want = []
        for p, o, w in zip(inp["parts"], inp["outs"], shape):
            if w == "r":
                want.append(p)
            elif w == "f":
                want.append(("parsed", o) if sp else o)
        got = r.fields.get("s") if isinstance(r, SObj) else None
        same = isinstance(got, list) and len(got) == len(want) and all(a is b or (isinstance(a, tuple) and isinstance(b, tuple) and a[0] == b[0] and a[1] is b[1]) for a, b in zip(got, want))
        c.require(same, "parts: rejected parts kept, accepted ones replaced by the function result (None: dropped), in order")
        c.require(r is not inp["self"] and len(inp["self"].fields["s"]) == len(inp["parts"]) and all(a is b for a, b in zip(inp["self"].fields["s"], inp["parts"])), "the original string keeps its parts", kind="FRAME")

    def frame_ok(self, I, inp, obj, name):
        return isinstance(obj, SObj) and isinstance(obj.cls, str) and obj.cls.startswith("New")      # the string created here

    def candidates(self):
        return ({"text": t, "how": h} for t in ("AbC", "a*B", "\\Pw.EXE") for h in ("upper", "lower", "snake_case", "identity", "drop wildcards"))

    def replay(self, values):
        if "how" not in values:
            return None
        from sigma.types import SigmaString, SigmaCasedString, SpecialChars
        for cls in (SigmaString, SigmaCasedString):
            s = cls(values["text"])
            before = list(s.s)
            h = values["how"]
            r = getattr(s, h)() if h in ("upper", "lower", "snake_case") else s.map_parts(lambda p: p) if h == "identity" else s.map_parts(lambda p: None, lambda p: isinstance(p, SpecialChars))
            if type(r) is not cls:
                return f"{cls.__name__}({values['text']!r}).{h} gives a {type(r).__name__}"
            if s.s != before or r is s:
                return f"{cls.__name__}({values['text']!r}).{h} modified the original (parts {before} -> {s.s})"
        return None


@register
class MapString(Contract):
    """map_string: a string whose text is a key of the mapping becomes the mapped string (or one string per list entry, in order); any
    other string is left alone"""
    id = "C12.MapStringTransformation.apply_string_value"
    target = f"{TV}:MapStringTransformation.apply_string_value"
    props = ("C12",)
    cases = tuple((c, cls) for c in ("single", "list", "missing") for cls in ("SigmaString", "SigmaCasedString"))

    def setup(self, E):
        summarise_ctors(E, names=("SigmaString", "SigmaCasedString", "SigmaNumber", "SigmaBool", "SigmaNull", "SigmaRegularExpression"))

    def args(self, I, case):
        case, vcls = case
        idx = I.E.index
        key = {"single": "k1", "list": "k2", "missing": "zz"}[case]
        m1, m2a, m2b = I.fresh("m1", "str"), I.fresh("m2a", "str"), I.fresh("m2b", "str")
        val = SObj(idx.lookup(f"{TY}:{vcls}"), {"__str__": NativeFn("__str__", lambda I2, a, k: key)}, lazy=True)
        me = SObj(idx.lookup(f"{TV}:MapStringTransformation"), {"mapping": {"k1": m1, "k2": [m2a, m2b]}}, lazy=True)
        return {"self": me, "args": [I.fresh("field", "str"), val], "m": (m1, m2a, m2b), "case": case, "vcls": vcls}

    def post(self, I, inp, r):
        m1, m2a, m2b = inp["m"]
        want = "New" + inp["vcls"]
        if inp["case"] == "missing":
            I.ctx.require(r is None, "not in the mapping: left alone")
        elif inp["case"] == "single":
            I.ctx.require(isinstance(r, SObj) and r.cls == want and r.fields["a"][0] is m1, f"the mapped string, as a {inp['vcls']} (the class of the value it replaces)")
        else:
            r = I.force(r) if not isinstance(r, list) else r
            I.ctx.require(isinstance(r, list) and len(r) == 2 and all(isinstance(x, SObj) and x.cls == want for x in r) and r[0].fields["a"][0] is m2a and r[1].fields["a"][0] is m2b, f"one {inp['vcls']} per mapped entry, in order")

    def frame_ok(self, I, inp, obj, name):
        return False


@register
class SetValueInit(Contract):
    """set_value: the configured value typed as written (string, bool BEFORE number, number, null) or as forced (str / num); unsupported
    combinations are configuration errors"""
    id = "C12.SetValueTransformation.__post_init__"
    target = f"{TV}:SetValueTransformation.__post_init__"
    props = ("C12",)
    cases = tuple((v, f) for v in ("str", "bool", "int", "none", "list") for f in (None, "str", "num", "bogus"))

    def setup(self, E):
        summarise_ctors(E)
        E.summaries[f"{TB}:ValueTransformation.__post_init__"] = lambda I, so, a, k: None

    def args(self, I, case):
        v, f = case
        val = {"str": I.fresh("text", "str"), "bool": True, "int": I.fresh("n", "int"), "none": None, "list": [1]}[v]
        me = SObj(I.E.index.lookup(f"{TV}:SetValueTransformation"), {"force_type": f}, lazy=True)
        return {"self": me, "args": [val], "val": val, "case": case}

    def post(self, I, inp, r):
        v, f = inp["case"]
        sv_ = inp["self"].fields.get("sigma_value")
        c = I.ctx
        ok = isinstance(sv_, SObj) and sv_.cls.startswith("New")
        c.require(ok, "a Sigma value is stored")
        if not ok:
            return
        if f is None:
            want = {"str": "NewSigmaString", "bool": "NewSigmaBool", "int": "NewSigmaNumber", "none": "NewSigmaNull"}.get(v)
            c.require(want is not None and sv_.cls == want, f"a {v} value becomes {want}")
            if want and v != "none":
                c.require(sv_.fields["a"][0] is inp["val"] or sv_.fields["a"][0] == inp["val"], "with the configured value")
        else:
            c.require(v in ("str", "int", "bool") and f in ("str", "num"), "forced types only for strings and numbers")
            c.require(sv_.cls == ("NewSigmaString" if f == "str" else "NewSigmaNumber"), f"forced to {f}")

    def raises(self, I, inp, exc):
        v, f = inp["case"]
        bad = (f is None and v == "list") or (f is not None and (v in ("none", "list") or f == "bogus"))
        I.ctx.require(exc_is(I, exc, "SigmaConfigurationError") and bad, f"SigmaConfigurationError exactly for unsupported value / force_type combinations (got {exc_name(exc)} for {inp['case']})", kind="SAFE")

    def frame_ok(self, I, inp, obj, name):
        return obj is inp["self"] and name == "sigma_value"


@register
class SetValueApply(Contract):
    id = "C12.SetValueTransformation.apply_value"
    target = f"{TV}:SetValueTransformation.apply_value"
    props = ("C12",)

    def args(self, I):
        sv_ = SObj("Configured", {})
        return {"self": SObj(I.E.index.lookup(f"{TV}:SetValueTransformation"), {"sigma_value": sv_}, lazy=True), "args": [I.fresh("field", "str"), SObj("Old", {})], "sv": sv_}

    def post(self, I, inp, r):
        I.ctx.require(r is inp["sv"], "every value becomes the configured value")

    def frame_ok(self, I, inp, obj, name):
        return False


@register
class ConvertType(Contract):
    """convert_type: to str - numbers become the string of their text, other values are left alone; to num - strings become the number of
    their text (or SigmaValueError), other values are left alone; inside an expansion the same per entry"""
    id = "C12.ConvertTypeTransformation.apply_value"
    target = f"{TV}:ConvertTypeTransformation.apply_value"
    props = ("C12",)
    cases = tuple((t, k) for t in ("str", "num") for k in ("SigmaString", "SigmaNumber", "SigmaBool", "SigmaNull", "expansion"))

    def setup(self, E):
        summarise_ctors(E, ("SigmaString", "SigmaNumber"))

    def args(self, I, case):
        t, kind = case
        idx = I.E.index

        def mk(k, tag):
            txt = I.fresh(f"text_{tag}", "str")
            o = SObj(idx.lookup(f"{TY}:{k}"), {"__str__": NativeFn("__str__", lambda I2, a, kk: txt)}, lazy=True)
            o.ghost["txt"] = txt
            return o
        if kind == "expansion":
            entries = [mk("SigmaString", "e0"), mk("SigmaNumber", "e1"), mk("SigmaBool", "e2")]
            val = SObj(idx.lookup(f"{TY}:SigmaExpansion"), {"values": list(entries)}, lazy=True)
            val.ghost["entries"] = entries
        else:
            val = mk(kind, "v")
        me = SObj(idx.lookup(f"{TV}:ConvertTypeTransformation"), {"target_type": t}, lazy=True)
        return {"self": me, "args": [I.fresh("field", "str"), val], "val": val, "case": case}

    def post(self, I, inp, r):
        t, kind = inp["case"]
        c, val = I.ctx, inp["val"]
        src, dst = ("SigmaNumber", "NewSigmaString") if t == "str" else ("SigmaString", "NewSigmaNumber")
        if kind == "expansion":
            c.require(r is val, "the expansion itself is returned")
            vs = val.fields["values"]
            for e, got in zip(val.ghost["entries"], vs):
                if e.cls.name == src:
                    c.require(isinstance(got, SObj) and got.cls == dst and got.fields["a"][0] is e.ghost["txt"], f"a {src} entry becomes {dst} of its text")
                else:
                    c.require(got is e, "other entries are kept")
        elif kind == src:
            c.require(isinstance(r, SObj) and r.cls == dst and r.fields["a"][0] is val.ghost["txt"], f"a {src} becomes {dst} of its text")
        else:
            c.require(r is None, "values of other types are left alone")

    def raises(self, I, inp, exc):
        I.ctx.require(exc_is(I, exc, "SigmaValueError") and inp["case"][0] == "num", f"only SigmaValueError, only when converting to numbers (got {exc_name(exc)})", kind="SAFE")

    def frame_ok(self, I, inp, obj, name):
        return obj is inp["val"] and name == "values"


@register
class CaseApply(Contract):
    """case: lower -> val.lower(), upper -> val.upper(), snake_case -> val.snake_case()"""
    id = "C12.CaseTransformation.apply_string_value"
    target = f"{TV}:CaseTransformation.apply_string_value"
    props = ("C12",)
    cases = ("lower", "upper", "snake_case")

    def args(self, I, case):
        idx = I.E.index
        val = SObj(idx.lookup(f"{TY}:SigmaString"), {m: NativeFn(m, (lambda m: lambda I2, a, k: SObj("Cased", {"by": m}))(m)) for m in ("lower", "upper", "snake_case")}, lazy=True)
        return {"self": SObj(idx.lookup(f"{TV}:CaseTransformation"), {"method": case}, lazy=True), "args": [I.fresh("field", "str"), val], "case": case}

    def post(self, I, inp, r):
        I.ctx.require(isinstance(r, SObj) and r.cls == "Cased" and r.fields["by"] == inp["case"], f"the value's {inp['case']}() form")

    def frame_ok(self, I, inp, obj, name):
        return False


# ----------------------------------------------------------------------------------------------- rule-level transformations
PT = f"{TB}:PreprocessingTransformation.apply"


@register
class SetStateApply(Contract):
    """set_state writes key -> value into the state of the pipeline the item belongs to (later writes win), nothing else"""
    id = "C12.SetStateTransformation.apply"
    target = "sigma.processing.transformations.state:SetStateTransformation.apply"
    props = ("C12", "C13")
    cases = (True, False)

    def setup(self, E):
        E.summaries[PT] = lambda I, so, a, k: None

    def args(self, I, case):
        v, old = I.fresh("val", "str"), I.fresh("old", "str")
        state = {"k": old, "other": 1}
        pipe = SObj("Pipeline", {"state": state}) if case else None
        me = SObj(I.E.index.lookup("sigma.processing.transformations.state:SetStateTransformation"), {"key": "k", "val": v, "_pipeline": pipe}, lazy=True)
        return {"self": me, "args": [SObj(I.E.index.lookup("sigma.rule.rule:SigmaRule"), {}, lazy=True)], "state": state, "v": v, "case": case}

    def post(self, I, inp, r):
        st = inp["state"]
        if inp["case"]:
            I.ctx.require(set(st) == {"k", "other"} and st["k"] is inp["v"] and st["other"] == 1, "state[key] == val; other keys untouched")

    def frame_ok(self, I, inp, obj, name):
        return False


@register
class ChangeLogsourceApply(Contract):
    """change_logsource replaces the log source of a detection rule by (category, product, service) as configured; correlation rules are left alone"""
    id = "C12.ChangeLogsourceTransformation.apply"
    target = "sigma.processing.transformations.rule:ChangeLogsourceTransformation.apply"
    props = ("C12",)
    cases = ("rule", "correlation")

    def setup(self, E):
        E.summaries[PT] = lambda I, so, a, k: None
        E.summaries["sigma.rule.logsource:SigmaLogSource"] = lambda I, so, a, k: SObj("NewLogSource", {"a": list(a), "k": dict(k)})

    def args(self, I, case):
        idx = I.E.index
        f = {n: I.fresh(n, "str") for n in ("category", "product", "service")}
        old = SObj("OldLogSource", {})
        rule = SObj(idx.lookup("sigma.rule.rule:SigmaRule" if case == "rule" else "sigma.correlations:SigmaCorrelationRule"), {"logsource": old}, lazy=True)
        me = SObj(idx.lookup("sigma.processing.transformations.rule:ChangeLogsourceTransformation"), dict(f), lazy=True)
        return {"self": me, "args": [rule], "rule": rule, "old": old, "f": f, "case": case}

    def post(self, I, inp, r):
        ls = inp["rule"].fields["logsource"]
        if inp["case"] == "correlation":
            I.ctx.require(ls is inp["old"], "correlation rules keep what they have")
        else:
            a = ls.fields["a"] + [ls.fields["k"].get(n) for n in ("category", "product", "service")[len(ls.fields["a"]):]] if isinstance(ls, SObj) and ls.cls == "NewLogSource" else None
            I.ctx.require(a is not None and a[0] is inp["f"]["category"] and a[1] is inp["f"]["product"] and a[2] is inp["f"]["service"], "the new log source has the configured category, product and service, in this order")

    def frame_ok(self, I, inp, obj, name):
        return obj is inp["rule"] and name == "logsource"


@register
class DropDetectionItem(Contract):
    """drop_detection_item: exactly the detection items the item's conditions select are removed, the others keep their order"""
    id = "C12.DropDetectionItemTransformation.apply_detection"
    target = "sigma.processing.transformations.detection_item:DropDetectionItemTransformation.apply_detection"
    props = ("C12", "C13")
    cases = tuple(c for n in (0, 1, 2, 3) for c in __import__("itertools").product((False, True), repeat=n)) + ((False, "N"), ("N", True), (True, "N", False))
    assumed = ["the condition gate (processing_item.match_detection_item) is a given verdict per item; detections of 0..3 items, 'N' = a nested detection holding one selected and one unselected item"]

    def setup(self, E):
        E.summaries[f"{TB}:Transformation.processing_item_applied"] = lambda I, so, a, k: None

    def args(self, I, case):
        idx = I.E.index
        IT, D = idx.lookup("sigma.rule.detection:SigmaDetectionItem"), idx.lookup("sigma.rule.detection:SigmaDetection")
        items = []
        for i, sel in enumerate(case):
            if sel == "N":
                inner = [SObj(IT, {"field": f"n{i}a", "value": [], "modifiers": []}, lazy=True), SObj(IT, {"field": f"n{i}b", "value": [], "modifiers": []}, lazy=True)]
                inner[0].ghost["selected"], inner[1].ghost["selected"] = True, False
                it = SObj(D, {"detection_items": list(inner)}, lazy=True)
                it.ghost.update(selected=False, inner=inner)
            else:
                it = SObj(IT, {"field": f"f{i}", "value": [], "modifiers": []}, lazy=True)
                it.ghost["selected"] = sel
            items.append(it)
        det = SObj(D, {"detection_items": list(items)}, lazy=True)
        pi = SObj("ProcessingItem", {"match_detection_item": NativeFn("match_detection_item", lambda I2, a, k: a[0].ghost.get("selected", False))})
        me = SObj(idx.lookup("sigma.processing.transformations.detection_item:DropDetectionItemTransformation"), {"processing_item": pi}, lazy=True)
        return {"self": me, "args": [det], "det": det, "items": items, "case": case}

    def post(self, I, inp, r):
        want = [it for it, sel in zip(inp["items"], inp["case"]) if sel is not True]
        got = inp["det"].fields["detection_items"]
        got = I.force(got) if not isinstance(got, list) else got
        I.ctx.require(isinstance(got, list) and len(got) == len(want) and all(a is b for a, b in zip(got, want)), "the selected items are gone, the others (incl. nested detections) remain in order")
        for it in inp["items"]:
            if "inner" in it.ghost:
                g2 = it.fields["detection_items"]
                g2 = I.force(g2) if not isinstance(g2, list) else g2
                I.ctx.require(isinstance(g2, list) and len(g2) == 1 and g2[0] is it.ghost["inner"][1], "inside a nested detection the selected item is gone and the other one remains")

    def frame_ok(self, I, inp, obj, name):
        return name == "detection_items"


@register
class RuleFailure(Contract):
    id = "C12.RuleFailureTransformation.apply"
    target = "sigma.processing.transformations.failure:RuleFailureTransformation.apply"
    props = ("C12", "C08")

    def args(self, I):
        idx = I.E.index
        return {"self": SObj(idx.lookup("sigma.processing.transformations.failure:RuleFailureTransformation"), {"message": I.fresh("message", "str")}, lazy=True),
                "args": [SObj(idx.lookup("sigma.rule.rule:SigmaRule"), {"source": None}, lazy=True)]}

    def post(self, I, inp, r):
        I.ctx.require(False, "rule_failure always fails the rule")

    def raises(self, I, inp, exc):
        I.ctx.require(exc_is(I, exc, "SigmaTransformationError"), f"SigmaTransformationError (got {exc_name(exc)})", kind="SAFE")

    def frame_ok(self, I, inp, obj, name):
        return False


@register
class StrictFieldMapping(Contract):
    """strict field mapping: the rule fails iff one of its field names (at any nesting depth) is neither a source nor a target of a field
    mapping recorded for THIS rule; the error names exactly those fields"""
    id = "C12.StrictFieldMappingFailure.apply"
    target = "sigma.processing.transformations.failure:StrictFieldMappingFailure.apply"
    props = ("C12", "C08", "C13")
    cases = ("all_mapped", "one_unmapped", "nested_unmapped", "keyword_only", "correlation", "no_pipeline")

    def setup(self, E):
        E.summaries[PT] = lambda I, so, a, k: None

    def args(self, I, case):
        from pyvc.builtins_ import SDefaultDict
        idx = I.E.index
        D, IT = idx.lookup("sigma.rule.detection:SigmaDetection"), idx.lookup("sigma.rule.detection:SigmaDetectionItem")
        mk = lambda f: SObj(IT, {"field": f}, lazy=True)
        fields = {"all_mapped": ["src", "tgt"], "one_unmapped": ["src", "free"], "nested_unmapped": ["tgt"], "keyword_only": [None], "correlation": [], "no_pipeline": ["src"]}[case]
        items = [mk(f) for f in fields]
        if case == "nested_unmapped":
            items.append(SObj(D, {"detection_items": [mk("tgt"), SObj(D, {"detection_items": [mk("deep")]}, lazy=True)]}, lazy=True))
        det = SObj(D, {"detection_items": items}, lazy=True)
        tf = SDefaultDict()
        tf.factory = NativeFn("set", lambda I2, a, k: set())
        tf["tgt"] = {"orig"}
        fm = SObj("FieldMappings", {"data": {"src": {"x"}, "orig": {"tgt"}}, "target_fields": tf, "__contains__": NativeFn("__contains__", lambda I2, a, k: I2.force(a[0]) in ("src", "orig"))})
        pipe = None if case == "no_pipeline" else SObj("Pipeline", {"field_mappings": fm})
        rule = SObj(idx.lookup("sigma.correlations:SigmaCorrelationRule" if case == "correlation" else "sigma.rule.rule:SigmaRule"), {"detection": SObj("Detections", {"detections": {"sel": det}}), "source": None}, lazy=True)
        me = SObj(idx.lookup("sigma.processing.transformations.failure:StrictFieldMappingFailure"), {"_pipeline": pipe}, lazy=True)
        return {"self": me, "args": [rule], "case": case}

    def post(self, I, inp, r):
        I.ctx.require(inp["case"] in ("all_mapped", "keyword_only", "correlation"), "a rule with an unmapped field fails")

    def raises(self, I, inp, exc):
        I.ctx.require(exc_is(I, exc, "SigmaTransformationError") and inp["case"] in ("one_unmapped", "nested_unmapped", "no_pipeline"), f"SigmaTransformationError exactly for unmapped fields / a missing pipeline (got {exc_name(exc)} in {inp['case']})", kind="SAFE")

    def frame_ok(self, I, inp, obj, name):
        return False
