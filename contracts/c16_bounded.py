"""C16 bounded stand-in: real documents with the opt-in keys injected at every level, loaded with default arguments and used for a
conversion, observed with marker files / a local socket / an audit hook."""
from __future__ import annotations
import os, sys, json, copy, tempfile, shutil, itertools
from pyvc.api import *

RULE = "title: t\ntags:\n  - attack.t1059\n  - attack.g0001\nlogsource:\n  category: c\ndetection:\n  s:\n    f|expand: '%ph%'\n  condition: s\n"
CAPS = {"allow_external_sources": True, "allow_template_vars": True, "vars_allowed_paths": None}


def inject(d, level_mask, lvl=0):
    """copy of document d with the opt-in keys injected into every dict whose depth bit is set in level_mask"""
    if isinstance(d, dict):
        out = {k: inject(v, level_mask, lvl + 1) for k, v in d.items()}
        if level_mask & (1 << min(lvl, 4)):
            out.update(CAPS)
        return out
    if isinstance(d, list):
        return [inject(x, level_mask, lvl) for x in d]
    return d


@register
class C16Bounded(Bounded):
    id = "C16.bounded.injected_documents"
    props = ("C16",)

    def run(self, tier, seed):
        from sigma.processing.pipeline import ProcessingPipeline
        from sigma.collection import SigmaCollection
        from sigma.backends.test import TextQueryTestBackend
        from sigma.exceptions import SigmaError
        root = tempfile.mkdtemp(prefix="c16_")
        events = []
        marker = os.path.join(root, "MARK")
        secret = os.path.join(root, "secret.txt")
        open(secret, "w").write("TOPSECRET\n")
        varsfile = os.path.join(root, "vars", "v.py")
        os.makedirs(os.path.dirname(varsfile))
        open(varsfile, "w").write(f"open({marker + '_vars'!r}, 'w').write('x')\nvars = {{}}\n")
        sibling = os.path.join(root, "vars_shared", "v.py")
        os.makedirs(os.path.dirname(sibling))
        open(sibling, "w").write(f"open({marker + '_sibling'!r}, 'w').write('x')\nvars = {{}}\n")

        def hook(ev, args):
            if ev in ("subprocess.Popen", "os.system", "os.exec", "os.posix_spawn", "socket.connect", "socket.getaddrinfo", "socket.gethostbyname", "socket.gethostbyaddr", "socket.sendto", "socket.bind", "urllib.Request",
                      "http.client.connect") or (ev == "open" and args and (str(args[0]) == secret or str(args[0]).endswith("secretmod.jq"))):
                events.append((ev, str(args)[:80]))
        sys.addaudithook(hook)
        ext_items = [{"type": "command_placeholders", "cmd": f"touch {marker}_cmd", "include": ["ph"]},
                     {"type": "file_placeholders", "path": secret, "include": ["ph"]},
                     {"type": "http_placeholders", "url": "http://127.0.0.1:9/x", "include": ["ph"]},
                     {"type": "http_placeholders", "url": "http://host-chosen-by-the-pipeline.invalid/x", "include": ["ph"]}]      # a host NAME: resolving it is network access too
        # every parameter the external-source item classes declare (also ones added later), pointed at the secret file / set to zero
        import dataclasses
        from sigma.processing.transformations import transformations as _tr
        sweep = []
        for it in ext_items[:3]:
            for f in dataclasses.fields(_tr[it["type"]]):
                if not f.init or f.name in it or f.name in ("include", "exclude", "allow_external_sources"):
                    continue
                t = str(f.type)
                if "bool" in t:
                    continue
                if "str" in t and "dict" not in t:
                    sweep.append(dict(it, **{f.name: secret}))
                if "int" in t or "float" in t:
                    sweep.append(dict(it, **{f.name: 0}))
        # expressions a parameter may carry can name files themselves (a jq module directive): nothing is opened for them either
        open(os.path.join(root, "secretmod.jq"), "w").write("def f: .;\n")
        for it in ext_items[:3]:
            sweep.append(dict(it, format="json", jq_expression='include "secretmod" {search: "' + root + '"}; .[]'))
            sweep.append(dict(it, format="json", jq_expression='import "secretmod" as m {search: "' + root + '"}; .[]'))
        docs = []
        for it in ext_items:
            docs.append({"transformations": [dict(it)]})
            docs.append({"transformations": [{"type": "nest", "items": [dict(it)]}]})
            docs.append({"transformations": [{"type": "nest", "items": [{"type": "nest", "items": [dict(it)]}]}]})
        n_plain_docs = len(docs)
        tmpl = {"type": "template", "template": "{{ query }}", "vars": varsfile}
        docs.append({"transformations": [{"type": "value_placeholders", "include": ["ph"]}], "vars": {"ph": "v"}, "postprocessing": [dict(tmpl)]})
        docs.append({"transformations": [{"type": "value_placeholders", "include": ["ph"]}], "vars": {"ph": "v"}, "postprocessing": [{"type": "nest", "items": [dict(tmpl)]}]})
        docs.append({"transformations": [{"type": "value_placeholders", "include": ["ph"]}], "vars": {"ph": "v"}, "finalizers": [dict(tmpl, template="{{ queries }}")]})
        docs.append({"transformations": [{"type": "value_placeholders", "include": ["ph"]}], "vars": {"ph": "v"}, "finalizers": [{"type": "nested", "finalizers": [dict(tmpl, template="{{ queries }}")]}]})
        # template TEXT is part of the pipeline document too: it must not be able to build an opted-in object out of what the template is
        # given (the pipeline, the rule) - e.g. by calling a constructor / from_dict of a transformation with the opt-in key
        ph = {"transformations": [{"type": "value_placeholders", "include": ["ph"]}], "vars": {"ph": "v"}}
        esc_cmd = "{{ pipeline.items[-1].transformation.from_dict({'cmd': 'touch " + marker + "_cmd', 'allow_external_sources': true}).placeholder_replacements(none) | list }}"
        esc_file = "{{ pipeline.items[-1].transformation.from_dict({'path': '" + secret + "', 'allow_external_sources': true}).placeholder_replacements(none) | list }}"
        esc_pipe = "{{ pipeline.from_dict({'transformations': [{'type': 'command_placeholders', 'cmd': 'touch " + marker + "_cmd'}]}, true).items[0].transformation.placeholder_replacements(none) | list }}"
        esc_vars = "{{ pipeline.postprocessing_items[0].transformation.from_dict({'template': 'x', 'vars': '" + varsfile + "', 'allow_template_vars': true}) }}"
        for t_item, esc in ((ext_items[0], esc_cmd), (ext_items[1], esc_file), (ext_items[0], esc_pipe), (ext_items[0], esc_vars)):
            base = {"transformations": ph["transformations"] + [dict(t_item, include=["nothing"])], "vars": {"ph": "v"}}
            docs.append(dict(base, postprocessing=[{"type": "template", "template": esc + " {{ query }}"}]))
            docs.append(dict(base, finalizers=[{"type": "template", "template": esc + " {{ queries }}"}]))
        # conditions of items are evaluated on the rule and the pipeline only - with an EMPTY data cache too, no item condition may go and
        # fetch reference data (tag conditions named like ATT&CK tactics / techniques, log source and attribute conditions)
        try:
            import sigma.data.mitre_attack as _ma, sigma.data.mitre_d3fend as _md
            for _m in (_ma, _md):
                _m.set_cache_dir(os.path.join(root, "empty_cache_" + _m.__name__.rsplit(".", 1)[-1]))
        except Exception:
            pass
        for cond_ in ({"type": "tag", "tag": "attack.execution"}, {"type": "tag", "tag": "attack.t1059"}, {"type": "tag", "tag": "attack.defense-evasion"}, {"type": "rule_attribute", "attribute": "title", "value": "t", "op": "eq"}):
            docs.append({"transformations": [{"type": "value_placeholders", "include": ["ph"], "rule_conditions": [cond_]}, {"type": "field_name_prefix", "prefix": "x.", "rule_conditions": [cond_], "rule_cond_not": True}], "vars": {"ph": "v"}})
        masks = [0, 1, 2, 4, 8, 6, 14, 31] if tier == "quick" else list(range(32))
        ev = nontriv = 0
        fails, samples = [], []
        envs = [None, "0", "false", "no", "off", ""]
        saved_env = {k: os.environ.get(k) for k in ("PYSIGMA_ALLOW_EXTERNAL_SOURCES", "PYSIGMA_ALLOW_VARS_EXECUTION")}
        # what happened earlier in the process grants nothing either: before the default load, a load WITH every opt-in argument
        # succeeds / fails in its transformation, post-processing or finalizer section (an application handling a broken trusted file)
        nestok = {"type": "nest", "items": [{"type": "value_placeholders", "include": ["zz"]}]}
        priors = {"ok": {"transformations": [nestok], "postprocessing": [{"type": "nest", "items": []}]},
                  "fail-t": {"transformations": [nestok, {"type": "no_such_type"}]},
                  "fail-t-nested": {"transformations": [{"type": "nest", "items": [{"type": "no_such_type"}]}]},
                  "fail-p": {"transformations": [nestok], "postprocessing": [{"type": "no_such_type"}]},
                  "fail-f": {"transformations": [nestok], "finalizers": [{"type": "no_such_type"}]}}

        def prior_load(which):
            try:
                ProcessingPipeline.from_dict(copy.deepcopy(priors[which]), allow_external_sources=True, allow_template_vars=True, vars_allowed_paths=(root,))
            except SigmaError:
                pass
        for di, d in enumerate(docs):
            for mask, envv in [(m, None) for m in masks] + [(m, e) for m in (0, 31) for e in envs[1:]] + [(m, ("after", w)) for m in (0, 31) for w in priors]:
                prior = None
                if isinstance(envv, tuple):
                    prior, envv = envv[1], None
                for k in saved_env:         # a switched-off spelling of the documented variables grants nothing either
                    if envv is None:
                        os.environ.pop(k, None)
                    else:
                        os.environ[k] = envv
                for how in ("dict", "yaml"):
                    ev += 1
                    del events[:]
                    for m in ("_cmd", "_vars", "_sibling"):
                        if os.path.exists(marker + m):
                            os.unlink(marker + m)
                    dd = inject(copy.deepcopy(d), mask)
                    outcome = "ok"
                    if prior:
                        prior_load(prior)
                    try:
                        if how == "dict":
                            p = ProcessingPipeline.from_dict(dd)
                        else:
                            import yaml
                            p = ProcessingPipeline.from_yaml(yaml.safe_dump(dd))
                        out = TextQueryTestBackend(p).convert(SigmaCollection.from_yaml(RULE))
                        outcome = f"converted: {out}"
                    except SigmaError as e:
                        outcome = type(e).__name__
                    except Exception as e:
                        outcome = "non-sigma " + type(e).__name__
                    if mask:
                        nontriv += 1
                    bad = list(events) + [m for m in ("_cmd", "_vars", "_sibling") if os.path.exists(marker + m)]
                    if "TOPSECRET" in outcome:
                        bad.append("secret file content in query")
                    if bad:
                        fails.append({"text": f"document {di} ({how}, opt-in keys injected at depth mask {mask}, environment variables {'unset' if envv is None else '= ' + repr(envv)}{', after an opted-in load of kind ' + prior if prior else ''}) loaded with default arguments caused {bad}; outcome {outcome}", "input": [di, mask, how, envv, prior]})
                    if len(samples) < 4 and mask == 6 and how == "dict":
                        samples.append({"document": json.dumps(dd)[:300], "outcome": outcome})
        for k in saved_env:
            os.environ.pop(k, None)
        for it in sweep:
            for nested in (False, True):
                ev += 1
                nontriv += 1
                del events[:]
                for m in ("_cmd", "_vars", "_sibling"):
                    if os.path.exists(marker + m):
                        os.unlink(marker + m)
                dd = {"transformations": [{"type": "nest", "items": [dict(it)]}] if nested else [dict(it)]}
                try:
                    out = TextQueryTestBackend(ProcessingPipeline.from_dict(copy.deepcopy(dd))).convert(SigmaCollection.from_yaml(RULE))
                    outcome = f"converted: {out}"
                except SigmaError as e:
                    outcome = type(e).__name__
                except Exception as e:
                    outcome = "non-sigma " + type(e).__name__
                bad = list(events) + [m for m in ("_cmd", "_vars", "_sibling") if os.path.exists(marker + m)]
                if "TOPSECRET" in outcome:
                    bad.append("secret file content in query")
                if "secretmod" in str(it.get("jq_expression", "")):
                    # a library that opens files outside Python's audit hook: the outcome must not depend on what the named file contains
                    open(os.path.join(root, "secretmod.jq"), "w").write("this is not a jq module (((\n")
                    try:
                        out2 = TextQueryTestBackend(ProcessingPipeline.from_dict(copy.deepcopy(dd))).convert(SigmaCollection.from_yaml(RULE))
                        outcome2 = f"converted: {out2}"
                    except SigmaError as e:
                        outcome2 = type(e).__name__
                    except Exception as e:
                        outcome2 = "non-sigma " + type(e).__name__
                    open(os.path.join(root, "secretmod.jq"), "w").write("def f: .;\n")
                    if outcome2 != outcome:
                        bad.append(f"the outcome depends on the content of the file the expression names: {outcome} with a valid module, {outcome2} with a broken one")
                if bad:
                    extra = {k: v for k, v in it.items() if k not in ("type", "include", "cmd", "path", "url")}
                    fails.append({"text": f"{it['type']} item{' inside nest' if nested else ''} with the parameter {extra} loaded and used with default arguments caused {bad}; outcome {outcome}", "input": [it["type"], nested, sorted(extra)]})
        for k, v in saved_env.items():
            if v is None:
                os.environ.pop(k, None)
            else:
                os.environ[k] = v
        # allowed base directories: a sibling directory sharing the name prefix is rejected even with execution allowed
        for vf, inside in ((varsfile, True), (sibling, False)):
            ev += 1
            nontriv += 1
            try:
                ProcessingPipeline.from_dict({"postprocessing": [{"type": "template", "template": "{{ query }}", "vars": vf}]}, allow_template_vars=True,
                                             vars_allowed_paths=(os.path.dirname(varsfile),))
            except SigmaError:
                pass
            ran = os.path.exists(marker + ("_vars" if inside else "_sibling"))
            if ran != inside:
                fails.append({"text": f"vars file {vf} with allowed base {os.path.dirname(varsfile)}: executed={ran}, expected {inside}", "input": [vf]})
        # ... also when the item names the foreign directory itself in another option (the template directory `path`), or reaches it by a
        # relative path / a link that starts inside the allowed directory
        open(os.path.join(os.path.dirname(sibling), "t.j2"), "w").write("{{ query }}")
        try:
            os.symlink(sibling, os.path.join(os.path.dirname(varsfile), "link.py"))
        except OSError:
            pass
        foreign = [("template directory is the foreign directory", {"type": "template", "path": os.path.dirname(sibling), "template": "t.j2", "vars": sibling}),
                   ("relative path through ..", {"type": "template", "template": "{{ query }}", "vars": os.path.join(os.path.dirname(varsfile), "..", "vars_shared", "v.py")}),
                   ("relative name resolved below the allowed directory, with ..", {"type": "template", "template": "{{ query }}", "vars": os.path.join("..", "vars_shared", "v.py")}),
                   ("link inside the allowed directory", {"type": "template", "template": "{{ query }}", "vars": os.path.join(os.path.dirname(varsfile), "link.py")}),
                   ("relative link name", {"type": "template", "template": "{{ query }}", "vars": "link.py"})]
        for label, item in foreign:
            for section in ("postprocessing", "finalizers"):
                ev += 1
                nontriv += 1
                if os.path.exists(marker + "_sibling"):
                    os.unlink(marker + "_sibling")
                it2 = dict(item)
                if section == "finalizers":
                    it2["template"] = "t.j2" if "path" in it2 else "{{ queries }}"
                cwd = os.getcwd()
                try:
                    os.chdir(root)          # (relative names must not be found through the working directory either)
                    ProcessingPipeline.from_dict({section: [it2]}, allow_template_vars=True, vars_allowed_paths=(os.path.dirname(varsfile),))
                except SigmaError:
                    pass
                except Exception:
                    pass
                finally:
                    os.chdir(cwd)
                if os.path.exists(marker + "_sibling"):
                    fails.append({"text": f"vars file outside the allowed directory executed ({label}, {section}): item {it2}, allowed base {os.path.dirname(varsfile)}", "input": [label, section]})
        # the YAML text of a pipeline is data: tags that construct Python objects are not honoured (default arguments, every loader)
        evil_yaml = [f"name: p\ntransformations: []\nvars:\n  x: !!python/object/apply:os.system ['touch {marker}_cmd']\n",
                     f"name: p\npriority: !!python/object/apply:subprocess.check_output [['touch', '{marker}_cmd']]\ntransformations: []\n",
                     f"!!python/object/apply:os.system ['touch {marker}_cmd']\n"]
        yfile = os.path.join(root, "evil.yml")
        from sigma.processing.resolver import ProcessingPipelineResolver as _Res
        for text in evil_yaml:
            for name, load in (("from_yaml", lambda t: ProcessingPipeline.from_yaml(t)), ("resolver (file)", lambda t: (open(yfile, "w").write(t), _Res().resolve_pipeline(yfile))[1]),
                               ("resolver.resolve", lambda t: (open(yfile, "w").write(t), _Res().resolve([yfile]))[1])):
                ev += 1
                nontriv += 1
                del events[:]
                if os.path.exists(marker + "_cmd"):
                    os.unlink(marker + "_cmd")
                try:
                    load(text)
                except Exception:
                    pass            # rejecting the document (with whatever error the YAML reader has) is fine; running something is not
                if events or os.path.exists(marker + "_cmd"):
                    fails.append({"text": f"pipeline text with a Python object tag loaded through {name}: a command was run ({events[:2]}); text {text[:80]!r}", "input": ["yaml tag", name]})
        # templates loaded from a template directory (the `path` option) are sandboxed like inline templates
        tdir = os.path.join(root, "templates")
        os.makedirs(tdir, exist_ok=True)
        payloads = ["{{ cycler.__init__.__globals__.os.system('touch " + marker + "_cmd') }}", "{{ ''.__class__.__mro__[1].__subclasses__() | length }}{{ query.__class__.__init__.__globals__ }}",
                    "{{ lipsum.__globals__['os'].popen('touch " + marker + "_cmd').read() }}"]
        for pi_, payload in enumerate(payloads):
            open(os.path.join(tdir, f"t{pi_}.j2"), "w").write(payload)
            for doc in ({"postprocessing": [{"type": "template", "template": f"t{pi_}.j2", "path": tdir}]}, {"postprocessing": [{"type": "template", "template": payload}]},
                        {"finalizers": [{"type": "template", "template": f"t{pi_}.j2", "path": tdir}]}, {"finalizers": [{"type": "nested", "finalizers": [{"type": "template", "template": f"t{pi_}.j2", "path": tdir}]}]}):
                ev += 1
                nontriv += 1
                del events[:]
                if os.path.exists(marker + "_cmd"):
                    os.unlink(marker + "_cmd")
                try:
                    p = ProcessingPipeline.from_dict(copy.deepcopy(doc))
                    TextQueryTestBackend(p).convert(SigmaCollection.from_yaml(RULE.replace("f|expand: '%ph%'", "f: v")))
                except Exception:
                    pass
                if events or os.path.exists(marker + "_cmd"):
                    fails.append({"text": f"template {payload[:60]!r} in {list(doc)[0]} {'from a template directory' if 'path' in str(doc) else 'inline'}: a command was run during conversion ({events[:2]})", "input": ["template sandbox", pi_, list(doc)[0]]})
        # a vars path that runs THROUGH a symlinked directory inside the allowed directory is judged by where the file really is
        outside = os.path.join(root, "outside")
        os.makedirs(outside, exist_ok=True)
        open(os.path.join(outside, "v.py"), "w").write(f"open({marker + '_linked'!r}, 'w').write('x')\nvars = {{}}\n")
        try:
            os.symlink(outside, os.path.join(root, "vars", "linkdir"))
            os.symlink(os.path.join(outside, "v.py"), os.path.join(root, "vars", "linkfile.py"))
            links = True
        except OSError:
            links = False
        if links:
            for vf in (os.path.join(root, "vars", "linkdir", "v.py"), os.path.join(root, "vars", "linkfile.py"), os.path.join(root, "vars", "..", "outside", "v.py")):
                for kind in ("postprocessing", "finalizers"):
                    ev += 1
                    nontriv += 1
                    if os.path.exists(marker + "_linked"):
                        os.unlink(marker + "_linked")
                    try:
                        ProcessingPipeline.from_dict({kind: [{"type": "template", "template": "x", "vars": vf}]}, allow_template_vars=True, vars_allowed_paths=(os.path.join(root, "vars"),))
                    except (SigmaError, ValueError):
                        pass
                    if os.path.exists(marker + "_linked"):
                        fails.append({"text": f"vars file {vf} (really {os.path.realpath(vf)}) was executed although only {os.path.join(root, 'vars')} is allowed", "input": ["symlink", os.path.relpath(vf, root), kind]})
        # what an opted-in pipeline loaded from its vars file is not available to the templates of ANOTHER pipeline that names the same template file
        tdir2 = os.path.join(root, "shared_templates")
        os.makedirs(tdir2, exist_ok=True)
        open(os.path.join(tdir2, "q.j2"), "w").write("{{ query }}{% if helper is defined %}{{ helper() }}{% endif %}")
        hv = os.path.join(root, "vars", "helper.py")
        open(hv, "w").write(f"def helper():\n    open({marker + '_helper'!r}, 'w').write('x')\n    return ''\nvars = {{'helper': helper}}\n")
        tplain = {"postprocessing": [{"type": "template", "template": "q.j2", "path": tdir2}]}
        for order in ("opted-in first", "default first"):
            ev += 1
            nontriv += 1
            if os.path.exists(marker + "_helper"):
                os.unlink(marker + "_helper")
            try:
                mk_opt = lambda: ProcessingPipeline.from_dict({"postprocessing": [{"type": "template", "template": "q.j2", "path": tdir2, "vars": hv}]}, allow_template_vars=True, vars_allowed_paths=(os.path.join(root, "vars"),))
                if order == "opted-in first":
                    mk_opt()
                    pd = ProcessingPipeline.from_dict(copy.deepcopy(tplain))
                else:
                    pd = ProcessingPipeline.from_dict(copy.deepcopy(tplain))
                    mk_opt()
                TextQueryTestBackend(pd).convert(SigmaCollection.from_yaml(RULE.replace("f|expand: '%ph%'", "f: v")))
            except SigmaError:
                pass
            if os.path.exists(marker + "_helper"):
                fails.append({"text": f"a pipeline loaded with default arguments ran a helper that only another, opted-in pipeline had loaded from its vars file (same template file, {order})", "input": ["shared template", order]})
        # an EMPTY list of allowed directories allows no directory (it is not "no restriction"), for every way of passing it and every item kind
        tdoc = lambda vf: {"postprocessing": [{"type": "template", "template": "{{ query }}", "vars": vf}, {"type": "nest", "items": []}],
                           "finalizers": [{"type": "template", "template": "{{ queries }}", "vars": vf}, {"type": "nested", "finalizers": [{"type": "template", "template": "x", "vars": vf}]}]}
        import yaml as _yaml
        for empty in ((), []):
            for how in ("dict", "yaml"):
                ev += 1
                nontriv += 1
                for m in ("_vars", "_sibling"):
                    if os.path.exists(marker + m):
                        os.unlink(marker + m)
                try:
                    if how == "dict":
                        ProcessingPipeline.from_dict(tdoc(varsfile), allow_template_vars=True, vars_allowed_paths=empty)
                    else:
                        ProcessingPipeline.from_yaml(_yaml.safe_dump(tdoc(varsfile)), allow_template_vars=True, vars_allowed_paths=empty)
                except (SigmaError, ValueError, TypeError):
                    pass
                if os.path.exists(marker + "_vars"):
                    fails.append({"text": f"allow_template_vars=True with vars_allowed_paths={empty!r} ({how}): the vars file {varsfile} was executed although no directory is allowed", "input": ["empty allow-list", how]})
        # directories derived from the pipeline file's location are a restriction, not an opt-in: a file loaded by name with default arguments
        # executes no vars file, not even one next to it
        pfile = os.path.join(root, "vars", "pipeline.yml")
        open(pfile, "w").write(_yaml.safe_dump(tdoc("v.py")))
        open(os.path.join(root, "vars", "abs.yml"), "w").write(_yaml.safe_dump(tdoc(varsfile)))
        from sigma.processing.resolver import ProcessingPipelineResolver
        for name, load in (("from_yaml with source_path", lambda f: ProcessingPipeline.from_yaml(open(f).read(), source_path=f)), ("resolver.resolve_pipeline", lambda f: ProcessingPipelineResolver().resolve_pipeline(f)),
                           ("resolver.resolve of the directory", lambda f: ProcessingPipelineResolver().resolve([os.path.dirname(f)]))):
            for f in (pfile, os.path.join(root, "vars", "abs.yml")):
                ev += 1
                nontriv += 1
                if os.path.exists(marker + "_vars"):
                    os.unlink(marker + "_vars")
                cwd = os.getcwd()
                try:
                    os.chdir(os.path.dirname(f))
                    load(f)
                except (SigmaError, ValueError, TypeError, OSError):
                    pass
                finally:
                    os.chdir(cwd)
                if os.path.exists(marker + "_vars"):
                    fails.append({"text": f"pipeline file {f} loaded through {name} with default arguments executed the vars file next to it", "input": ["source_path", name, os.path.basename(f)]})
        shutil.rmtree(root, ignore_errors=True)
        return {"evaluations": ev, "distinct_nontrivial": nontriv, "failures": fails[:20], "bound": f"{len(docs)} item shapes x {len(masks)} injection-depth masks x (from_dict, from_yaml), default arguments, environment variables unset; masks 0 and 31 also with the variables set to '0', 'false', 'no', 'off', '', and after an earlier load with every opt-in argument that succeeded / failed in each section",
                "rule": "distinct (document, mask, loader) triples; non-trivial = at least one injected key", "samples": samples, "exhaustive": tier != "quick"}
