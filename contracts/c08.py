"""C08 - a failing rule never changes other rules' output; every query is accounted for (sigma/conversion/base.py)."""
from __future__ import annotations
import z3
from pyvc.api import *
from pyvc.values import *
from pyvc import ops


def q(I, name):
    return I.fresh(name, "opaque", "Query")


@register
class BackendConvert(Contract):
    """Backend.convert: (re)initialises the pipeline first, resolves references, converts every rule in collection order with
    the right converter, and finalises exactly the concatenation of the per-rule query lists.  Callees are abstract
    (may return any list).  Number of rules unrolled (0..2, both rule kinds) - stated bound; everything else symbolic."""
    id = "C08.Backend.convert"
    target = "sigma.conversion.base:Backend.convert"
    props = ("C08", "C14", "C15", "C09")
    cases = ("", "R", "C", "RR", "RC", "CR", "CC")
    assumed = ["convert_rule / convert_correlation_rule / finalize / init_processing_pipeline are abstract callees with their own contracts", "collections of 0..2 rules (unrolled)"]

    def setup(self, E):
        def tr(I):
            return I.E._trace

        def s_init(I, so, a, k):
            I.E._trace.append(("init", a[0] if a else k.get("output_format")))
        E.summaries["sigma.conversion.base:Backend.init_processing_pipeline"] = s_init

        def s_rule(kind):
            def f(I, so, a, k):
                rule = a[0]
                n = rule.ghost["nq"]
                out = [q(I, f"{rule.ghost['name']}.q{j}") for j in range(n)]
                I.E._trace.append((kind, rule.ghost["name"], a[1:], out))
                return out
            return f
        E.summaries["sigma.conversion.base:Backend.convert_rule"] = s_rule("convert_rule")
        E.summaries["sigma.conversion.base:Backend.convert_correlation_rule"] = s_rule("convert_correlation_rule")

        def s_fin(I, so, a, k):
            r = I.fresh("final", "opaque", "Output")
            I.E._trace.append(("finalize", list(a[0]), a[1], r))
            return r
        E.summaries["sigma.conversion.base:Backend.finalize"] = s_fin

    def args(self, I, case):
        I.E._trace = []
        R = I.E.index.lookup("sigma.rule.rule:SigmaRule") if I.E.index.module("sigma.rule.rule") else I.E.index.lookup("sigma.rule:SigmaRule")
        C = I.E.index.lookup("sigma.correlations:SigmaCorrelationRule")
        rules = []
        for i, kd in enumerate(case):
            # rules loaded with error collection may carry (non-fatal) parse errors: they are converted like any other rule - a rule is
            # never dropped without a query or an error record
            o = SObj(R if kd == "R" else C, {"errors": [SObj("CollectedParseError", {})] if i == 0 else []}, lazy=True)
            o.ghost.update(name=f"r{i}", nq=(i % 2) + 1, kind=kd)
            rules.append(o)
        coll = SObj(I.E.index.lookup("sigma.collection:SigmaCollection"), {"rules": rules}, lazy=True)
        def s_resolve(I2, so, a, k):       # resolution REBINDS collection.rules to a new list in reference order (here: the reverse order)
            I2.E._trace.append(("resolve",))
            so.fields["rules"] = list(reversed(so.fields["rules"]))
        I.E.summaries["sigma.collection:SigmaCollection.resolve_rule_references"] = s_resolve
        # pre-state: the backend may have converted before (a combined pipeline of an earlier run is still attached)
        I.E.opaque_methods[("Dict", "get")] = ((), "str")
        old = SObj(I.E.index.lookup("sigma.processing.pipeline:ProcessingPipeline"), {"vars": I.fresh("old_vars", "opaque", "Dict")}, lazy=True)
        me = SObj(I.E.index.lookup("sigma.conversion.base:Backend"), {"default_format": "default", "last_processing_pipeline": SOpt(z3.Bool(I.ctx.fresh_name("first_run")), old)}, lazy=True)
        fmt = SOpt(z3.Bool(I.ctx.fresh_name("fmt_none")), "fmt")
        cm, cb = I.fresh("method", "opaque", "Any"), I.fresh("callback", "opaque", "Any")
        return {"self": me, "args": [coll, fmt, cm, cb], "rules": rules, "fmt": fmt}

    def post(self, I, inp, r):
        c, t = I.ctx, I.E._trace
        c.require(len(t) >= 1 and t[0][0] == "init", "the processing pipeline is (re)initialised before anything else in every convert() call")
        c.require(len(t) >= 2 and t[1][0] == "resolve", "rule references are resolved before conversion")
        body = t[2:-1]
        want = [("convert_rule" if x.ghost["kind"] == "R" else "convert_correlation_rule", x.ghost["name"]) for x in reversed(inp["rules"])]
        c.require([(x[0], x[1]) for x in body] == want, "every rule is converted exactly once, in the collection's order AFTER reference resolution, by the converter for its kind")
        ok = len(t) >= 1 and t[-1][0] == "finalize"
        c.require(ok, "finalize runs once, last")
        if ok:
            allq = [qq for x in body for qq in x[3]]
            c.require(len(allq) == len(t[-1][1]) and all(a is b for a, b in zip(allq, t[-1][1])), "finalize receives exactly the per-rule query lists concatenated in collection order")
            c.require(r is t[-1][3], "the result is what finalize returned")

    def frame_ok(self, I, inp, obj, name):
        return False

    def replay(self, values):
        # history: convert, exchange the user's pipeline, convert again - the second run must use the new pipeline
        from sigma.backends.test import TextQueryTestBackend
        from sigma.collection import SigmaCollection
        from sigma.processing.pipeline import ProcessingPipeline, ProcessingItem
        from sigma.processing.transformations import AddFieldnamePrefixTransformation
        rule = "title: t\nlogsource:\n  category: c\ndetection:\n  s:\n    f: v\n  condition: s\n"
        mk = lambda p: ProcessingPipeline(items=[ProcessingItem(identifier=p, transformation=AddFieldnamePrefixTransformation(prefix=p))])
        b = TextQueryTestBackend(mk("a_"))
        q1 = b.convert(SigmaCollection.from_yaml(rule))
        b.processing_pipeline = mk("b_")
        q2 = b.convert(SigmaCollection.from_yaml(rule))
        fresh = TextQueryTestBackend(mk("b_")).convert(SigmaCollection.from_yaml(rule))
        return None if q2 == fresh else f"second convert() after exchanging backend.processing_pipeline gave {q2}, a fresh backend gives {fresh} (first run: {q1})"


# ----------------------------------------------------------------------------------------------- convert_rule
def may_fail(I, tag):
    """abstract callee failure: raises a Sigma error object (fresh) on one branch"""
    ok = I.fresh(tag + "_ok", "bool")
    if not I.ctx.branch(ok.t):
        from pyvc.interp import PyRaise
        e = SObj(I.E.index.lookup("sigma.exceptions:SigmaError"), {}, lazy=True)
        e.ghost["raised_by"] = tag
        I.E._c08_raised.append(e)
        raise PyRaise(e)


@register
class ConvertRule(Contract):
    """Backend.convert_rule with abstract pipeline / condition conversion / finish / callback / finalize (each may return anything or
    raise a Sigma error at any stage).  Normal exit: one finalized query per condition whose query is not None, in condition order,
    one fresh ConversionState per condition; a Sigma error with error collection: no query and exactly one (rule, error) record and
    nothing else written; without collection the error propagates.  0..2 conditions (unrolled)."""
    id = "C08.Backend.convert_rule"
    target = "sigma.conversion.base:Backend.convert_rule"
    props = ("C08", "C14", "C15")
    cases = tuple((n, br, fin) for n in (0, 1, 2) for br in (False, True) for fin in (False, True))
    max_paths = 6000
    assumed = ["callees are abstract: apply / convert_condition / finish_query / callback / finalize_query return a fresh value, None where allowed, or raise a Sigma error",
               "rules with 0..2 conditions (unrolled)", "non-Sigma exceptions of callees are re-raised (not modelled)"]

    def setup(self, E):
        def s_cc(I, so, a, k):
            cond = a[0]
            I.E._c08_trace.append(("convert", cond, a[1]))
            may_fail(I, f"convert{cond.ghost['i']}")
            return SOpt(z3.Bool(I.ctx.fresh_name(f"q{cond.ghost['i']}_none")), I.fresh(f"q{cond.ghost['i']}", "opaque", "Query"))
        E.summaries["sigma.conversion.base:Backend.convert_condition"] = s_cc

        def s_finish(I, so, a, k):
            I.E._c08_trace.append(("finish", a[1], a[2]))
            may_fail(I, "finish")
            r = I.fresh("finished", "opaque", "Query")
            I.E._c08_finished[id(r)] = a[1]
            return r
        E.summaries["sigma.conversion.base:Backend.finish_query"] = s_finish

        def s_finalize(I, so, a, k):
            rec = ["finalize", a[1], a[2], a[3], a[4], None]
            I.E._c08_trace.append(rec)
            may_fail(I, "finalize")
            r = I.fresh("finalized", "opaque", "Query")
            rec[5] = r
            return r
        E.summaries["sigma.conversion.base:Backend.finalize_query"] = s_finalize
        E.summaries["sigma.conversion.base:Backend.init_processing_pipeline"] = lambda I, so, a, k: I.E._c08_trace.append(("init",))

    def args(self, I, case):
        n, backrefs, fin_sub = case
        I.E._c08_trace, I.E._c08_raised, I.E._c08_finished = [], [], {}
        idx = I.E.index

        def f_apply(I2, a, k):
            I2.E._c08_trace.append(("apply", a[0]))
            may_fail(I2, "apply")
        pipe = SObj("Pipeline", {"apply": NativeFn("apply", f_apply), "state": {"k": "v"}})
        conds = []
        for i in range(n):
            c = SObj("Cond", {"parsed": SObj("Parsed", {}, ghost={"i": i})})
            conds.append(c)
        stored = {}
        rule = SObj(idx.lookup("sigma.rule.rule:SigmaRule"), {
            "detection": SObj("Detections", {"parsed_condition": conds}), "_backreferences": ["corr"] if backrefs else [], "_output": I.fresh("output", "bool"),
            "set_conversion_result": NativeFn("scr", lambda I2, a, k: stored.__setitem__("result", a[0])), "set_conversion_states": NativeFn("scs", lambda I2, a, k: stored.__setitem__("states", a[0])),
            "source": None}, lazy=True)
        old_errors = [("old", "err")]
        me = SObj(idx.lookup("sigma.conversion.base:Backend"), {"last_processing_pipeline": pipe, "collect_errors": I.fresh("collect_errors", "bool"), "errors": list(old_errors),
                                                                "finalize_correlation_subqueries": fin_sub, "default_format": "default"}, lazy=True)
        cb_none = z3.Bool(I.ctx.fresh_name("callback_none"))

        def f_cb(I2, a, k):
            I2.E._c08_trace.append(("callback", a[2], a[4]))
            may_fail(I2, "callback")
            return SOpt(z3.Bool(I2.ctx.fresh_name(f"cb{a[2]}_drops")), I2.fresh(f"cb{a[2]}", "opaque", "Query"))
        cb = SOpt(cb_none, NativeFn("callback", f_cb))
        return {"self": me, "args": [rule, "fmt", cb], "rule": rule, "stored": stored, "old_errors": old_errors, "case": case, "conds": conds}

    def post(self, I, inp, r):
        c, me, rule = I.ctx, inp["self"], inp["rule"]
        n, backrefs, fin_sub = inp["case"]
        tr = I.E._c08_trace
        raised = I.E._c08_raised
        if raised:
            # a callee raised a Sigma error and convert_rule returned normally: only allowed with error collection
            ce = me.fields["collect_errors"]
            c.require(ops.mk_bool_term(ops.truth(I, ce)), "a Sigma error is swallowed only when the backend collects errors")
            c.require(isinstance(r, list) and len(r) == 0, "a rule that fails contributes no query")
            errs = me.fields["errors"]
            c.require(isinstance(errs, list) and len(errs) == len(inp["old_errors"]) + 1 and errs[:-1] == inp["old_errors"] and isinstance(errs[-1], tuple) and errs[-1][0] is rule and errs[-1][1] is raised[0],
                      "exactly one (rule, error) record is appended, earlier records untouched")
            return
        c.require(me.fields["errors"] == inp["old_errors"], "no error record without an error")
        c.require(len(tr) >= 1 and tr[0][0] == "apply" and tr[0][1] is rule, "the pipeline is applied to the rule first (transformations before conversion)")
        conv = [t for t in tr if t[0] == "convert"]
        c.require([t[1] for t in conv] == [x.fields["parsed"] for x in inp["conds"]], "every condition is converted exactly once, in condition order")
        states = [t[2] for t in conv]
        c.require(len({id(s) for s in states}) == len(states) and all(isinstance(s, SObj) and getattr(s, "born", None) is I.ctx for s in states), "one fresh conversion state per condition")
        c.require(all(s.fields.get("processing_state") == {"k": "v"} and s.fields["processing_state"] is not me.fields["last_processing_pipeline"].fields["state"] for s in states),
                  "each state gets a copy of the pipeline state")
        # queries accounted for
        finals = [t for t in tr if t[0] == "finalize"]
        expect_final = fin_sub or not backrefs
        res = inp["stored"].get("result")
        c.require(isinstance(res, list), "the conversion result is stored on the rule")
        if isinstance(res, list):
            if expect_final:
                c.require(len(finals) == len(res), "every emitted query is finalized (post-processed) exactly once")
                c.require([t[2] for t in finals] == list(range(len(finals))), "queries are finalized in order")
            else:
                c.require(not any(x is f[5] for x in res for f in finals), "the STORED queries - what a correlation rule embeds - are not finalized unless the backend opts in")
            out = rule.fields["_output"]
            t = ops.truth(I, out)
            if expect_final:
                c.require(z3.If(ops.mk_bool_term(t), z3.BoolVal(r is res or r == res), z3.BoolVal(isinstance(r, list) and len(r) == 0)), "result == the finalized queries if the rule's output is enabled, else nothing")
            else:
                # taken from the property (C14: query post-processing on EVERY emitted query): a rule that is emitted on its own as well
                # (generate) is emitted finalized - one finalisation per query, in order; without output nothing is finalized
                emitted = isinstance(r, list) and len(r) == len(res) == len(finals) and all(x is f[5] for x, f in zip(r, finals)) and [f[2] for f in finals] == list(range(len(finals)))
                c.require(z3.If(ops.mk_bool_term(t), z3.BoolVal(emitted), z3.BoolVal(isinstance(r, list) and len(r) == 0 and len(finals) == 0)),
                          "a referenced rule that is emitted on its own as well is emitted finalized (every query once, in order); one that is not emitted is not finalized at all")
            c.require(inp["stored"].get("states") == states, "conversion states are stored on the rule")

    def raises(self, I, inp, exc):
        me = inp["self"]
        raised = I.E._c08_raised
        ok = bool(raised) and exc is raised[0]
        I.ctx.require(z3.And(z3.BoolVal(ok), z3.Not(ops.mk_bool_term(ops.truth(I, me.fields["collect_errors"])))), f"only the callee's Sigma error propagates, and only without error collection (got {exc_name(exc)})", kind="SAFE")
        I.ctx.require(me.fields["errors"] == inp["old_errors"], "no error record when the error is raised")

    def frame_ok(self, I, inp, obj, name):
        return False


CBm = "sigma.conversion.base"
PPm = "sigma.processing.pipeline"


@register
class FinalizeQuery(Contract):
    """Backend.finalize_query: the query goes through the finalizer of the REQUESTED output format (rule, query, index, state) and then
    through the post-processing items of the combined pipeline; an unknown format is a backend error"""
    id = "C08.Backend.finalize_query"
    target = f"{CBm}:Backend.finalize_query"
    props = ("C08", "C14")
    cases = tuple((f, u) for f in ("default", "other", "unknown") for u in ("user pipeline", "no user pipeline"))      # no user pipeline behaves like the empty one: backend and format pipelines still post-process

    def args(self, I, case):
        case, user = case
        idx = I.E.index
        log = []

        def fq(name):
            def f(I2, a, k):
                r = SObj("FormatQuery", {"by": name, "a": list(a)})
                log.append(("format", name))
                return r
            return NativeFn("finalize_query_" + name, f)

        def pq(I2, a, k):
            log.append(("postprocess", a[0], a[1]))
            return SObj("Postprocessed", {"of": a[1], "rule": a[0]})
        pipe = SObj("Pipeline", {"postprocess_query": NativeFn("postprocess_query", pq)})
        fmt = {"default": "default", "other": "other", "unknown": "nope"}[case]
        me = SObj(idx.lookup(f"{CBm}:Backend"), {"formats": {"default": "d", "other": "o"}, "finalize_query_default": fq("default"), "finalize_query_other": fq("other"), "last_processing_pipeline": pipe,
                                                  "processing_pipeline": SObj("UserPipeline", {"postprocess_query": NativeFn("user.postprocess_query", lambda I2, a, k: (log.append(("user-only postprocess",)), a[1])[1])}) if user == "user pipeline" else None}, lazy=True)
        rule, q, st, i = SObj("Rule", {}), SObj("Query", {}), SObj("State", {}), I.fresh("index", "int")
        return {"self": me, "args": [rule, q, i, st, fmt], "log": log, "rule": rule, "q": q, "st": st, "i": i, "case": case}

    def post(self, I, inp, r):
        c, log, case = I.ctx, inp["log"], inp["case"]
        c.require(case != "unknown", "an unknown output format is rejected")
        ok = isinstance(r, SObj) and r.cls == "Postprocessed" and isinstance(r.fields["of"], SObj) and r.fields["of"].cls == "FormatQuery"
        c.require(ok, "the result is the post-processed format-specific query")
        if ok:
            fqr = r.fields["of"]
            c.require(fqr.fields["by"] == case and fqr.fields["a"][0] is inp["rule"] and fqr.fields["a"][1] is inp["q"] and fqr.fields["a"][2] is inp["i"] and fqr.fields["a"][3] is inp["st"],
                      f"finalize_query_{case} receives rule, query, index and state")
            c.require(r.fields["rule"] is inp["rule"] and [x[0] for x in log] == ["format", "postprocess"], "format-specific finalisation first, then post-processing, each once")

    def raises(self, I, inp, exc):
        I.ctx.require(exc_is(I, exc, "SigmaBackendError") and inp["case"] == "unknown" and not inp["log"], f"SigmaBackendError exactly for an unknown format, before anything runs (got {exc_name(exc)})", kind="SAFE")

    def frame_ok(self, I, inp, obj, name):
        return False


@register
class FinalizeOutput(Contract):
    """Backend.finalize: all queries go through the output finalizer of the requested format and then through the finalizers of the combined pipeline"""
    id = "C08.Backend.finalize"
    target = f"{CBm}:Backend.finalize"
    props = ("C08", "C14")
    cases = tuple((f, u) for f in ("default", "other", "unknown") for u in ("user pipeline", "no user pipeline"))

    def args(self, I, case):
        case, user = case
        idx = I.E.index
        log = []
        fo = lambda name: NativeFn("finalize_output_" + name, lambda I2, a, k: (log.append(("format", name)), SObj("FormatOutput", {"by": name, "of": a[0]}))[1])
        pipe = SObj("Pipeline", {"finalize": NativeFn("finalize", lambda I2, a, k: (log.append(("pipeline",)), SObj("Finalized", {"of": a[0]}))[1])})
        fmt = {"default": "default", "other": "other", "unknown": "nope"}[case]
        me = SObj(idx.lookup(f"{CBm}:Backend"), {"formats": {"default": "d", "other": "o"}, "finalize_output_default": fo("default"), "finalize_output_other": fo("other"), "last_processing_pipeline": pipe,
                                                  "processing_pipeline": SObj("UserPipeline", {"finalize": NativeFn("user.finalize", lambda I2, a, k: (log.append(("user-only finalize",)), a[0])[1])}) if user == "user pipeline" else None}, lazy=True)
        qs = [SObj("Q", {}), SObj("Q", {})]
        return {"self": me, "args": [qs, fmt], "log": log, "qs": qs, "case": case}

    def post(self, I, inp, r):
        case = inp["case"]
        I.ctx.require(case != "unknown", "an unknown output format is rejected")
        ok = isinstance(r, SObj) and r.cls == "Finalized" and isinstance(r.fields["of"], SObj) and r.fields["of"].cls == "FormatOutput"
        I.ctx.require(ok and r.fields["of"].fields["by"] == case and r.fields["of"].fields["of"] is inp["qs"] and [x[0] for x in inp["log"]] == ["format", "pipeline"],
                      f"finalize_output_{case}(queries), then the pipeline's finalizers, each once")

    def raises(self, I, inp, exc):
        I.ctx.require(exc_is(I, exc, "SigmaBackendError") and inp["case"] == "unknown" and not inp["log"], f"SigmaBackendError exactly for an unknown format (got {exc_name(exc)})", kind="SAFE")

    def frame_ok(self, I, inp, obj, name):
        return False


@register
class PipelinePostprocessQuery(Contract):
    """ProcessingPipeline.postprocess_query: the post-processing items are applied in order, each to the result of the previous one; the
    identifiers of the items that applied are recorded"""
    id = "C08.ProcessingPipeline.postprocess_query"
    target = f"{PPm}:ProcessingPipeline.postprocess_query"
    props = ("C08", "C14", "C13")
    cases = tuple(c for n in (0, 1, 2, 3) for c in __import__("itertools").product((False, True), repeat=n))

    def args(self, I, case):
        idx = I.E.index
        items, chain = [], []
        rule = SObj("Rule", {})
        q0 = SObj("Query", {}, ghost={"n": 0})
        events = []          # order in which conditions are evaluated and transformations run (an item's conditions may depend on what ran before it)
        for i, applied in enumerate(case):
            def cond(I2, a, k, i=i, applied=applied):
                events.append(("cond", i))
                return applied

            def tr(I2, a, k, i=i):
                events.append(("run", i))
                return SObj("Query", {}, ghost={"n": i + 1, "from": a[1]})

            def ap(I2, a, k, i=i, applied=applied):
                chain.append((i, a[0], a[1]))
                events.append(("cond", i))
                if applied:
                    events.append(("run", i))
                return (SObj("Query", {}, ghost={"n": i + 1, "from": a[1]}), applied)
            items.append(SObj("Item", {"apply": NativeFn("apply", ap), "identifier": f"id{i}" if i != 1 else None, "match_rule_conditions": NativeFn("match_rule_conditions", cond),
                                       "transformation": SObj("T", {"apply": NativeFn("apply", tr)})}))
        ids = {"earlier"}
        me = SObj(idx.lookup(f"{PPm}:ProcessingPipeline"), {"postprocessing_items": items, "applied_ids": ids}, lazy=True)
        return {"self": me, "args": [rule, q0], "chain": chain, "rule": rule, "q0": q0, "ids": ids, "case": case, "events": events}

    def post(self, I, inp, r):
        c, chain, case = I.ctx, inp["chain"], inp["case"]
        want_ev = []
        for i, ap_ in enumerate(case):
            want_ev.append(("cond", i))
            if ap_:
                want_ev.append(("run", i))
        c.require(inp["events"] == want_ev, "the conditions of an item are evaluated when its turn comes - after the items before it have run (they may ask whether an earlier item was applied)")
        c.require([x[0] for x in chain] == list(range(len(case))) and all(x[1] is inp["rule"] for x in chain), "every item is applied once, in order, for this rule")
        prev = inp["q0"]
        for x in chain:
            c.require(x[2] is prev or (isinstance(x[2], SObj) and x[2].ghost.get("n") == x[0] and (x[0] == 0 or x[2].ghost.get("from") is not None)), "each item receives the result of the previous one")
            prev = None
        if case:
            c.require(isinstance(r, SObj) and r.ghost.get("n") == len(case), "the result of the last item is returned")
        else:
            c.require(r is inp["q0"], "without items the query is returned unchanged")
        want = {"earlier"} | {f"id{i}" for i, ap_ in enumerate(case) if ap_ and i != 1}
        c.require(set(inp["ids"]) == want, f"identifiers of exactly the items that applied are recorded: {sorted(want)}")

    def frame_ok(self, I, inp, obj, name):
        return False


@register
class PipelineFinalize(Contract):
    """ProcessingPipeline.finalize: the finalizers are applied in order, each to the output of the previous one"""
    id = "C08.ProcessingPipeline.finalize"
    target = f"{PPm}:ProcessingPipeline.finalize"
    props = ("C08", "C14")
    cases = tuple((n, kind) for n in (0, 1, 2, 3) for kind in ("an object", "an empty list of queries", "two queries", "an empty text"))      # finalizers run once on the whole output, also when nothing was emitted

    def args(self, I, case):
        n, kind = case
        fins = [SObj("Finalizer", {"apply": NativeFn("apply", (lambda i: lambda I2, a, k: SObj("Out", {"by": i, "of": a[0]}))(i))}) for i in range(n)]
        out0 = {"an object": SObj("Out", {"by": -1}), "an empty list of queries": [], "two queries": [SObj("Q", {}), SObj("Q", {})], "an empty text": ""}[kind]
        return {"self": SObj(I.E.index.lookup(f"{PPm}:ProcessingPipeline"), {"finalizers": fins}, lazy=True), "args": [out0], "out0": out0, "case": n}

    def post(self, I, inp, r):
        x, n = r, inp["case"]
        ok = True
        for i in reversed(range(n)):
            ok = ok and isinstance(x, SObj) and x.fields.get("by") == i
            x = x.fields.get("of") if ok else None
        I.ctx.require(ok and x is inp["out0"], "finalizer n-1 ( ... finalizer 0 (output))")

    def frame_ok(self, I, inp, obj, name):
        return False
