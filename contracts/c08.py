"""C08 - a failing rule never changes other rules' output; every query is accounted for (sigma/conversion/base.py)."""
from __future__ import annotations
import z3
from pyvc.api import *
from pyvc.values import *
from pyvc import ops


def q(I, name):
    return I.fresh(name, "opaque", "Query")


@register
class BackendConvert(Contract):
    """Backend.convert: (re)initialises the pipeline first, resolves references, converts every rule in collection order with
    the right converter, and finalises exactly the concatenation of the per-rule query lists.  Callees are abstract
    (may return any list).  Number of rules unrolled (0..2, both rule kinds) - stated bound; everything else symbolic."""
    id = "C08.Backend.convert"
    target = "sigma.conversion.base:Backend.convert"
    props = ("C08", "C14", "C15")
    cases = ("", "R", "C", "RR", "RC", "CR", "CC")
    assumed = ["convert_rule / convert_correlation_rule / finalize / init_processing_pipeline are abstract callees with their own contracts", "collections of 0..2 rules (unrolled)"]

    def setup(self, E):
        def tr(I):
            return I.E._trace

        def s_init(I, so, a, k):
            I.E._trace.append(("init", a[0] if a else k.get("output_format")))
        E.summaries["sigma.conversion.base:Backend.init_processing_pipeline"] = s_init

        def s_rule(kind):
            def f(I, so, a, k):
                rule = a[0]
                n = rule.ghost["nq"]
                out = [q(I, f"{rule.ghost['name']}.q{j}") for j in range(n)]
                I.E._trace.append((kind, rule.ghost["name"], a[1:], out))
                return out
            return f
        E.summaries["sigma.conversion.base:Backend.convert_rule"] = s_rule("convert_rule")
        E.summaries["sigma.conversion.base:Backend.convert_correlation_rule"] = s_rule("convert_correlation_rule")

        def s_fin(I, so, a, k):
            r = I.fresh("final", "opaque", "Output")
            I.E._trace.append(("finalize", list(a[0]), a[1], r))
            return r
        E.summaries["sigma.conversion.base:Backend.finalize"] = s_fin

    def args(self, I, case):
        I.E._trace = []
        R = I.E.index.lookup("sigma.rule.rule:SigmaRule") if I.E.index.module("sigma.rule.rule") else I.E.index.lookup("sigma.rule:SigmaRule")
        C = I.E.index.lookup("sigma.correlations:SigmaCorrelationRule")
        rules = []
        for i, kd in enumerate(case):
            o = SObj(R if kd == "R" else C, {}, lazy=True)
            o.ghost.update(name=f"r{i}", nq=(i % 2) + 1, kind=kd)
            rules.append(o)
        coll = SObj(I.E.index.lookup("sigma.collection:SigmaCollection"), {"rules": rules}, lazy=True)
        I.E.summaries["sigma.collection:SigmaCollection.resolve_rule_references"] = lambda I2, so, a, k: I2.E._trace.append(("resolve",))
        # pre-state: the backend may have converted before (a combined pipeline of an earlier run is still attached)
        I.E.opaque_methods[("Dict", "get")] = ((), "str")
        old = SObj(I.E.index.lookup("sigma.processing.pipeline:ProcessingPipeline"), {"vars": I.fresh("old_vars", "opaque", "Dict")}, lazy=True)
        me = SObj(I.E.index.lookup("sigma.conversion.base:Backend"), {"default_format": "default", "last_processing_pipeline": SOpt(z3.Bool(I.ctx.fresh_name("first_run")), old)}, lazy=True)
        fmt = SOpt(z3.Bool(I.ctx.fresh_name("fmt_none")), "fmt")
        cm, cb = I.fresh("method", "opaque", "Any"), I.fresh("callback", "opaque", "Any")
        return {"self": me, "args": [coll, fmt, cm, cb], "rules": rules, "fmt": fmt}

    def post(self, I, inp, r):
        c, t = I.ctx, I.E._trace
        c.require(len(t) >= 1 and t[0][0] == "init", "the processing pipeline is (re)initialised before anything else in every convert() call")
        c.require(len(t) >= 2 and t[1][0] == "resolve", "rule references are resolved before conversion")
        body = t[2:-1]
        want = [("convert_rule" if x.ghost["kind"] == "R" else "convert_correlation_rule", x.ghost["name"]) for x in inp["rules"]]
        c.require([(x[0], x[1]) for x in body] == want, "every rule is converted exactly once, in collection order, by the converter for its kind")
        ok = len(t) >= 1 and t[-1][0] == "finalize"
        c.require(ok, "finalize runs once, last")
        if ok:
            allq = [qq for x in body for qq in x[3]]
            c.require(len(allq) == len(t[-1][1]) and all(a is b for a, b in zip(allq, t[-1][1])), "finalize receives exactly the per-rule query lists concatenated in collection order")
            c.require(r is t[-1][3], "the result is what finalize returned")

    def frame_ok(self, I, inp, obj, name):
        return False

    def replay(self, values):
        # history: convert, exchange the user's pipeline, convert again - the second run must use the new pipeline
        from sigma.backends.test import TextQueryTestBackend
        from sigma.collection import SigmaCollection
        from sigma.processing.pipeline import ProcessingPipeline, ProcessingItem
        from sigma.processing.transformations import AddFieldnamePrefixTransformation
        rule = "title: t\nlogsource:\n  category: c\ndetection:\n  s:\n    f: v\n  condition: s\n"
        mk = lambda p: ProcessingPipeline(items=[ProcessingItem(identifier=p, transformation=AddFieldnamePrefixTransformation(prefix=p))])
        b = TextQueryTestBackend(mk("a_"))
        q1 = b.convert(SigmaCollection.from_yaml(rule))
        b.processing_pipeline = mk("b_")
        q2 = b.convert(SigmaCollection.from_yaml(rule))
        fresh = TextQueryTestBackend(mk("b_")).convert(SigmaCollection.from_yaml(rule))
        return None if q2 == fresh else f"second convert() after exchanging backend.processing_pipeline gave {q2}, a fresh backend gives {fresh} (first run: {q1})"
