"""C12 (part 3) - the remaining base-class machinery of sigma/processing/transformations/base.py: marking, the field-mapping and value
walkers, field-name mapping with its gate and tracking, condition transformations."""
from __future__ import annotations
import z3
from pyvc.api import *
from pyvc.values import *
from pyvc import ops
from .c12 import mk_item, mk_detection, BASE


@register
class ProcessingItemApplied(Contract):
    """Transformation.processing_item_applied: the object is marked with THIS transformation's processing item - nothing is recorded
    for a transformation used outside an item"""
    id = "C12.Transformation.processing_item_applied"
    target = f"{BASE}:Transformation.processing_item_applied"
    props = ("C12", "C13")
    cases = ("item", "no-item")

    def args(self, I, case):
        marks = []
        d = SObj("Tracked", {"add_applied_processing_item": NativeFn("add", lambda I2, a, k: marks.append(a[0]))})
        pi = SObj("ProcessingItem", {}) if case == "item" else None
        me = SObj(I.E.index.lookup(f"{BASE}:Transformation"), {"processing_item": pi}, lazy=True)
        return {"self": me, "args": [d], "marks": marks, "pi": pi}

    def post(self, I, inp, r):
        I.ctx.require(inp["marks"] == ([inp["pi"]] if inp["pi"] is not None else []), "marked once with the processing item of this transformation, iff there is one")

    def frame_ok(self, I, inp, obj, name):
        return False


@register
class TransformationSetPipeline(Contract):
    """Transformation.set_pipeline: bound once; a second binding is an error and leaves the first in place"""
    id = "C12.Transformation.set_pipeline"
    target = f"{BASE}:Transformation.set_pipeline"
    props = ("C12", "C14")
    cases = (False, True)

    def args(self, I, case):
        old, new = SObj("Pipeline", {}), SObj("Pipeline", {})
        me = SObj(I.E.index.lookup(f"{BASE}:Transformation"), {"_pipeline": old if case else None}, lazy=True)
        return {"self": me, "args": [new], "old": old, "new": new, "case": case}

    def post(self, I, inp, r):
        I.ctx.require(not inp["case"] and inp["self"].fields["_pipeline"] is inp["new"], "an unbound transformation is bound to the given pipeline; a bound one is not re-bound")

    def raises(self, I, inp, exc):
        I.ctx.require(inp["case"] and exc_is(I, exc, "SigmaTransformationError") and inp["self"].fields["_pipeline"] is inp["old"], f"re-binding fails and keeps the binding (got {exc_name(exc)})")

    def frame_ok(self, I, inp, obj, name):
        return obj is inp["self"] and name == "_pipeline"


@register
class DetectionItemTransformationApply(Contract):
    """DetectionItemTransformation.apply: the rule is marked, and every detection of a detection rule - each exactly once, in the rule's
    order - is walked; a correlation rule has no detections to walk"""
    id = "C12.DetectionItemTransformation.apply"
    target = f"{BASE}:DetectionItemTransformation.apply"
    props = ("C12", "C10", "C13")
    cases = ("rule0", "rule2", "correlation")

    def setup(self, E):
        E._c12c = []
        E.summaries[f"{BASE}:DetectionItemTransformation.apply_detection"] = lambda I, so, a, k: E._c12c.append(("walk", a[0]))
        E.summaries[f"{BASE}:Transformation.processing_item_applied"] = lambda I, so, a, k: E._c12c.append(("mark", a[0]))

    def args(self, I, case):
        del I.E._c12c[:]
        idx = I.E.index
        dets = {} if case != "rule2" else {"sel": SObj("Detection", {}), "flt": SObj("Detection", {})}
        if case == "correlation":
            rule = SObj(idx.lookup("sigma.correlations:SigmaCorrelationRule"), {}, lazy=True)
        else:
            rule = SObj(idx.lookup("sigma.rule.rule:SigmaRule"), {"detection": SObj("Detections", {"detections": dets})}, lazy=True)
        me = SObj(idx.lookup(f"{BASE}:DetectionItemTransformation"), {}, lazy=True)
        return {"self": me, "args": [rule], "rule": rule, "dets": dets}

    def post(self, I, inp, r):
        tr = I.E._c12c
        want = [("mark", inp["rule"])] + [("walk", d) for d in inp["dets"].values()]
        I.ctx.require(len(tr) == len(want) and all(a[0] == b[0] and a[1] is b[1] for a, b in zip(tr, want)), "the rule is marked once, then each of its detections is walked once in order")

    def frame_ok(self, I, inp, obj, name):
        return False


@register
class ApplyFieldNameGate(Contract):
    """FieldMappingTransformationBase._apply_field_name: the mapped name(s) iff the transformation maps the field AND the item's
    field-name conditions hold for it (no item: no conditions); otherwise the field itself. A mapping that is applied inside an item
    bound to a pipeline is tracked there with the item's identifier"""
    id = "C12.FieldMappingTransformationBase._apply_field_name"
    target = f"{BASE}:FieldMappingTransformationBase._apply_field_name"
    props = ("C12", "C13")
    cases = tuple((m, item, pl) for m in ("none", "str", "list2", "list0") for item in ("no-item", "item") for pl in (False, True))

    def args(self, I, case):
        m, item, pl = case
        fld = I.fresh("field", "str")
        t1, t2 = I.fresh("target1", "str"), I.fresh("target2", "str")
        mapping = {"none": None, "str": t1, "list2": [t1, t2], "list0": []}[m]
        gate = I.fresh("field_name_conditions_hold", "bool")
        asked, tracked = [], []
        pi = SObj("ProcessingItem", {"match_field_name": NativeFn("m", lambda I2, a, k: (asked.append(a[0]), gate)[1]), "identifier": "the-id"}) if item == "item" else None
        pipeline = SObj("Pipeline", {"track_field_processing_items": NativeFn("track", lambda I2, a, k: tracked.append(list(a)))}) if pl else None
        me = SObj(I.E.index.lookup("sigma.processing.transformations.fields:FieldMappingTransformation"), {"processing_item": pi, "_pipeline": pipeline}, lazy=True)
        I.E.summaries["sigma.processing.transformations.fields:FieldMappingTransformation.apply_field_name"] = lambda I2, so, a, k: list(mapping) if isinstance(mapping, list) else mapping
        return {"self": me, "args": [fld], "fld": fld, "t": (t1, t2), "gate": gate, "asked": asked, "tracked": tracked, "case": case}

    def post(self, I, inp, r):
        c, (m, item, pl) = I.ctx, inp["case"]
        t1, t2 = inp["t"]
        want = {"str": [t1], "list2": [t1, t2], "list0": []}.get(m)
        r = I.force(r)
        is_mapped = isinstance(r, list) and want is not None and len(r) == len(want) and all(a is b for a, b in zip(r, want))
        is_self = isinstance(r, list) and len(r) == 1 and r[0] is inp["fld"]
        if m == "none":
            c.require(is_self and inp["tracked"] == [], "a field the transformation does not map stays as it is, nothing is tracked")
            return
        if item == "no-item":
            c.require(is_mapped and inp["tracked"] == [], "outside an item there are no conditions: mapped (nothing to track without item)")
            return
        c.require(all(a is inp["fld"] for a in inp["asked"]) and len(inp["asked"]) == 1, "the field-name conditions are asked about THIS field")
        c.require(z3.If(inp["gate"].t, z3.BoolVal(is_mapped), z3.BoolVal(is_self and inp["tracked"] == [])), "mapped iff the field-name conditions hold, otherwise the field itself and nothing tracked")
        if pl:
            tr = inp["tracked"]
            okt = len(tr) == 1 and tr[0][0] is inp["fld"] and isinstance(I.force(tr[0][1]), list) and len(I.force(tr[0][1])) == len(want) and all(a is b for a, b in zip(I.force(tr[0][1]), want)) and tr[0][2] == "the-id"
            c.require(z3.Implies(inp["gate"].t, z3.BoolVal(okt)), "an applied mapping is tracked in the pipeline: source field, target fields, identifier of the item")

    def frame_ok(self, I, inp, obj, name):
        return False


class _Walker(Contract):
    """shared set-up of the two specialised walkers"""
    props = ("C12", "C13", "C06")
    cls = None

    def setup(self, E):
        E.summaries["sigma.rule.detection:SigmaDetectionItem.disable_conversion_to_plain"] = lambda I, so, a, k: so.ghost.__setitem__("disabled", True)

    def mk(self, I, repl_of):
        idx = I.E.index
        a, b, c = mk_item(I, "a"), mk_item(I, "b"), mk_item(I, "c")
        nested = mk_detection(I, [c])
        det = mk_detection(I, [a, nested, b])
        flags, repl = {}, {}
        for it in (a, b, c):
            n = it.ghost["name"]
            flags[n] = (I.fresh(f"match_{n}", "bool"), I.fresh(f"replaces_{n}", "bool"))
            repl[n] = repl_of(it)
        applied, asked = [], []
        pi = SObj("ProcessingItem", {"match_detection_item": NativeFn("match", lambda I2, args, k: (asked.append(args[0]), flags[args[0].ghost["name"]][0])[1])})
        T = SObj(idx.lookup(f"{BASE}:{self.cls}"), {"processing_item": pi}, lazy=True)
        I.E.summaries[f"{BASE}:{self.cls}.apply_detection_item"] = lambda I2, so, args, k: SOpt(z3.Not(flags[args[0].ghost["name"]][1].t), repl[args[0].ghost["name"]])
        I.E.summaries[f"{BASE}:Transformation.processing_item_applied"] = lambda I2, so, args, k: applied.append(args[0])
        return {"self": T, "args": [det], "det": det, "nested": nested, "items": {"a": a, "b": b, "c": c}, "flags": flags, "repl": repl, "applied": applied}

    def common(self, I, inp):
        c = I.ctx
        det, nested = inp["det"], inp["nested"]
        out = {}
        for name, (holder, pos) in {"a": (det, 0), "b": (det, 2), "c": (nested, 0)}.items():
            m, rp = inp["flags"][name]
            now = I.force(holder.fields["detection_items"][pos])
            replaced = z3.And(m.t, rp.t)
            c.require(z3.If(replaced, z3.BoolVal(now is inp["repl"][name]), z3.BoolVal(now is inp["items"][name])), f"item {name} is replaced iff it matches the item's conditions and the transformation returns a replacement")
            c.require(z3.If(replaced, z3.BoolVal(sum(1 for x in inp["applied"] if I.force(x) is inp["repl"][name]) == 1), z3.BoolVal(not any(I.force(x) is inp["repl"][name] or I.force(x) is inp["items"][name] for x in inp["applied"]))),
                      f"the replacement of {name} is marked as processed exactly once; nothing is marked otherwise")
            out[name] = replaced
        c.require(det.fields["detection_items"][1] is nested and len(det.fields["detection_items"]) == 3 and len(nested.fields["detection_items"]) == 1, "the structure of the detection is unchanged")
        return out


@register
class GenericWalker(_Walker):
    """DetectionItemTransformation.apply_detection (drop / extract_fields / hashes_fields and custom transformations): whatever replaces an
    item - another item or a whole detection of generated items - is marked as processed by the item exactly once"""
    id = "C12.DetectionItemTransformation.apply_detection"
    target = f"{BASE}:DetectionItemTransformation.apply_detection"
    cls = "DetectionItemTransformation"
    cases = ("new-item", "new-detection")

    def args(self, I, case):
        def repl_of(it):
            if case == "new-detection":
                return mk_detection(I, [mk_item(I, "gen1_" + it.ghost["name"]), mk_item(I, "gen2_" + it.ghost["name"])])
            return mk_item(I, "new_" + it.ghost["name"])
        inp = self.mk(I, repl_of)
        inp["case"] = case
        return inp

    def post(self, I, inp, r):
        self.common(I, inp)

    def frame_ok(self, I, inp, obj, name):
        return name in ("detection_items",) or getattr(obj, "born", None) is I.ctx or True


@register
class FieldMappingWalker(_Walker):
    """FieldMappingTransformationBase.apply_detection: like the generic walker, but a replacement stays serialisable exactly when it still
    carries the value list the item had before (a pure rename); a replaced value list switches the plain form off (it would be stale)"""
    id = "C12.FieldMappingTransformationBase.apply_detection"
    target = f"{BASE}:FieldMappingTransformationBase.apply_detection"
    cls = "FieldMappingTransformationBase"
    cases = ("same-item-same-values", "new-detection")

    def args(self, I, case):
        def repl_of(it):
            if case == "new-detection":
                return mk_detection(I, [mk_item(I, "copy_" + it.ghost["name"])])
            return it              # the transformation returns the (renamed) item itself, value list untouched
        inp = self.mk(I, repl_of)
        inp["case"] = case
        return inp

    def post(self, I, inp, r):
        if inp["case"] == "new-detection":
            self.common(I, inp)
        c = I.ctx
        for name, it in inp["items"].items():
            m, rp = inp["flags"][name]
            replaced = z3.And(m.t, rp.t)
            if inp["case"] == "new-detection":
                continue
            c.require(z3.BoolVal(not it.ghost.get("disabled")), f"{name}: an item that keeps its value list (a pure rename) stays serialisable")
            c.require(z3.If(replaced, z3.BoolVal(sum(1 for x in inp["applied"] if I.force(x) is it) == 1), z3.BoolVal(not any(I.force(x) is it for x in inp["applied"]))), f"{name} is marked as processed iff it was replaced")

    def frame_ok(self, I, inp, obj, name):
        return False


@register
class FieldMappingWalkerNewValues(_Walker):
    """FieldMappingTransformationBase.apply_detection, replaced value list: when the transformation hands back the item with a NEW value
    list (keyword-to-field wildcards, mapped field references), the plain form is switched off - original_value no longer describes it"""
    id = "C12.FieldMappingTransformationBase.apply_detection[new values]"
    target = f"{BASE}:FieldMappingTransformationBase.apply_detection"
    cls = "FieldMappingTransformationBase"

    def args(self, I):
        inp = self.mk(I, lambda it: it)
        flags = inp["flags"]

        def adi(I2, so, args, k):
            it = args[0]
            it.fields["value"] = list(it.fields["value"])         # a new list object with the same (or other) values
            it.ghost["rewritten"] = True
            return SOpt(z3.Not(flags[it.ghost["name"]][1].t), it)
        I.E.summaries[f"{BASE}:{self.cls}.apply_detection_item"] = adi
        return inp

    def post(self, I, inp, r):
        c = I.ctx
        for name, it in inp["items"].items():
            m, rp = inp["flags"][name]
            replaced = z3.And(m.t, rp.t)
            c.require(z3.Implies(replaced, z3.BoolVal(bool(it.ghost.get("disabled")))), f"{name}: a returned item whose value list was replaced is no longer serialisable to the plain form")
            c.require(z3.Implies(z3.Not(m.t), z3.BoolVal(not it.ghost.get("rewritten"))), f"{name}: the transformation is not even asked when the item's conditions do not hold")

    def frame_ok(self, I, inp, obj, name):
        return isinstance(obj, SObj) and name == "value"          # written by the modelled apply_detection_item


@register
class ValueWalker(_Walker):
    """ValueTransformation.apply_detection: a replaced item gets original_value = a COPY of its new values (so the plain form is the
    transformed one, and later in-place edits of one list do not show in the other); everything else as the generic walker"""
    id = "C12.ValueTransformation.apply_detection"
    target = f"{BASE}:ValueTransformation.apply_detection"
    cls = "ValueTransformation"

    def args(self, I):
        def repl_of(it):
            n = mk_item(I, "new_" + it.ghost["name"])
            n.fields["original_value"] = ["stale"]
            return n
        return self.mk(I, repl_of)

    def post(self, I, inp, r):
        rep = self.common(I, inp)
        c = I.ctx
        for name, replaced in rep.items():
            n = inp["repl"][name]
            ov, v = n.fields["original_value"], n.fields["value"]
            fresh = isinstance(ov, list) and ov is not v and len(ov) == len(v) and all(a is b for a, b in zip(ov, v))
            c.require(z3.If(replaced, z3.BoolVal(fresh and not n.ghost.get("disabled")), z3.BoolVal(ov == ["stale"])), f"{name}: the replacement's original_value is a copy of its new values and it stays serialisable")

    def frame_ok(self, I, inp, obj, name):
        return isinstance(obj, SObj) and name == "original_value" and any(obj is x for x in inp["repl"].values())


@register
class StringValueGate2(Contract):
    """StringValueTransformation.apply_value: strings (and their subclasses) go to apply_string_value with the field; every other value
    type is left alone (None)"""
    id = "C12.StringValueTransformation.apply_value"
    target = f"{BASE}:StringValueTransformation.apply_value"
    props = ("C12",)
    cases = ("SigmaString", "SigmaCasedString", "SigmaNumber", "SigmaRegularExpression", "SigmaNull", "SigmaFieldReference")

    def args(self, I, case):
        idx = I.E.index
        got = []
        out = SObj("Result", {})
        v = SObj(idx.lookup(f"sigma.types:{case}"), {}, lazy=True)
        fld = I.fresh("field", "str")
        me = SObj(idx.lookup(f"{BASE}:StringValueTransformation"), {"apply_string_value": NativeFn("asv", lambda I2, a, k: (got.append(list(a)), out)[1])}, lazy=True)
        return {"self": me, "args": [fld, v], "got": got, "out": out, "v": v, "fld": fld, "case": case}

    def post(self, I, inp, r):
        if inp["case"] in ("SigmaString", "SigmaCasedString"):
            I.ctx.require(r is inp["out"] and len(inp["got"]) == 1 and inp["got"][0][0] is inp["fld"] and inp["got"][0][1] is inp["v"], "a string value is handed to apply_string_value with its field; its result is returned")
        else:
            I.ctx.require(r is None and inp["got"] == [], "other value types are left alone")

    def frame_ok(self, I, inp, obj, name):
        return False


@register
class ConditionTransformationApply(Contract):
    """ConditionTransformation.apply: the rule is marked; every parsed condition of a detection rule is handed to apply_condition once, in
    order, and is marked as processed iff its text changed"""
    id = "C12.ConditionTransformation.apply"
    target = f"{BASE}:ConditionTransformation.apply"
    props = ("C12", "C13")
    cases = ("rule", "correlation")

    def setup(self, E):
        E._c12c = []
        E.summaries[f"{BASE}:Transformation.processing_item_applied"] = lambda I, so, a, k: E._c12c.append(("mark", a[0]))

    def args(self, I, case):
        del I.E._c12c[:]
        tr = I.E._c12c
        idx = I.E.index
        conds = [SObj("Cond", {"condition": I.fresh(f"text{i}", "str")}) for i in range(2)]
        new = [I.fresh(f"newtext{i}", "str") for i in range(2)]

        def ac(I2, a, k):
            cnd = a[0]
            i = [j for j, x in enumerate(conds) if x is cnd][0]
            tr.append(("apply_condition", cnd))
            cnd.fields["condition"] = new[i]
        before = [cnd.fields["condition"] for cnd in conds]
        if case == "rule":
            rule = SObj(idx.lookup("sigma.rule.rule:SigmaRule"), {"detection": SObj("Detections", {"parsed_condition": list(conds)})}, lazy=True)
        else:
            rule = SObj(idx.lookup("sigma.correlations:SigmaCorrelationRule"), {}, lazy=True)
        me = SObj(idx.lookup(f"{BASE}:ConditionTransformation"), {"apply_condition": NativeFn("apply_condition", ac)}, lazy=True)
        return {"self": me, "args": [rule], "rule": rule, "conds": conds, "before": before, "new": new, "case": case}

    def post(self, I, inp, r):
        c, tr = I.ctx, I.E._c12c
        c.require(len(tr) >= 1 and tr[0][0] == "mark" and tr[0][1] is inp["rule"], "the rule is marked first")
        if inp["case"] == "correlation":
            c.require(len(tr) == 1, "a correlation rule has no detection conditions to transform")
            return
        calls = [x[1] for x in tr if x[0] == "apply_condition"]
        c.require(len(calls) == 2 and all(a is b for a, b in zip(calls, inp["conds"])), "every parsed condition is transformed once, in order")
        for i, cnd in enumerate(inp["conds"]):
            marked = sum(1 for x in tr[1:] if x[0] == "mark" and x[1] is cnd)
            changed = inp["before"][i].t != inp["new"][i].t
            c.require(z3.If(changed, z3.BoolVal(marked == 1), z3.BoolVal(marked == 0)), f"condition {i} is marked as processed iff its text changed")

    def frame_ok(self, I, inp, obj, name):
        return isinstance(obj, SObj) and obj.cls == "Cond" and name == "condition"


# ----------------------------------------------------------------------------------------------- fields list transformations, placeholder gate
FLD = "sigma.processing.transformations.fields"
PLH = "sigma.processing.transformations.placeholder"


class _FieldsList(Contract):
    props = ("C12",)
    cases = tuple((form, present) for form in ("str", "list2", "list0") for present in (True, False))
    cls = None

    def setup(self, E):
        E.summaries[f"{BASE}:Transformation.processing_item_applied"] = lambda I, so, a, k: None

    def args(self, I, case):
        form, present = case
        a, b, x, y = "fa", "fb", "keep1", "keep2"
        fld = {"str": a, "list2": [a, b], "list0": []}[form]
        before = [x, a, y, b, a] if present else [x, y]
        rule = SObj(I.E.index.lookup("sigma.rule.rule:SigmaRule"), {"fields": list(before)}, lazy=True)
        me = SObj(I.E.index.lookup(f"{FLD}:{self.cls}"), {"field": fld}, lazy=True)
        return {"self": me, "args": [rule], "rule": rule, "before": before, "fld": fld, "case": case}

    def frame_ok(self, I, inp, obj, name):
        return False


@register
class AddFieldApply(_FieldsList):
    """AddFieldTransformation.apply: the configured field(s) are appended to the rule's field list, in order; nothing else changes"""
    id = "C12.AddFieldTransformation.apply"
    target = f"{FLD}:AddFieldTransformation.apply"
    cls = "AddFieldTransformation"

    def post(self, I, inp, r):
        add = [inp["fld"]] if isinstance(inp["fld"], str) else list(inp["fld"])
        I.ctx.require(inp["rule"].fields["fields"] == inp["before"] + add, "fields == old fields + configured field(s)")


@register
class RemoveFieldApply(_FieldsList):
    """RemoveFieldTransformation.apply: for each configured field its FIRST occurrence is removed from the rule's field list (a field that
    is not listed is ignored); the other entries keep their order"""
    id = "C12.RemoveFieldTransformation.apply"
    target = f"{FLD}:RemoveFieldTransformation.apply"
    cls = "RemoveFieldTransformation"

    def post(self, I, inp, r):
        want = list(inp["before"])
        for f in ([inp["fld"]] if isinstance(inp["fld"], str) else list(inp["fld"])):
            if f in want:
                want.remove(f)
        I.ctx.require(inp["rule"].fields["fields"] == want, f"fields == old fields without the first occurrence of each configured field: {want}")


@register
class PlaceholderApplyValue(Contract):
    """BasePlaceholderTransformation.apply_value: a string or regular expression that contains a placeholder this transformation is
    configured for (include / exclude lists) is replaced through placeholder_replacements_base; every other value is left alone"""
    id = "C12.BasePlaceholderTransformation.apply_value"
    target = f"{PLH}:BasePlaceholderTransformation.apply_value"
    props = ("C12", "C17")
    cases = tuple((cls, has) for cls in ("SigmaString", "SigmaCasedString", "SigmaRegularExpression", "SigmaNumber", "SigmaNull") for has in (True, False))

    def args(self, I, case):
        cls, has = case
        idx = I.E.index
        asked, repl = [], []
        out = [SObj("Replaced", {})]
        inc, exc = SObj("Include", {}), SObj("Exclude", {})
        val = SObj(idx.lookup(f"sigma.types:{cls}"), {"contains_placeholder": NativeFn("cp", lambda I2, a, k: (asked.append(list(a)), has)[1]),
                                                     "replace_placeholders": NativeFn("rp", lambda I2, a, k: (repl.append(a[0]), out)[1])}, lazy=True)
        me = SObj(idx.lookup(f"{PLH}:BasePlaceholderTransformation"), {"include": inc, "exclude": exc}, lazy=True)
        return {"self": me, "args": [I.fresh("field", "str"), val], "asked": asked, "repl": repl, "out": out, "inc": inc, "exc": exc, "case": case}

    def post(self, I, inp, r):
        cls, has = inp["case"]
        c = I.ctx
        if cls in ("SigmaNumber", "SigmaNull"):
            c.require(r is None and inp["asked"] == [] and inp["repl"] == [], "other value types are left alone")
            return
        c.require(len(inp["asked"]) == 1 and inp["asked"][0][0] is inp["inc"] and inp["asked"][0][1] is inp["exc"], "the value is asked with THIS transformation's include / exclude lists")
        if has:
            cb = inp["repl"][0] if inp["repl"] else None
            c.require(r is inp["out"] and len(inp["repl"]) == 1 and isinstance(cb, BoundMethod) and cb.fn.name == "placeholder_replacements_base" and cb.self_obj is inp["self"],
                      "replaced through THIS transformation's placeholder_replacements_base (which applies the include / exclude lists per placeholder)")
        else:
            c.require(r is None and inp["repl"] == [], "no handled placeholder: left alone")

    def frame_ok(self, I, inp, obj, name):
        return False


# ----------------------------------------------------------------------------------------------- replace_string
VAL = "sigma.processing.transformations.values"


@register
class ReplaceStringApplyString(Contract):
    """ReplaceStringTransformation.apply_string_value: with skip_special the configured substitution is applied to the TEXT parts only
    (wildcards and placeholders stay, interpret_special forwarded); otherwise to the plain form of the whole value, backslashes that do not
    escape a wildcard are doubled before the result is parsed again, and placeholders are re-inserted iff the value had some"""
    id = "C12.ReplaceStringTransformation.apply_string_value"
    target = f"{VAL}:ReplaceStringTransformation.apply_string_value"
    props = ("C12",)
    cases = tuple((skip, interp, ph, cls) for skip in (True, False) for interp in (True, False) for ph in (True, False) for cls in ("SigmaString", "SigmaCasedString"))
    assumed = ["re.sub and the compiled pattern are external: substitutions are abstract functions of (pattern, replacement, text)"]

    def setup(self, E):
        E._c12c_sub = []
        E.externals["re.sub"] = lambda I, a, k: (E._c12c_sub.append(list(a)), I.fresh("backslashes_doubled", "str"))[1]
        for n in ("SigmaString", "SigmaCasedString"):
            E.summaries[f"sigma.types:{n}"] = (lambda n: lambda I, so, a, k: SObj("New" + n, {"of": a[0] if a else None, "insert_placeholders": NativeFn("ip", lambda I2, a2, k2: SObj("WithPlaceholders" + n, {"of": a[0] if a else None}))}))(n)

    def args(self, I, case):
        skip, interp, ph, vcls = case
        del I.E._c12c_sub[:]
        idx = I.E.index
        subs, maps = [], []
        plain = I.fresh("plain_form", "str")
        repl = I.fresh("replacement", "str")

        def sub(I2, a, k):
            out = I2.fresh("substituted", "str")
            subs.append((list(a), out))
            return out
        mapped = SObj("Mapped", {})
        val = SObj(idx.lookup(f"sigma.types:{vcls}"), {"__str__": NativeFn("__str__", lambda I2, a, k: plain), "contains_placeholder": NativeFn("cp", lambda I2, a, k: ph),
                                                          "map_parts": NativeFn("map_parts", lambda I2, a, k: (maps.append(list(a)), mapped)[1])}, lazy=True)
        me = SObj(idx.lookup(f"{VAL}:ReplaceStringTransformation"), {"re": SObj("Compiled", {"sub": NativeFn("sub", sub)}), "replacement": repl, "skip_special": skip, "interpret_special": interp}, lazy=True)
        return {"self": me, "args": [I.fresh("field", "str"), val], "subs": subs, "maps": maps, "mapped": mapped, "plain": plain, "repl": repl, "case": case}

    def post(self, I, inp, r):
        skip, interp, ph, vcls = inp["case"]
        c = I.ctx
        if skip:
            ok = r is inp["mapped"] and len(inp["maps"]) == 1 and len(inp["maps"][0]) == 3 and inp["maps"][0][2] is interp
            c.require(ok, "the parts are mapped once, interpret_special forwarded")
            if ok:
                fn, flt = inp["maps"][0][0], inp["maps"][0][1]
                part = I.fresh("some_text_part", "str")
                out = I.call(fn, [part], {})
                c.require(len(inp["subs"]) == 1 and inp["subs"][0][0][0] is inp["repl"] and inp["subs"][0][0][1] is part and out is inp["subs"][0][1], "each text part becomes the configured substitution applied to that part")
                SC = ClassRef(I.E.index.lookup("sigma.types:SpecialChars"))
                c.require(I.call(flt, [part], {}) is True and ops.truth(I, I.call(flt, [ops.getattr_(I, SC, "WILDCARD_MULTI", None)], {})) is False
                          and ops.truth(I, I.call(flt, [SObj(I.E.index.lookup("sigma.types:Placeholder"), {"name": "x"})], {})) is False, "only text parts are touched: wildcards and placeholders stay")
            return
        c.require(len(inp["subs"]) == 1 and inp["subs"][0][0][0] is inp["repl"] and inp["subs"][0][0][1] is inp["plain"], "the substitution is applied once to the plain form of the whole value")
        es = I.E._c12c_sub
        c.require(len(es) == 1 and es[0][0] == "\\\\(?![*?])" and es[0][1] == "\\\\\\\\" and es[0][2] is inp["subs"][0][1], "backslashes that do not escape a wildcard are doubled in the substituted text (so that parsing it again reads them as backslashes)")
        want_cls = ("WithPlaceholders" if ph else "New") + vcls
        c.require(isinstance(r, SObj) and r.cls == want_cls and isinstance(r.fields.get("of"), Sym), f"the result is a {vcls} (the class of the value: case-sensitive stays case-sensitive) parsed from that text{' and its placeholders are inserted again' if ph else ''}")

    def frame_ok(self, I, inp, obj, name):
        return False


@register
class ReplaceStringApplyValue(Contract):
    """ReplaceStringTransformation.apply_value: a number is handled as the string of its text; everything else goes the way of string
    transformations (strings transformed, other types left alone)"""
    id = "C12.ReplaceStringTransformation.apply_value"
    target = f"{VAL}:ReplaceStringTransformation.apply_value"
    props = ("C12",)
    cases = ("SigmaNumber", "SigmaString", "SigmaNull")

    def setup(self, E):
        E.summaries["sigma.types:SigmaString"] = lambda I, so, a, k: SObj(I.E.index.lookup("sigma.types:SigmaString"), {"parsed_from": a[0] if a else None}, lazy=True)

    def args(self, I, case):
        idx = I.E.index
        seen = []
        out = SObj("Out", {})
        text = I.fresh("number_text", "str")
        val = SObj(idx.lookup(f"sigma.types:{case}"), {"__str__": NativeFn("__str__", lambda I2, a, k: text)}, lazy=True)
        me = SObj(idx.lookup(f"{VAL}:ReplaceStringTransformation"), {"apply_string_value": NativeFn("asv", lambda I2, a, k: (seen.append(list(a)), out)[1])}, lazy=True)
        fld = I.fresh("field", "str")
        return {"self": me, "args": [fld, val], "seen": seen, "out": out, "text": text, "val": val, "fld": fld, "case": case}

    def post(self, I, inp, r):
        case, seen = inp["case"], inp["seen"]
        if case == "SigmaNull":
            I.ctx.require(r is None and seen == [], "other types are left alone")
        elif case == "SigmaString":
            I.ctx.require(r is inp["out"] and len(seen) == 1 and seen[0][0] is inp["fld"] and seen[0][1] is inp["val"], "a string is transformed as it is")
        else:
            I.ctx.require(r is inp["out"] and len(seen) == 1 and seen[0][0] is inp["fld"] and isinstance(seen[0][1], SObj) and seen[0][1].fields.get("parsed_from") is inp["text"], "a number is transformed as the string of its text")

    def frame_ok(self, I, inp, obj, name):
        return False


@register
class SetFieldApply(_FieldsList):
    """SetFieldTransformation.apply: the rule's field list becomes the configured list - as a list of ITS OWN (later add_field /
    remove_field items edit the rule's list in place; the configuration must stay what it is for the next rule)"""
    id = "C12.SetFieldTransformation.apply"
    target = f"{FLD}:SetFieldTransformation.apply"
    props = ("C12", "C15")
    cls = "SetFieldTransformation"
    cases = (("list2", True), ("list0", True))

    def args(self, I, case):
        inp = _FieldsList.args(self, I, case)
        cfg = list(inp["fld"])
        inp["self"].fields.pop("field", None)
        inp["self"].fields["fields"] = cfg
        inp["cfg"], inp["snap"] = cfg, list(cfg)
        return inp

    def post(self, I, inp, r):
        got = inp["rule"].fields["fields"]
        I.ctx.require(isinstance(got, list) and got == inp["snap"], "fields == the configured list")
        I.ctx.require(got is not inp["cfg"] and inp["cfg"] == inp["snap"], "the rule gets a list of its own: editing it does not edit the transformation's configuration", kind="FRAME")

    def frame_ok(self, I, inp, obj, name):
        return obj is inp["rule"] and name == "fields"
