"""C04 - encoding modifiers (sigma/modifiers.py, sigma/types.py).

Spec (from the property statement and RFC 4648):
  b64(x): length 4*ceil(|x|/3); sextet k of b64(x) is determined by bits [6k, 6k+6) of x whenever 6k+6 <= 8|x|.
  base64offset, shift i in {0,1,2}, payload of L bytes:  value_i = b64(" "*i + payload)[lo_i : hi_i] with
      lo_i = ceil(8i/6), hi_i = floor(8(i+L)/6)      -- exactly the sextets whose six bits all lie inside the payload bits.
"""
from __future__ import annotations
import z3
from pyvc.api import *
from pyvc.values import *
from pyvc import ops
from . import model as M

B = bytes_sort


def b64(x):
    return z3.Function("b64encode", B(), B())(x)


def ascii_decode(x):
    return z3.Function("bytes.decode", B(), z3.StringSort())(x)


def lo_spec(i):
    return (8 * i + 5) / 6


def hi_spec(i, L):
    return (8 * (i + L)) / 6


def install_common(E):
    M.install_part_adt(E)

    def x_b64encode(I, args, kwargs):
        x = I.force(args[0])
        xt = mk_bytes(x, I)
        r = b64(xt)
        # assumed (RFC 4648): length of the encoding
        I.ctx.assume(z3.And(blen(xt) >= 0, blen(r) == 4 * ((blen(xt) + 2) / 3)))
        return Sym(r, "bytes")
    E.externals["base64.b64encode"] = x_b64encode

    def x_decode(I, args, kwargs):
        r = ascii_decode(mk_bytes(args[0], I))
        return Sym(r, "str")
    E.externals["bytes.decode"] = x_decode

    def s_contains_special(I, self_obj, args, kwargs):
        return Sym(M.has_special(self_obj.fields["s"].t), "bool")
    E.summaries["sigma.types:SigmaString.contains_special"] = s_contains_special

    def s_bytes(I, self_obj, args, kwargs):
        # contract taken from the property: the bytes of the payload are the UTF-8 of its literal text
        t = M.text_of(self_obj.fields["s"].t)
        r = M.utf8(t)
        I.ctx.assume(z3.And(blen(r) >= z3.Length(t), blen(r) <= 4 * z3.Length(t)))
        return Sym(r, "bytes")
    E.summaries["sigma.types:SigmaString.__bytes__"] = s_bytes

    def s_len(I, self_obj, args, kwargs):
        s = self_obj.fields["s"].t
        n = M.natoms(s)
        I.ctx.assume(n >= 0)
        # for a string without special parts and placeholders the atoms are its characters
        I.ctx.assume(z3.Implies(z3.Not(M.has_special(s)), n == z3.Length(M.text_of(s))))
        return Sym(n, "int")
    E.summaries["sigma.types:SigmaString.__len__"] = s_len

    def s_new(I, self_obj, args, kwargs):
        src = args[0] if args else kwargs.get("s")
        cinfo = I.E.index.lookup("sigma.types:SigmaString")
        o = M.mk_sigma_string(I, "new")
        o.ghost["src"] = src
        o.born = I.ctx
        return o
    E.summaries["sigma.types:SigmaString"] = s_new


def mk_modifier(I, clsname):
    cinfo = I.E.index.lookup(f"sigma.modifiers:{clsname}")
    return SObj(cinfo, {}, lazy=True)


@register
class B64OffsetModify(Contract):
    id = "C04.base64offset.modify"
    target = "sigma.modifiers:SigmaBase64OffsetModifier.modify"
    props = ("C04",)
    assumed = ["RFC 4648 length of base64.b64encode", "SigmaString.__bytes__ == utf8(literal text) [contract C04.SigmaString.__bytes__]",
               "SigmaString.__len__ counts atoms [contract C05.SigmaString.__len__]", "no Placeholder parts in the payload (C17 covers placeholders)"]

    def setup(self, E):
        install_common(E)

    def args(self, I):
        val = M.mk_sigma_string(I, "val")
        return {"self": mk_modifier(I, "SigmaBase64OffsetModifier"), "args": [val], "val": val}

    def post(self, I, inp, r):
        c = I.ctx
        payload = M.utf8(M.text_of(inp["val"].fields["s"].t))
        L = blen(payload)
        ok = isinstance(r, SObj) and r.cls.name == "SigmaExpansion" and isinstance(r.fields.get("values"), list) and len(r.fields["values"]) == 3
        c.require(ok, "result is a SigmaExpansion of three values")
        if not ok:
            return
        for i, v in enumerate(r.fields["values"]):
            src = v.ghost.get("src") if isinstance(v, SObj) else None
            if src is None:
                c.require(False, f"value {i} is a SigmaString built from text")
                continue
            base = b64(bcat(mk_bytes(b" " * i, I), payload))
            lo, hi = lo_spec(z3.IntVal(i)), hi_spec(z3.IntVal(i), L)
            # a Python slice [lo:hi] of a sequence of length n >= hi >= 0 (lemma "window lies inside the encoded text")
            c.require(mk_str(src) == ascii_decode(bslice(base, z3.simplify(lo), hi)),
                      f"value {i} == b64(' '*{i} + payload)[ceil(8*{i}/6) : floor(8*({i}+L)/6)]")

    def raises(self, I, inp, exc):
        # rejecting is allowed exactly for payloads with wildcards
        I.ctx.require(z3.And(z3.BoolVal(exc_is(I, exc, "SigmaValueError")), M.has_special(inp["val"].fields["s"].t)),
                      f"only SigmaValueError, only for wildcard payloads (got {exc_name(exc)})", kind="SAFE")

    def model_terms(self, inp):
        s = inp["val"].fields["s"].t
        t = M.text_of(s)
        return {"nchars": z3.Length(t), "nbytes": blen(M.utf8(t))}

    def replay(self, values):
        return replay_b64offset(values.get("nchars", 0), values.get("nbytes", 0))


def payload_with(nchars, nbytes):
    """a string of nchars characters whose UTF-8 encoding has nbytes bytes (None if impossible)"""
    if nchars < 0 or nbytes < nchars or nbytes > 4 * nchars:
        return None
    out, extra = [], nbytes - nchars
    for _ in range(nchars):
        e = min(3, extra)
        extra -= e
        out.append(["a", "ä", "€", "\U0001F600"][e])
    return "".join(out)


def b64offset_oracle(payload_bytes):
    from base64 import b64encode
    out = []
    for i in range(3):
        enc = b64encode(b" " * i + payload_bytes).decode()
        lo, hi = (8 * i + 5) // 6, (8 * (i + len(payload_bytes))) // 6
        out.append(enc[lo:hi] if hi > lo else "")
    return out


def replay_b64offset(nchars, nbytes):
    from sigma.modifiers import SigmaBase64OffsetModifier
    from sigma.types import SigmaString
    p = payload_with(nchars, nbytes)
    if p is None:
        return None
    got = [str(v) for v in SigmaBase64OffsetModifier(None, []).modify(SigmaString(p)).values]
    want = b64offset_oracle(p.encode())
    if got != want:
        return f"payload {p!r}: base64offset produced {got}, the payload-determined windows are {want}"
    return None


@register
class B64Modify(Contract):
    id = "C04.base64.modify"
    target = "sigma.modifiers:SigmaBase64Modifier.modify"
    props = ("C04",)
    assumed = ["SigmaString.__bytes__ == utf8(literal text) [contract C04.SigmaString.__bytes__]"]

    def setup(self, E):
        install_common(E)

    def args(self, I):
        val = M.mk_sigma_string(I, "val")
        return {"self": mk_modifier(I, "SigmaBase64Modifier"), "args": [val], "val": val}

    def post(self, I, inp, r):
        payload = M.utf8(M.text_of(inp["val"].fields["s"].t))
        src = r.ghost.get("src") if isinstance(r, SObj) else None
        I.ctx.require(src is not None, "result is a SigmaString built from text")
        if src is not None:
            I.ctx.require(mk_str(src) == ascii_decode(b64(payload)), "value == b64(utf8(payload text))")

    def raises(self, I, inp, exc):
        I.ctx.require(z3.And(z3.BoolVal(exc_is(I, exc, "SigmaValueError")), M.has_special(inp["val"].fields["s"].t)),
                      f"only SigmaValueError, only for wildcard payloads (got {exc_name(exc)})", kind="SAFE")


@register
class B64WindowLemma(Lemma):
    """The window [lo_i, hi_i) of the contract is the property's window: maximal set of sextets inside the payload bits,
    and aligned occurrences in any containing byte string have the same sextets (RFC 4648 sextet/bit correspondence)."""
    id = "C04.lemma.window"
    props = ("C04",)

    def goals(self):
        i, L, a, k, u = z3.Ints("i L a k u")
        lo, hi = lo_spec(i), hi_spec(i, L)
        dom = [i >= 0, i <= 2, L >= 0]
        g = []
        g.append(("window sextets lie inside the payload bits", dom + [k >= lo, k < hi], z3.And(6 * k >= 8 * i, 6 * k + 6 <= 8 * (i + L))))
        g.append(("window is maximal on the left", dom + [lo > 0], 6 * (lo - 1) < 8 * i))
        g.append(("window is maximal on the right", dom, 6 * hi + 6 > 8 * (i + L)))
        g.append(("window lies inside the encoded text", dom, z3.And(lo >= 0, z3.Or(hi <= lo, hi <= 4 * ((i + L + 2) / 3)))))
        # alignment: prefix of a bytes with a = i (mod 3); sextet k of the padded encoding reads payload bit 8i+t = 6k+u;
        # the same payload bit sits at 8a+t in the containing string, i.e. in sextet k + 4(a-i)/3 at the same offset u.
        sh = 4 * ((a - i) / 3)
        g.append(("aligned occurrence: same sextets shifted by 4(a-i)/3", dom + [a >= i, (a - i) % 3 == 0, u >= 0, u < 6, k >= lo, k < hi],
                  z3.And(6 * (k + sh) + u == (6 * k + u) + 8 * (a - i), sh >= 0)))
        g.append(("every alignment is covered by one of the three shifts", [a >= 0], z3.Or(*[z3.And(a >= j, (a - j) % 3 == 0) for j in range(3)]) ))
        return g
