"""C04 - encoding modifiers (sigma/modifiers.py, sigma/types.py).

Spec (from the property statement and RFC 4648):
  b64(x): length 4*ceil(|x|/3); sextet k of b64(x) is determined by bits [6k, 6k+6) of x whenever 6k+6 <= 8|x|.
  base64offset, shift i in {0,1,2}, payload of L bytes:  value_i = b64(" "*i + payload)[lo_i : hi_i] with
      lo_i = ceil(8i/6), hi_i = floor(8(i+L)/6)      -- exactly the sextets whose six bits all lie inside the payload bits.
"""
from __future__ import annotations
import z3
from pyvc.api import *
from pyvc.values import *
from pyvc import ops
from . import model as M

B = bytes_sort


def b64(x):
    return z3.Function("b64encode", B(), B())(x)


def ascii_decode(x):
    return z3.Function("bytes.decode", B(), z3.StringSort())(x)


def lo_spec(i):
    return (8 * i + 5) / 6


def hi_spec(i, L):
    return (8 * (i + L)) / 6


def install_common(E):
    M.install_part_adt(E)

    def x_b64encode(I, args, kwargs):
        x = I.force(args[0])
        xt = mk_bytes(x, I)
        r = b64(xt)
        # assumed (RFC 4648): length of the encoding
        I.ctx.assume(z3.And(blen(xt) >= 0, blen(r) == 4 * ((blen(xt) + 2) / 3)))
        return Sym(r, "bytes")
    E.externals["base64.b64encode"] = x_b64encode

    def x_decode(I, args, kwargs):
        r = ascii_decode(mk_bytes(args[0], I))
        return Sym(r, "str")
    E.externals["bytes.decode"] = x_decode

    def s_contains_special(I, self_obj, args, kwargs):
        return Sym(M.has_special(self_obj.fields["s"].t), "bool")
    E.summaries["sigma.types:SigmaString.contains_special"] = s_contains_special

    def s_bytes(I, self_obj, args, kwargs):
        # contract taken from the property: the bytes of the payload are the UTF-8 of its literal text
        t = M.text_of(ops.seq_term(I, self_obj.fields["s"], M.PART))
        r = M.utf8(t)
        I.ctx.assume(z3.And(blen(r) >= z3.Length(t), blen(r) <= 4 * z3.Length(t)))
        return Sym(r, "bytes")
    E.summaries["sigma.types:SigmaString.__bytes__"] = s_bytes

    def s_len(I, self_obj, args, kwargs):
        s = self_obj.fields["s"].t
        n = M.natoms(s)
        I.ctx.assume(n >= 0)
        # for a string without special parts and placeholders the atoms are its characters
        I.ctx.assume(z3.Implies(z3.Not(M.has_special(s)), n == z3.Length(M.text_of(s))))
        return Sym(n, "int")
    E.summaries["sigma.types:SigmaString.__len__"] = s_len

    def s_new(I, self_obj, args, kwargs):
        src = args[0] if args else kwargs.get("s")
        cinfo = I.E.index.lookup("sigma.types:SigmaString")
        o = M.mk_sigma_string(I, "new")
        o.ghost["src"] = src
        o.born = I.ctx
        return o
    E.summaries["sigma.types:SigmaString"] = s_new


def mk_modifier(I, clsname):
    cinfo = I.E.index.lookup(f"sigma.modifiers:{clsname}")
    return SObj(cinfo, {}, lazy=True)


@register
class B64OffsetModify(Contract):
    id = "C04.base64offset.modify"
    target = "sigma.modifiers:SigmaBase64OffsetModifier.modify"
    props = ("C04",)
    assumed = ["RFC 4648 length of base64.b64encode", "SigmaString.__bytes__ == utf8(literal text) [contract C04.SigmaString.__bytes__]",
               "SigmaString.__len__ counts atoms [contract C05.SigmaString.__len__]", "no Placeholder parts in the payload (C17 covers placeholders)"]

    def setup(self, E):
        install_common(E)

    def args(self, I):
        val = M.mk_sigma_string(I, "val")
        return {"self": mk_modifier(I, "SigmaBase64OffsetModifier"), "args": [val], "val": val}

    def post(self, I, inp, r):
        c = I.ctx
        payload = M.utf8(M.text_of(inp["val"].fields["s"].t))
        L = blen(payload)
        ok = isinstance(r, SObj) and r.cls.name == "SigmaExpansion" and isinstance(r.fields.get("values"), list) and len(r.fields["values"]) == 3
        c.require(ok, "result is a SigmaExpansion of three values")
        if not ok:
            return
        for i, v in enumerate(r.fields["values"]):
            src = v.ghost.get("src") if isinstance(v, SObj) else None
            if src is None:
                c.require(False, f"value {i} is a SigmaString built from text")
                continue
            base = b64(bcat(mk_bytes(b" " * i, I), payload))
            lo, hi = lo_spec(z3.IntVal(i)), hi_spec(z3.IntVal(i), L)
            # a Python slice [lo:hi] of a sequence of length n >= hi >= 0 (lemma "window lies inside the encoded text")
            c.require(mk_str(src) == ascii_decode(bslice(base, z3.simplify(lo), hi)),
                      f"value {i} == b64(' '*{i} + payload)[ceil(8*{i}/6) : floor(8*({i}+L)/6)]")

    def raises(self, I, inp, exc):
        # rejecting is allowed exactly for payloads with wildcards
        I.ctx.require(z3.And(z3.BoolVal(exc_is(I, exc, "SigmaValueError")), M.has_special(inp["val"].fields["s"].t)),
                      f"only SigmaValueError, only for wildcard payloads (got {exc_name(exc)})", kind="SAFE")

    def model_terms(self, inp):
        s = inp["val"].fields["s"].t
        t = M.text_of(s)
        return {"nchars": z3.Length(t), "nbytes": blen(M.utf8(t))}

    def replay(self, values):
        return replay_b64offset(values.get("nchars", 0), values.get("nbytes", 0))


def payload_with(nchars, nbytes):
    """a string of nchars characters whose UTF-8 encoding has nbytes bytes (None if impossible)"""
    if nchars < 0 or nbytes < nchars or nbytes > 4 * nchars:
        return None
    out, extra = [], nbytes - nchars
    for _ in range(nchars):
        e = min(3, extra)
        extra -= e
        out.append(["a", "ä", "€", "\U0001F600"][e])
    return "".join(out)


def b64offset_oracle(payload_bytes):
    from base64 import b64encode
    out = []
    for i in range(3):
        enc = b64encode(b" " * i + payload_bytes).decode()
        lo, hi = (8 * i + 5) // 6, (8 * (i + len(payload_bytes))) // 6
        out.append(enc[lo:hi] if hi > lo else "")
    return out


def replay_b64offset(nchars, nbytes):
    from sigma.modifiers import SigmaBase64OffsetModifier
    from sigma.types import SigmaString
    p = payload_with(nchars, nbytes)
    if p is None:
        return None
    got = [str(v) for v in SigmaBase64OffsetModifier(None, []).modify(SigmaString(p)).values]
    want = b64offset_oracle(p.encode())
    if got != want:
        return f"payload {p!r}: base64offset produced {got}, the payload-determined windows are {want}"
    return None


@register
class B64Modify(Contract):
    id = "C04.base64.modify"
    target = "sigma.modifiers:SigmaBase64Modifier.modify"
    props = ("C04",)
    assumed = ["SigmaString.__bytes__ == utf8(literal text) [contract C04.SigmaString.__bytes__]"]

    def setup(self, E):
        install_common(E)

    def args(self, I):
        val = M.mk_sigma_string(I, "val")
        return {"self": mk_modifier(I, "SigmaBase64Modifier"), "args": [val], "val": val}

    def post(self, I, inp, r):
        payload = M.utf8(M.text_of(inp["val"].fields["s"].t))
        src = r.ghost.get("src") if isinstance(r, SObj) else None
        I.ctx.require(src is not None, "result is a SigmaString built from text")
        if src is not None:
            I.ctx.require(mk_str(src) == ascii_decode(b64(payload)), "value == b64(utf8(payload text))")

    def raises(self, I, inp, exc):
        I.ctx.require(z3.And(z3.BoolVal(exc_is(I, exc, "SigmaValueError")), M.has_special(inp["val"].fields["s"].t)),
                      f"only SigmaValueError, only for wildcard payloads (got {exc_name(exc)})", kind="SAFE")


@register
class SigmaStringBytes(Contract):
    """bytes(value) is the UTF-8 encoding of the literal text (unescaped: a literal '*' is one byte 0x2a)"""
    id = "C04.SigmaString.__bytes__"
    target = "sigma.types:SigmaString.__bytes__"
    props = ("C04", "C05")
    assumed = ["str.encode() is UTF-8"]

    def setup(self, E):
        from . import c05
        M.install_part_adt(E)
        c05.install_to_plain_summary(E)
        E.externals["str.encode"] = lambda I, args, kwargs: Sym(M.utf8(mk_str(args[0])), "bytes") if args[1] == "utf-8" else (_ for _ in ()).throw(OutsideSubset("codec"))

    def args(self, I):
        return {"self": M.mk_sigma_string(I, "self"), "args": []}

    def post(self, I, inp, r):
        I.ctx.require(ops.kind_of(r) == "bytes", "returns bytes")
        I.ctx.require(mk_bytes(r, I) == M.utf8(M.text_of(inp["self"].fields["s"].t)), "result == utf8(literal text of the parts)")

    def frame_ok(self, I, inp, obj, name):
        return False

    def model_terms(self, inp):
        return {"parts": inp["self"].fields["s"].t}

    def candidates(self):
        return ({"parts": p} for p in M.part_lists(max_len=2))

    def replay(self, values):
        from sigma.types import SigmaString
        s = M.native_sigma_string(values.get("parts", []))
        want = M.native_text(s.s).encode()
        got = bytes(s)
        return None if got == want else f"parts {s.s!r}: bytes() gave {got!r}, the literal text is {want!r}"


@register
class B64WindowLemma(Lemma):
    """The window [lo_i, hi_i) of the contract is the property's window: maximal set of sextets inside the payload bits,
    and aligned occurrences in any containing byte string have the same sextets (RFC 4648 sextet/bit correspondence)."""
    id = "C04.lemma.window"
    props = ("C04",)

    def goals(self):
        i, L, a, k, u = z3.Ints("i L a k u")
        lo, hi = lo_spec(i), hi_spec(i, L)
        dom = [i >= 0, i <= 2, L >= 0]
        g = []
        g.append(("window sextets lie inside the payload bits", dom + [k >= lo, k < hi], z3.And(6 * k >= 8 * i, 6 * k + 6 <= 8 * (i + L))))
        g.append(("window is maximal on the left", dom + [lo > 0], 6 * (lo - 1) < 8 * i))
        g.append(("window is maximal on the right", dom, 6 * hi + 6 > 8 * (i + L)))
        g.append(("window lies inside the encoded text", dom, z3.And(lo >= 0, z3.Or(hi <= lo, hi <= 4 * ((i + L + 2) / 3)))))
        # alignment: prefix of a bytes with a = i (mod 3); sextet k of the padded encoding reads payload bit 8i+t = 6k+u;
        # the same payload bit sits at 8a+t in the containing string, i.e. in sextet k + 4(a-i)/3 at the same offset u.
        sh = 4 * ((a - i) / 3)
        g.append(("aligned occurrence: same sextets shifted by 4(a-i)/3", dom + [a >= i, (a - i) % 3 == 0, u >= 0, u < 6, k >= lo, k < hi],
                  z3.And(6 * (k + sh) + u == (6 * k + u) + 8 * (a - i), sh >= 0)))
        g.append(("every alignment is covered by one of the three shifts", [a >= 0], z3.Or(*[z3.And(a >= j, (a - j) % 3 == 0) for j in range(3)]) ))
        return g


# ----------------------------------------------------------------------------------------------- wide / utf16 modifiers
def u16(variant, t):
    return z3.Function(f"utf16{variant}.encode", z3.StringSort(), bytes_sort())(t)


def dec8(b):
    return z3.Function("utf8.decode", bytes_sort(), z3.StringSort())(b)


def dec8_ok(b):
    return z3.Function("utf8.decodable", bytes_sort(), z3.BoolSort())(b)


def wpart(variant, p):
    P = M.PartSort()
    return z3.If(P.is_PStr(p), P.PStr(dec8(u16(variant, P.str(p)))), p)


def mapw(variant, xs):
    return z3.Function(f"map_wide_{variant}", M.parts_sort(), M.parts_sort())(xs)


def mapw_nil(variant):
    return mapw(variant, z3.Empty(M.parts_sort())) == z3.Empty(M.parts_sort())


def mapw_cons(variant, x, tail):
    return mapw(variant, z3.Concat(z3.Unit(x), tail)) == z3.Concat(z3.Unit(wpart(variant, x)), mapw(variant, tail))


def install_codecs(E):
    def x_encode(I, args, kwargs):
        s, enc = args
        enc = {"utf-16le": "le", "utf-16be": "be"}.get(enc)
        if enc is None:
            raise OutsideSubset(f"codec {args[1]!r}")
        return Sym(u16(enc, mk_str(s)), "bytes")
    E.externals["str.encode"] = x_encode

    def x_decode(I, args, kwargs):
        b, enc = args
        if enc != "utf-8":
            raise OutsideSubset(f"codec {enc!r}")
        bt = mk_bytes(b, I)
        # assumed strict codec: either UnicodeDecodeError, or a string whose UTF-8 encoding is the input
        if not I.ctx.branch(dec8_ok(bt)):
            from pyvc.interp import PyRaise
            raise PyRaise(ExcValue("UnicodeDecodeError"))
        r = dec8(bt)
        I.ctx.assume(M.utf8(r) == bt)
        return Sym(r, "str")
    E.externals["bytes.decode"] = x_decode


class WideLoop(LoopSpec):
    def __init__(self, variant, prefix=None):
        self.variant, self.prefix = variant, prefix
        self.modifies = {"r": ("seq", M.PART)}

    def _r(self, I, env):
        return ops.seq_term(I, env["r"], M.PART)

    def inv(self, I, env, done, rest, total):
        r = self._r(I, env)
        pre = z3.Empty(M.parts_sort()) if self.prefix is None else z3.Unit(M.PartSort().PStr(z3.StringVal(self.prefix)))
        return [("prefix ++ map(widen, done) == r", z3.Concat(pre, mapw(self.variant, total)) == z3.Concat(r, mapw(self.variant, rest)))]

    def hints(self, I, env, phase, x, done, rest2, total):
        if phase == "pre":
            return [mapw_cons(self.variant, x, rest2)]
        if phase == "exit":
            return [mapw_nil(self.variant)]
        return []


class _WideBase(Contract):
    props = ("C04",)
    variant, prefix, clsname = "le", None, None
    assumed = ["strict codecs: str.encode('utf-16le'/'utf-16be') is the UTF-16 encoding; bytes.decode('utf-8') raises UnicodeDecodeError or returns w with utf8(w) == input"]

    def setup(self, E):
        install_common(E)
        install_codecs(E)
        E.loop_invariants[(self.target, 0)] = WideLoop(self.variant, self.prefix)

    def args(self, I):
        val = M.mk_sigma_string(I, "val")
        return {"self": mk_modifier(I, self.clsname), "args": [val], "val": val}

    def post(self, I, inp, r):
        ok = isinstance(r, SObj) and r.cls.name == "SigmaString" and "s" in r.fields
        I.ctx.require(ok, "result is a SigmaString")
        if ok:
            pre = z3.Empty(M.parts_sort()) if self.prefix is None else z3.Unit(M.PartSort().PStr(z3.StringVal(self.prefix)))
            I.ctx.require(ops.seq_term(I, r.fields["s"], M.PART) == z3.Concat(pre, mapw(self.variant, inp["val"].fields["s"].t)),
                          "result parts == [BOM] + [utf8-decoded UTF-16 bytes of every text part, special parts unchanged]")

    def raises(self, I, inp, exc):
        I.ctx.require(exc_is(I, exc, "SigmaValueError"), f"rejecting (SigmaValueError) is the only alternative outcome (got {exc_name(exc)})", kind="SAFE")

    def frame_ok(self, I, inp, obj, name):
        return False      # the input value must not be modified


@register
class WideModify(_WideBase):
    id = "C04.wide.modify"
    target = "sigma.modifiers:SigmaWideModifier.modify"
    variant, clsname = "le", "SigmaWideModifier"


@register
class UTF16BEModify(_WideBase):
    id = "C04.utf16be.modify"
    target = "sigma.modifiers:SigmaUTF16BEModifier.modify"
    variant, clsname = "be", "SigmaUTF16BEModifier"


@register
class UTF16Modify(_WideBase):
    id = "C04.utf16.modify"
    target = "sigma.modifiers:SigmaUTF16Modifier.modify"
    variant, prefix, clsname = "le", "﻿", "SigmaUTF16Modifier"


# ----------------------------------------------------------------------------------------------- bounded stand-in
@register
class C04Bounded(Bounded):
    """Native cross-check of the real modifiers (through SigmaDetectionItem.from_mapping) against Python's own codecs and
    base64 for all payloads up to a length bound over a small alphabet (plus 16 payloads of 56..200 characters), with random surrounding bytes.  Bounded - never
    counted as proved; it is also the search that finds native failing inputs for abstract counter-models."""
    id = "C04.bounded.modifier_chains"
    props = ("C04",)

    def run(self, tier, seed):
        import itertools, random
        from base64 import b64encode
        from sigma.rule import SigmaDetectionItem
        from sigma.types import SigmaString, SigmaExpansion
        from sigma.exceptions import SigmaError
        rnd = random.Random(seed)
        alphabet = ["a", "Z", "ä", "€", "\n", "\\\\", "\\*", " ", "\U0001F600", "中", "Ā", "\u0301", "\u212b"]       # incl. characters that are not in Unicode normalisation form C: the payload's bytes are what is written
        maxlen = 3 if tier == "quick" else 4
        enc = {"wide": lambda t: t.encode("utf-16le"), "utf16le": lambda t: t.encode("utf-16le"), "utf16be": lambda t: t.encode("utf-16be"),
               "utf16": lambda t: b"\xff\xfe" + t.encode("utf-16le")}
        n = nontriv = 0
        samples = []

        class _F(list):           # one recorded failure per (chain, kind of failure); the rest is only counted
            seen = {}

            def append(self, f):
                key = (tuple(f["input"][0]), f["text"].split(":")[1][:12], f["text"].startswith("KNOWN-BOM"))
                _F.seen[key] = _F.seen.get(key, 0) + 1
                if _F.seen[key] == 1:
                    list.append(self, f)
        _F.seen = {}
        failures = _F()

        def lit(src):      # literal text denoted by rule source text over this alphabet
            return src.replace("\\\\", "\x00").replace("\\*", "*").replace("\x00", "\\")

        def vals(item):
            out = []
            for v in item.value:
                out += list(v.values) if isinstance(v, SigmaExpansion) else [v]
            return out

        def text_bytes(v):       # bytes a produced value denotes (literal text, utf-8)
            return M.native_text(v.s).encode("utf-8")
        # payloads longer than one line of MIME-style Base64 (57 bytes; 29 characters after wide / utf16*): RFC 4648 text has no line breaks
        long_sources = ["a" * k for k in (56, 57, 58, 59, 60, 113, 114, 115, 116, 171, 172, 200)] + ["ä" * 29, "x" * 28 + "Z", "ab" * 40, "Zä€" * 13]
        all_sources = [("".join(combo), ln) for ln in range(0, maxlen + 1) for combo in itertools.product(alphabet, repeat=ln)] + [(x, 99) for x in long_sources]
        for src, ln in all_sources:
            if True:
                payload = lit(src)
                for chain in (["base64"], ["base64offset"], ["wide"], ["utf16le"], ["utf16be"], ["utf16"], ["wide", "base64"], ["wide", "base64offset"],
                              ["utf16be", "base64offset"], ["utf16", "base64"]):
                    n += 1
                    try:
                        item = SigmaDetectionItem.from_mapping("f|" + "|".join(chain), src)
                    except SigmaError:
                        continue      # rejecting is an allowed outcome
                    except Exception as e:
                        failures.append({"text": f"{chain} on {src!r}: non-Sigma exception {type(e).__name__}: {e}", "input": [chain, src]})
                        continue
                    data = payload.encode("utf-8")
                    if chain[0] in enc:
                        try:
                            data = enc[chain[0]](payload)
                        except UnicodeEncodeError:
                            continue
                    got = vals(item)
                    nontriv += 1
                    # recorded finding (utf16 BOM): the value holds U+FEFF as a character, i.e. the bytes EF BB BF instead of FF FE.  Exactly
                    # that deviation - everything else of the value as specified - is reported as KNOWN-BOM; any other difference is new.
                    alts = [(data, "")]
                    if chain[0] == "utf16":
                        alts.append((b"\xef\xbb\xbf" + payload.encode("utf-16le"), "KNOWN-BOM "))

                    def outcome(d):
                        if chain[-1] in enc:
                            return None if len(got) == 1 and text_bytes(got[0]) == d else f"{chain} on {src!r}: value bytes {[text_bytes(g) for g in got]!r} != UTF-16 encoding {data!r}"
                        if chain[-1] == "base64":
                            return None if len(got) == 1 and M.native_text(got[0].s) == b64encode(d).decode() else f"{chain} on {src!r}: {[M.native_text(g.s) for g in got]} != b64 {b64encode(data).decode()!r}"
                        want = b64offset_oracle(d)
                        g = [M.native_text(x.s) for x in got]
                        if g != want:
                            return f"{chain} on {src!r}: base64offset {g} != payload-determined windows {b64offset_oracle(data)}"
                        for pl in range(0, 6):
                            for sl in (0, 1, 2, 5):
                                A = bytes(rnd.randrange(256) for _ in range(pl))
                                Bs = bytes(rnd.randrange(256) for _ in range(sl))
                                full = b64encode(A + d + Bs).decode()
                                k = pl % 3
                                at = 4 * ((pl - k) // 3) + (8 * k + 5) // 6
                                if full[at:at + len(g[k])] != g[k]:
                                    return f"{chain} on {src!r}: value {k} {g[k]!r} does not occur at its aligned position in b64 of prefix {pl}/suffix {sl}"
                        return None
                    first = outcome(data)
                    if first is not None:
                        known = chain[0] == "utf16" and outcome(alts[1][0]) is None
                        failures.append({"text": ("KNOWN-BOM " if known else "") + first, "input": [chain, src]})
                    if len(samples) < 5 and ln == 2:
                        samples.append({"chain": chain, "source": src, "values": [M.native_text(x.s) for x in got]})
        # value lists: every value of a list is encoded by itself - the result is the concatenation of the single-value results
        singles = ["ab", "cd", "a", "Zä", "x y", "AB", "zÄ", "A"]       # incl. payloads that differ from another one only in case: they are different byte strings
        for chain in (["base64"], ["base64offset"], ["wide", "base64"], ["wide", "base64offset"], ["utf16le", "base64"], ["utf16be", "base64offset"], ["utf16", "base64"]):
            key = "f|" + "|".join(chain)
            one = {}
            for p_ in singles:
                try:
                    one[p_] = [M.native_text(x.s) for x in vals(SigmaDetectionItem.from_mapping(key, p_))]
                except SigmaError:
                    one[p_] = None
            for a_, b_ in itertools.permutations(singles, 2):
                n += 1
                if one[a_] is None or one[b_] is None:
                    continue
                nontriv += 1
                try:
                    got2 = [M.native_text(x.s) for x in vals(SigmaDetectionItem.from_mapping(key, [a_, b_]))]
                except Exception as e:
                    failures.append({"text": f"{chain} on the list {[a_, b_]!r}: {type(e).__name__}: {e}", "input": [chain, [a_, b_]]})
                    continue
                if got2 != one[a_] + one[b_]:
                    failures.append({"text": f"{chain} on the list {[a_, b_]!r}: values {got2} are not the values of {a_!r} followed by the values of {b_!r} ({one[a_] + one[b_]})", "input": [chain, [a_, b_]]})
        # history: the value an encoding modifier produces for a literal does not depend on what the same literal text was used for before
        # (placeholder expansion un-escapes \% in ITS string object; equal literals must not share that object)
        for lit_src in ("echo \\%PATH", "100\\% sure", "\\%a\\% and \\%b"):
            for chain in (["base64"], ["wide", "base64"], ["base64offset"]):
                n += 1
                nontriv += 1
                key = "f|" + "|".join(chain)
                try:
                    before = [M.native_text(x.s) for x in vals(SigmaDetectionItem.from_mapping(key, lit_src))]
                    SigmaDetectionItem.from_mapping("g|expand", lit_src)
                    SigmaDetectionItem.from_mapping("g|expand|contains", [lit_src, "x"])
                    after = [M.native_text(x.s) for x in vals(SigmaDetectionItem.from_mapping(key, lit_src))]
                except Exception as e:
                    failures.append({"text": f"{chain} on {lit_src!r} around an expand of the same literal: {type(e).__name__}: {e}", "input": [chain, lit_src]})
                    continue
                want_h = b64encode(lit_src.encode("utf-16le" if chain[0] == "wide" else "utf-8")).decode() if chain[-1] == "base64" else None
                if before != after or (want_h is not None and before != [want_h]):
                    failures.append({"text": f"{chain} on {lit_src!r}: {before} before and {after} after the same literal was used with expand" + (f" (the payload's encoding is {want_h!r})" if want_h else ""), "input": [chain, lit_src, "history"]})
        return {"evaluations": n, "distinct_nontrivial": nontriv, "failures": sorted(failures, key=lambda f: f["text"].startswith("KNOWN"))[:40],       # failures that are not on the recorded list come first: they must not be cut off
                 "failure_counts": {str(k): v for k, v in _F.seen.items()}, "bound": f"payloads of <= {maxlen} symbols over {alphabet!r}, 10 modifier chains, prefixes 0..5 x suffixes (0,1,2,5) of random bytes; 7 chains x 20 two-value lists",
                "rule": "every (payload, chain) pair is distinct; non-trivial = not rejected by the library", "samples": samples, "exhaustive": True}
