"""C13 / C14 (part 3) - the loading side of processing items and the book-keeping of a pipeline (sigma/processing/pipeline.py):
what the gates of C13 take as given (condition objects of the configured type and parameters, linking operator, identifiers) is what
the document says; items are bound to exactly the pipeline that runs them; field-name tracking follows one-to-many mappings."""
from __future__ import annotations
import z3
from pyvc.api import *
from pyvc.values import *
from pyvc.interp import UNBOUND
from pyvc import ops

PIPE = "sigma.processing.pipeline"


def cond_class(name, fail=None):
    """a condition class whose constructor records its keyword arguments (fail: the exception class name it raises)"""
    from pyvc.interp import PyRaise

    def ctor(I, a, k):
        if fail:
            raise PyRaise(ExcValue(fail, ("bad parameter",)))
        return SObj("Cond", {"cls": name, "a": list(a), "k": dict(k)})
    return NativeFn(name, ctor)


# ----------------------------------------------------------------------------------------------- condition parsing
@register
class ParseCondition(Contract):
    """_parse_condition: the class registered for the condition's `type`, constructed with every other key of the definition as keyword
    argument; a missing / unknown type and a constructor failure (configuration error or wrong parameter) are configuration errors naming the
    condition"""
    id = "C13.ProcessingItemBase._parse_condition"
    target = f"{PIPE}:ProcessingItemBase._parse_condition"
    props = ("C13",)
    cases = ("ok", "ok-noparams", "no-type", "unknown-type", "ctor-config-error", "ctor-type-error", "ctor-other-error")

    def args(self, I, case):
        p1, p2 = I.fresh("p1", "str"), I.fresh("p2", "int")
        fail = {"ctor-config-error": "SigmaConfigurationError", "ctor-type-error": "TypeError", "ctor-other-error": "KeyError"}.get(case)
        mapping = {"logsource": cond_class("LogsourceCondition", fail), "other": cond_class("Other")}
        d = {"type": "logsource", "category": p1, "n": p2}
        if case == "ok-noparams":
            d = {"type": "logsource"}
        if case == "no-type":
            del d["type"]
        if case == "unknown-type":
            d["type"] = "nonexistent"
        return {"self": ClassRef(I.E.index.lookup(f"{PIPE}:ProcessingItemBase")), "args": [mapping, d, "ref7"], "d": d, "case": case, "p": (p1, p2), "before": dict(d)}

    def post(self, I, inp, r):
        c, case = I.ctx, inp["case"]
        c.require(case in ("ok", "ok-noparams"), "a definition without / with an unknown type or with parameters its class rejects does not yield a condition")
        want = {} if case == "ok-noparams" else {"category": inp["p"][0], "n": inp["p"][1]}
        c.require(isinstance(r, SObj) and r.cls == "Cond" and r.fields["cls"] == "LogsourceCondition" and r.fields["a"] == [] and set(r.fields["k"]) == set(want) and all(r.fields["k"][x] is want[x] for x in want),
                  "the condition class registered for the type, with every other key of the definition as keyword argument")
        c.require(inp["d"] == inp["before"], "the definition (part of the pipeline document) is not modified", kind="FRAME")

    def raises(self, I, inp, exc):
        case = inp["case"]
        if case == "ctor-other-error":
            I.ctx.require(exc_name(exc) == "KeyError", "an unexpected failure of the condition class is not disguised")
            return
        I.ctx.require(case not in ("ok", "ok-noparams") and exc_is(I, exc, "SigmaConfigurationError"), f"a faulty definition is a SigmaConfigurationError (got {exc_name(exc)} in case {case})")

    def frame_ok(self, I, inp, obj, name):
        return False


@register
class ParseConditions(Contract):
    """_parse_conditions: a mapping of definitions becomes a mapping with the same identifiers; a list becomes a list in the same order
    (referred to as 1..n in errors); anything else is a type error"""
    id = "C13.ProcessingItemBase._parse_conditions"
    target = f"{PIPE}:ProcessingItemBase._parse_conditions"
    props = ("C13",)
    cases = ("dict0", "dict2", "list0", "list1", "list3", "str", "none")

    def setup(self, E):
        calls = []
        E._c13c_calls = calls
        E.summaries[f"{PIPE}:ProcessingItemBase._parse_condition"] = lambda I, so, a, k: (calls.append((a[0], a[1], a[2])), SObj("Parsed", {"of": a[1]}))[1]

    def args(self, I, case):
        del I.E._c13c_calls[:]
        defs = [{"type": "a"}, {"type": "b"}, {"type": "c"}]
        cd = {"dict0": {}, "dict2": {"x": defs[0], "y": defs[1]}, "list0": [], "list1": [defs[0]], "list3": list(defs), "str": "text", "none": None}[case]
        mapping = SObj("Mapping", {})
        return {"self": ClassRef(I.E.index.lookup(f"{PIPE}:ProcessingItemBase")), "args": [mapping, cd], "cd": cd, "case": case, "mapping": mapping}

    def post(self, I, inp, r):
        c, cd, calls = I.ctx, inp["cd"], I.E._c13c_calls
        c.require(isinstance(cd, (dict, list)), "neither a list nor a mapping: rejected")
        if isinstance(cd, dict):
            c.require(isinstance(r, dict) and list(r) == list(cd) and all(r[k].fields["of"] is cd[k] for k in cd), "a mapping with the same identifiers, each condition parsed from its own definition")
            c.require([x[2] for x in calls] == list(cd), "errors refer to the identifier")
        else:
            c.require(isinstance(r, list) and len(r) == len(cd) and all(x.fields["of"] is d for x, d in zip(r, cd)), "a list in the order of the definitions")
            c.require([x[2] for x in calls] == [str(i + 1) for i in range(len(cd))], "errors refer to the position, counted from 1")
        c.require(all(x[0] is inp["mapping"] for x in calls), "every definition is resolved in the registry handed in")

    def raises(self, I, inp, exc):
        I.ctx.require(not isinstance(inp["cd"], (dict, list)) and exc_is(I, exc, "SigmaTypeError"), f"only a value that is neither list nor mapping is rejected, with SigmaTypeError (got {exc_name(exc)})")

    def frame_ok(self, I, inp, obj, name):
        return False


@register
class ParseConditionLinking(Contract):
    """_parse_condition_linking: `or` -> any, `and` -> all, absent -> None (the default is chosen later by _check_conditions)"""
    id = "C13.ProcessingItemBase._parse_condition_linking"
    target = f"{PIPE}:ProcessingItemBase._parse_condition_linking"
    props = ("C13",)
    cases = ("or", "and", "absent", "null")

    def args(self, I, case):
        d = {"other_op": "or", "type": "x"}
        if case in ("or", "and"):
            d["the_op"] = case
        if case == "null":
            d["the_op"] = None
        return {"self": ClassRef(I.E.index.lookup(f"{PIPE}:ProcessingItemBase")), "args": [d, "the_op"], "case": case}

    def post(self, I, inp, r):
        want = {"or": ops.ANY, "and": ops.ALL}.get(inp["case"])
        I.ctx.require(r is want if want is not None else r is None, f"{inp['case']}: {'any' if want is ops.ANY else 'all' if want is ops.ALL else 'None'}")

    def frame_ok(self, I, inp, obj, name):
        return False


@register
class ResolveConditionExpression(Contract):
    """_resolve_condition_expression: an expression is resolved against the identifier mapping; conditions the expression never names, and
    an expression over a list, are configuration errors (a condition silently ignored would widen the gate)"""
    id = "C13.ProcessingItemBase._resolve_condition_expression"
    target = f"{PIPE}:ProcessingItemBase._resolve_condition_expression"
    props = ("C13",)
    cases = ("none-list", "none-dict", "all-referenced", "one-unreferenced", "expr-list")

    def args(self, I, case):
        resolved = []
        conds = {"a": SObj("Cond", {}), "b": SObj("Cond", {})}
        refs = {"a", "b"} if case != "one-unreferenced" else {"a"}
        expr = SObj("Expr", {"resolve": NativeFn("resolve", lambda I2, a, k: (resolved.append(a[0]), set(refs))[1]), "expression": "a and b", "location": None})
        e = None if case.startswith("none") else expr
        cs = list(conds.values()) if case in ("none-list", "expr-list") else conds
        me = SObj(I.E.index.lookup(f"{PIPE}:ProcessingItemBase"), {}, lazy=True)
        return {"self": me, "args": [e, cs, "Rule condition"], "case": case, "resolved": resolved, "cs": cs}

    def post(self, I, inp, r):
        case = inp["case"]
        I.ctx.require(case in ("none-list", "none-dict", "all-referenced"), "unreferenced conditions / an expression over a list are rejected")
        I.ctx.require(inp["resolved"] == ([inp["cs"]] if case == "all-referenced" else []), "the expression is resolved exactly once against the mapping of this group")

    def raises(self, I, inp, exc):
        I.ctx.require(inp["case"] in ("one-unreferenced", "expr-list") and exc_is(I, exc, "SigmaPipelineConditionError"), f"SigmaPipelineConditionError exactly for unreferenced conditions / expression over a list (got {exc_name(exc)})")

    def frame_ok(self, I, inp, obj, name):
        return False


@register
class BaseArgsFromDict(Contract):
    """_base_args_from_dict: identifier, rule conditions (parsed from `rule_conditions` in the rule-condition registry), expression,
    linking (`rule_cond_op`), negation (`rule_cond_not`, default off) and the transformation built with the CALLER's capability arguments"""
    id = "C13.ProcessingItemBase._base_args_from_dict"
    target = f"{PIPE}:ProcessingItemBase._base_args_from_dict"
    props = ("C13", "C16")
    cases = ("full", "minimal", "expr")

    def setup(self, E):
        got = {}
        E._c13c_got = got
        E.summaries[f"{PIPE}:ProcessingItemBase._parse_conditions"] = lambda I, so, a, k: (got.__setitem__("pc", (a[0], a[1])), SObj("ParsedConds", {}))[1]
        E.summaries[f"{PIPE}:ProcessingItemBase._parse_condition_linking"] = lambda I, so, a, k: (got.__setitem__("pl", (a[0], a[1])), SObj("Linking", {}))[1]
        E.summaries[f"{PIPE}:ProcessingItemBase._instantiate_transformation"] = lambda I, so, a, k: (got.__setitem__("it", (list(a), dict(k))), SObj("Transformation", {}))[1]
        E.summaries["sigma.processing.condition_expressions:parse_condition_expression"] = lambda I, so, a, k: (got.__setitem__("pe", a[0]), SObj("Expr", {}))[1]

    def args(self, I, case):
        I.E._c13c_got.clear()
        rc = [{"type": "logsource"}]
        ident, neg, ex = I.fresh("id", "str"), I.fresh("neg", "bool"), I.fresh("expr", "str")
        d = {"type": "t"}
        if case in ("full", "expr"):
            d.update({"id": ident, "rule_conditions": rc, "rule_cond_op": "or", "rule_cond_not": neg})
        if case == "expr":
            d["rule_cond_expr"] = ex
        reg = SObj("TransformationRegistry", {})
        caps = {"allow_template_vars": I.fresh("atv", "bool"), "vars_allowed_paths": SObj("Paths", {}), "allow_external_sources": I.fresh("aes", "bool")}
        return {"self": ClassRef(I.E.index.lookup(f"{PIPE}:ProcessingItemBase")), "args": [d, reg], "kwargs": dict(caps), "d": d, "case": case, "rc": rc, "id": ident, "neg": neg, "ex": ex, "reg": reg, "caps": caps}

    def post(self, I, inp, r):
        c, case, got = I.ctx, inp["case"], I.E._c13c_got
        ok = isinstance(r, dict) and set(r) == {"identifier", "rule_conditions", "rule_condition_expression", "rule_condition_linking", "rule_condition_negation", "transformation"}
        c.require(ok, "exactly the six constructor arguments of the base class")
        if not ok:
            return
        c.require(r["identifier"] is (inp["id"] if case != "minimal" else None), "identifier: the document's id, else None")
        reg, defs = got["pc"]
        reg = I.force(reg)
        c.require(isinstance(reg, dict) and "logsource" in reg and "include_fields" not in reg and "match_string" not in reg and getattr(reg["logsource"], "info", None) is not None
                  and reg["logsource"].info.name == "LogsourceCondition", "rule conditions are resolved in the registry of RULE conditions")
        c.require(defs is inp["rc"] if case != "minimal" else defs == [], "the definitions under rule_conditions (none: an empty list)")
        c.require(isinstance(r["rule_conditions"], SObj) and r["rule_conditions"].cls == "ParsedConds", "rule_conditions: the parsed conditions")
        c.require(got["pl"] == (inp["d"], "rule_cond_op") and isinstance(r["rule_condition_linking"], SObj), "linking is read from rule_cond_op")
        if case == "minimal":
            c.require(r["rule_condition_negation"] is False, "negation is off by default")
        else:
            c.require(r["rule_condition_negation"] is inp["neg"], "negation: rule_cond_not")
        if case == "expr":
            c.require(got.get("pe") is inp["ex"] and isinstance(r["rule_condition_expression"], SObj), "the expression text is parsed")
        else:
            c.require("pe" not in got and r["rule_condition_expression"] is None, "no expression: None")
        a, k = got["it"]
        c.require(a[0] is inp["d"] and a[1] is inp["reg"] and set(k) == set(inp["caps"]) and all(k[x] is inp["caps"][x] for x in k), "the transformation is built from this definition, in the registry handed in, with the caller's capability arguments")

    def frame_ok(self, I, inp, obj, name):
        return False


@register
class ItemBasePostInit(Contract):
    """ProcessingItemBase.__post_init__: conditions checked, the transformation learns its item, the expression is resolved, and an item
    without identifier gets a generated one (an item WITH identifier keeps it: conditions refer to items by identifier)"""
    id = "C13.ProcessingItemBase.__post_init__"
    target = f"{PIPE}:ProcessingItemBase.__post_init__"
    props = ("C13",)
    cases = ("given", "none", "empty")

    def setup(self, E):
        trace = []
        E._c13c_trace = trace
        E.summaries[f"{PIPE}:ProcessingItemBase._check_conditions"] = lambda I, so, a, k: trace.append(("check", list(a)))
        E.summaries[f"{PIPE}:ProcessingItemBase._resolve_condition_expression"] = lambda I, so, a, k: trace.append(("resolve", list(a)))
        E.summaries[f"{PIPE}:ProcessingItemBase._generate_identifier"] = lambda I, so, a, k: "generated-identifier"

    def args(self, I, case):
        del I.E._c13c_trace[:]
        trace = I.E._c13c_trace
        ident = {"given": I.fresh("id", "str"), "none": None, "empty": ""}[case]
        tr = SObj("T", {"set_processing_item": NativeFn("spi", lambda I2, a, k: trace.append(("set_item", list(a))))})
        expr, conds = SObj("Expr", {}), SObj("Conds", {})
        me = SObj(I.E.index.lookup(f"{PIPE}:ProcessingItemBase"), {"identifier": ident, "transformation": tr, "rule_condition_expression": expr, "rule_conditions": conds}, lazy=True)
        if case == "given":
            I.ctx.assume(z3.Length(ident.t) > 0)
        return {"self": me, "args": [], "case": case, "ident": ident, "expr": expr, "conds": conds}

    def post(self, I, inp, r):
        c, tr, me = I.ctx, I.E._c13c_trace, inp["self"]
        c.require([x[0] for x in tr] == ["check", "set_item", "resolve"], "conditions are checked, then the transformation learns its item, then the expression is resolved")
        c.require(tr[0][1][:3] == ["rule_condition_expression", "rule_condition_linking", "rule_conditions"] and getattr(tr[0][1][3], "info", None) is not None and tr[0][1][3].info.name == "RuleProcessingCondition",
                  "the rule condition group is checked against the class of rule conditions")
        c.require(tr[1][1] == [me], "the transformation is given THIS item")
        c.require(tr[2][1][0] is inp["expr"] and tr[2][1][1] is inp["conds"], "the rule expression is resolved against the rule conditions")
        if inp["case"] == "given":
            c.require(me.fields["identifier"] is inp["ident"], "a given identifier is kept")
        else:
            c.require(me.fields["identifier"] == "generated-identifier", "an item without identifier gets the generated one")

    def frame_ok(self, I, inp, obj, name):
        return obj is inp["self"] and name == "identifier"


@register
class ItemPostInit(Contract):
    """ProcessingItem.__post_init__: after the base checks, the detection-item and the field-name condition groups are each checked against
    THEIR condition class and their expression resolved against THEIR conditions"""
    id = "C13.ProcessingItem.__post_init__"
    target = f"{PIPE}:ProcessingItem.__post_init__"
    props = ("C13",)

    def setup(self, E):
        trace = []
        E._c13c_trace = trace
        E.summaries[f"{PIPE}:ProcessingItemBase.__post_init__"] = lambda I, so, a, k: trace.append(("base", []))
        E.summaries[f"{PIPE}:ProcessingItemBase._check_conditions"] = lambda I, so, a, k: trace.append(("check", list(a)))
        E.summaries[f"{PIPE}:ProcessingItemBase._resolve_condition_expression"] = lambda I, so, a, k: trace.append(("resolve", list(a)))

    def args(self, I):
        del I.E._c13c_trace[:]
        f = {n: SObj(n, {}) for n in ("detection_item_condition_expression", "detection_item_conditions", "field_name_condition_expression", "field_name_conditions")}
        me = SObj(I.E.index.lookup(f"{PIPE}:ProcessingItem"), dict(f), lazy=True)
        return {"self": me, "args": [], "f": f}

    def post(self, I, inp, r):
        c, tr, f = I.ctx, I.E._c13c_trace, inp["f"]
        c.require([x[0] for x in tr] == ["base", "check", "resolve", "check", "resolve"], "base checks first, then check + resolve per group")
        if len(tr) != 5:
            return
        for (ck, rs, grp, clsname) in ((tr[1], tr[2], "detection_item", "DetectionItemProcessingCondition"), (tr[3], tr[4], "field_name", "FieldNameProcessingCondition")):
            c.require(ck[1][:3] == [f"{grp}_condition_expression", f"{grp}_condition_linking", f"{grp}_conditions"] and ck[1][3].info.name == clsname, f"the {grp} group is checked against {clsname}")
            c.require(rs[1][0] is f[f"{grp}_condition_expression"] and rs[1][1] is f[f"{grp}_conditions"], f"the {grp} expression is resolved against the {grp} conditions")

    def frame_ok(self, I, inp, obj, name):
        return False


# ----------------------------------------------------------------------------------------------- binding items to the pipeline
def _cond(trace, name):
    return SObj("Cond", {"set_pipeline": NativeFn("set_pipeline", lambda I2, a, k: trace.append((name, "set", a[0]))), "_clear_pipeline": NativeFn("_clear_pipeline", lambda I2, a, k: trace.append((name, "clear", None)))})


class _Binding(Contract):
    props = ("C13", "C14")
    cases = tuple((shape, bound) for shape in ("list", "dict") for bound in (False, True))
    level, clear = "base", False

    def setup(self, E):
        if self.level == "item":
            base = f"{PIPE}:ProcessingItemBase." + ("_clear_pipeline" if self.clear else "set_pipeline")
            E.summaries[base] = lambda I, so, a, k: E._c13c_trace.append(("base", "clear" if self.clear else "set", a[0] if a else None))
        E._c13c_trace = []

    def args(self, I, case):
        shape, bound = case
        trace = I.E._c13c_trace
        del trace[:]
        mk = (lambda names: [_cond(trace, n) for n in names]) if shape == "list" else (lambda names: {n: _cond(trace, n) for n in names})
        other, mine = SObj("OtherPipeline", {}), SObj("Pipeline", {})
        f = {"_pipeline": other if bound else None, "transformation": _cond(trace, "T"), "rule_conditions": mk(["r1", "r2"])}
        if self.level == "item":
            f.update({"detection_item_conditions": mk(["d1", "d2"]), "field_name_conditions": mk(["f1"])})
        me = SObj(I.E.index.lookup(f"{PIPE}:" + ("ProcessingItem" if self.level == "item" else "ProcessingItemBase")), f, lazy=True)
        return {"self": me, "args": [] if self.clear else [mine], "mine": mine, "case": case}

    def expected(self, inp):
        names = ["T", "r1", "r2"] if self.level == "base" else ["base", "d1", "d2", "f1"]
        return [(n, "clear" if self.clear else "set", None if self.clear else inp["mine"]) for n in names]

    def post(self, I, inp, r):
        c, (shape, bound) = I.ctx, inp["case"]
        if not self.clear and self.level == "base":
            c.require(not bound, "an item that already belongs to a pipeline is not silently re-bound")
            c.require(inp["self"].fields["_pipeline"] is inp["mine"], "the item belongs to the given pipeline")
        if self.clear and self.level == "base":
            c.require(inp["self"].fields["_pipeline"] is None, "the item belongs to no pipeline")
        got, want = I.E._c13c_trace, self.expected(inp)
        c.require(len(got) == len(want) and all(g[0] == w[0] and g[1] == w[1] and g[2] is w[2] for g, w in zip(got, want)),
                  f"the transformation and every condition of every group ({shape} form) is {'released' if self.clear else 'bound to the same pipeline'}, each once")

    def raises(self, I, inp, exc):
        I.ctx.require(not self.clear and self.level == "base" and inp["case"][1] and exc_is(I, exc, "SigmaProcessingItemError") and I.E._c13c_trace == [],
                      f"only binding an item that already belongs to a pipeline fails, before anything is bound (got {exc_name(exc)})")

    def frame_ok(self, I, inp, obj, name):
        return obj is inp["self"] and name == "_pipeline" and self.level == "base"


for _lvl, _clr, _cls, _m in (("base", False, "ProcessingItemBase", "set_pipeline"), ("base", True, "ProcessingItemBase", "_clear_pipeline"), ("item", False, "ProcessingItem", "set_pipeline"), ("item", True, "ProcessingItem", "_clear_pipeline")):
    register(type(f"Binding_{_cls}_{_m}", (_Binding,), {"id": f"C13.{_cls}.{_m}", "target": f"{PIPE}:{_cls}.{_m}", "level": _lvl, "clear": _clr,
                                                          "__doc__": f"{_cls}.{_m}: the item, its transformation and all its conditions (list or mapping form) refer to one pipeline"}))


@register
class PipelineSetPipeline(Contract):
    """ProcessingPipeline.set_pipeline / __post_init__: every item, post-processing item and finalizer is bound to THIS pipeline; objects
    of the wrong kind in any of the three lists are a TypeError before anything is bound"""
    id = "C14.ProcessingPipeline.__post_init__"
    target = f"{PIPE}:ProcessingPipeline.__post_init__"
    props = ("C14", "C13")
    cases = ("ok", "empty", "bad-item", "bad-post", "bad-finalizer")

    def args(self, I, case):
        idx = I.E.index
        trace = []

        def mk(clsname, n):
            return SObj(idx.lookup(clsname), {"set_pipeline": NativeFn("set_pipeline", lambda I2, a, k: trace.append((n, a[0])))}, lazy=True)
        items = [mk(f"{PIPE}:ProcessingItem", "i1"), mk(f"{PIPE}:ProcessingItem", "i2")]
        posts = [mk(f"{PIPE}:QueryPostprocessingItem", "p1")]
        fins = [mk("sigma.processing.finalization:ConcatenateQueriesFinalizer", "f1")]
        wrong = SObj(idx.lookup("sigma.processing.transformations.fields:AddFieldTransformation"), {}, lazy=True)
        if case == "empty":
            items, posts, fins = [], [], []
        if case == "bad-item":
            items.append(wrong)
        if case == "bad-post":
            posts.insert(0, items[0])
        if case == "bad-finalizer":
            fins.append(wrong)
        me = SObj(idx.lookup(f"{PIPE}:ProcessingPipeline"), {"items": items, "postprocessing_items": posts, "finalizers": fins}, lazy=True)
        return {"self": me, "args": [], "trace": trace, "case": case, "n": [x for x in ("i1", "i2", "p1", "f1")] if case != "empty" else []}

    def post(self, I, inp, r):
        c = I.ctx
        c.require(inp["case"] in ("ok", "empty"), "an object of the wrong kind in one of the lists is rejected")
        c.require([x[0] for x in inp["trace"]] == inp["n"] and all(x[1] is inp["self"] for x in inp["trace"]), "items, post-processing items and finalizers are bound, in this order, to this pipeline")

    def raises(self, I, inp, exc):
        I.ctx.require(inp["case"].startswith("bad") and exc_name(exc) == "TypeError" and inp["trace"] == [], f"TypeError for an object of the wrong kind, nothing bound (got {exc_name(exc)})")

    def frame_ok(self, I, inp, obj, name):
        return False


# ----------------------------------------------------------------------------------------------- field-name tracking
@register
class TrackFieldProcessingItems(Contract):
    """track_field_processing_items: when a field is mapped to something else, every target field is recorded with the items applied to
    the source field so far plus this item - each target with a set of its own; the source field's record moves (it is gone unless the
    source is among the targets); an identity mapping records nothing"""
    id = "C13.ProcessingPipeline.track_field_processing_items"
    target = f"{PIPE}:ProcessingPipeline.track_field_processing_items"
    props = ("C13", "C12")
    cases = tuple((dest, ident, known) for dest in ("same", "one", "two", "two-with-src", "none") for ident in (True, False) for known in (True, False))

    def args(self, I, case):
        dest, ident, known = case
        from pyvc.builtins_ import SDefaultDict
        before = {"earlier1", "earlier2"}
        other = {"x"}
        dd = SDefaultDict()
        dd.factory = NativeFn("set", lambda I2, a, k: set())
        dd["unrelated"] = other
        if known:
            dd["src"] = before
        me = SObj(I.E.index.lookup(f"{PIPE}:ProcessingPipeline"), {"field_name_applied_ids": dd}, lazy=True)
        targets = {"same": ["src"], "one": ["t1"], "two": ["t1", "t2"], "two-with-src": ["src", "t2"], "none": []}[dest]
        return {"self": me, "args": ["src", list(targets), "item-id" if ident else None], "dd": dd, "before": before, "other": other, "targets": targets, "case": case}

    def post(self, I, inp, r):
        c, (dest, ident, known) = I.ctx, inp["case"]
        data = inp["dd"]
        want_set = ({"earlier1", "earlier2"} if known else set()) | ({"item-id"} if ident else set())
        c.require(data.get("unrelated") is inp["other"] and inp["other"] == {"x"}, "records of other fields are untouched", kind="FRAME")
        if dest == "same":
            c.require(set(data) - {"unrelated"} <= {"src"} and (not known or (data["src"] is inp["before"] and data["src"] == {"earlier1", "earlier2"})), "an identity mapping records nothing")
            return
        tg = inp["targets"]
        c.require(all(t in data and data[t] == want_set for t in tg), f"every target field carries the items applied to the source so far plus this item: {sorted(want_set)}")
        sets = [data[t] for t in tg if t in data]
        c.require(all(a is not b for i, a in enumerate(sets) for b in sets[i + 1:]), "each target has a set of its own (what is applied to one target later is not recorded for the other)")
        c.require(("src" in data) == ("src" in tg), "the source field's record moves to the targets")

    def frame_ok(self, I, inp, obj, name):
        return False


@register
class FieldWasProcessedBy(Contract):
    """field_was_processed_by: whether the item's identifier is recorded for the field; no field: no"""
    id = "C13.ProcessingPipeline.field_was_processed_by"
    target = f"{PIPE}:ProcessingPipeline.field_was_processed_by"
    props = ("C13",)
    cases = ("none", "recorded", "other-id", "unknown-field")

    def args(self, I, case):
        from pyvc.builtins_ import SDefaultDict
        dd = SDefaultDict()
        dd.factory = NativeFn("set", lambda I2, a, k: set())
        dd.update({"f": {"id1"}, "g": {"id2"}})
        me = SObj(I.E.index.lookup(f"{PIPE}:ProcessingPipeline"), {"field_name_applied_ids": dd}, lazy=True)
        a = {"none": [None, "id1"], "recorded": ["f", "id1"], "other-id": ["f", "id2"], "unknown-field": ["h", "id1"]}[case]
        return {"self": me, "args": a, "case": case}

    def post(self, I, inp, r):
        I.ctx.require(r is (inp["case"] == "recorded"), "true exactly when this identifier is recorded for this field")

    def frame_ok(self, I, inp, obj, name):
        return True       # looking up an unknown field in the defaultdict may create its (empty) record


@register
class PostprocessingItemApply(Contract):
    """QueryPostprocessingItem.apply: the query is transformed iff the rule conditions hold; otherwise it is passed through unchanged"""
    id = "C13.QueryPostprocessingItem.apply"
    target = f"{PIPE}:QueryPostprocessingItem.apply"
    props = ("C13", "C08")

    def args(self, I):
        applied = []
        g = I.fresh("gate", "bool")
        rule, q, out = SObj("Rule", {}), I.fresh("query", "str"), I.fresh("transformed", "str")
        me = SObj(I.E.index.lookup(f"{PIPE}:QueryPostprocessingItem"), {"transformation": SObj("T", {"apply": NativeFn("apply", lambda I2, a, k: (applied.append(list(a)), out)[1])})}, lazy=True)
        I.E.summaries[f"{PIPE}:ProcessingItemBase.match_rule_conditions"] = lambda I2, so, a, k: g
        return {"self": me, "args": [rule, q], "g": g, "applied": applied, "rule": rule, "q": q, "out": out}

    def post(self, I, inp, r):
        c = I.ctx
        ok = isinstance(r, tuple) and len(r) == 2
        c.require(ok, "a pair (query, applied)")
        if not ok:
            return
        was = len(inp["applied"]) == 1
        c.require(inp["g"].t == z3.BoolVal(was), "the transformation runs (once) iff the rule conditions hold")
        if was:
            c.require(inp["applied"][0][0] is inp["rule"] and inp["applied"][0][1] is inp["q"] and r[0] is inp["out"] and r[1] is True, "it gets this rule and this query; its result is returned, marked as applied")
        else:
            c.require(len(inp["applied"]) == 0 and r[0] is inp["q"] and r[1] is False, "otherwise the query is passed through, marked as not applied")

    def frame_ok(self, I, inp, obj, name):
        return False


# ----------------------------------------------------------------------------------------------- condition expressions: binding names
CE = "sigma.processing.condition_expressions"
CBASE = "sigma.processing.conditions.base"
CR = "sigma.processing.conditions.rule"


@register
class IdentifierResolve(Contract):
    """ConditionIdentifier.resolve: the identifier is bound to the condition defined under exactly that name; an unknown name is a
    condition error; the set of resolved names is {name}"""
    id = "C13.ConditionIdentifier.resolve"
    target = f"{CE}:ConditionIdentifier.resolve"
    props = ("C13",)
    cases = ("known", "unknown")

    def args(self, I, case):
        a, b = SObj("CondA", {}), SObj("CondB", {})
        me = SObj(I.E.index.lookup(f"{CE}:ConditionIdentifier"), {"identifier": "b" if case == "known" else "zz", "expression": "a and b", "location": 3}, lazy=True)
        return {"self": me, "args": [{"a": a, "b": b}], "b": b, "case": case}

    def post(self, I, inp, r):
        r = I.force(r)
        I.ctx.require(inp["case"] == "known" and inp["self"].fields.get("_condition") is inp["b"] and r == {"b"}, "bound to the condition of that name; the resolved names are {name}")

    def raises(self, I, inp, exc):
        I.ctx.require(inp["case"] == "unknown" and exc_is(I, exc, "SigmaPipelineConditionError"), f"an unknown name is a SigmaPipelineConditionError (got {exc_name(exc)})")

    def frame_ok(self, I, inp, obj, name):
        return obj is inp["self"] and name == "_condition"


def _mk_resolve(clsname, fields):
    class C(Contract):
        __doc__ = f"{clsname}.resolve: every operand is resolved against the SAME mapping; the result is the union of what the operands resolved"
        id = f"C13.{clsname}.resolve"
        target = f"{CE}:{clsname}.resolve"
        props = ("C13",)

        def args(self, I):
            seen = []
            sets = {"left": {"a", "b"}, "right": {"b", "c"}, "condition": {"x"}}
            f = {n: SObj("Expr", {"resolve": NativeFn("resolve", (lambda n: lambda I2, a, k: (seen.append((n, a[0])), set(sets[n]))[1])(n))}) for n in fields}
            me = SObj(I.E.index.lookup(f"{CE}:{clsname}"), f, lazy=True)
            conds = {"a": 1}
            return {"self": me, "args": [conds], "seen": seen, "conds": conds, "want": set().union(*[sets[n] for n in fields])}

        def post(self, I, inp, r):
            r = I.force(r)
            I.ctx.require(sorted(n for n, _ in inp["seen"]) == sorted(fields) and all(c is inp["conds"] for _, c in inp["seen"]), "each operand is resolved once against the given mapping")
            I.ctx.require(isinstance(r, set) and r == inp["want"], "the union of the operands' resolved names")

        def frame_ok(self, I, inp, obj, name):
            return False
    C.__name__ = f"Resolve_{clsname}"
    return C


register(_mk_resolve("BinaryConditionOp", ("left", "right")))
register(_mk_resolve("ConditionNOT", ("condition",)))


@register
class BinaryFromParsed(Contract):
    """BinaryConditionOp.from_parsed: `a OP b OP c ...` (operands at the even positions of the token list) becomes the left-nested tree
    ((a OP b) OP c) ... of the class it is called on - every operand exactly once, in order"""
    id = "C13.BinaryConditionOp.from_parsed"
    target = f"{CE}:BinaryConditionOp.from_parsed"
    props = ("C13",)
    cases = tuple((cls, n) for cls in ("ConditionAND", "ConditionOR") for n in (2, 3, 4))

    def args(self, I, case):
        cls, n = case
        ops_ = [SObj("Operand", {"n": i}) for i in range(n)]
        toks = []
        for i, o in enumerate(ops_):
            if i:
                toks.append("and" if cls == "ConditionAND" else "or")
            toks.append(o)
        return {"self": ClassRef(I.E.index.lookup(f"{CE}:{cls}")), "args": ["the expression text", 7, [toks]], "ops": ops_, "case": case}

    def post(self, I, inp, r):
        cls, n = inp["case"]
        leaves = []

        def walk(x):
            if isinstance(x, SObj) and getattr(x.cls, "name", None) == cls:
                walk(x.fields["left"])
                walk(x.fields["right"])
                return True
            leaves.append(x)
        top = isinstance(r, SObj) and getattr(r.cls, "name", None) == cls
        I.ctx.require(top, f"a {cls} node")
        if top:
            walk(r)
            I.ctx.require(len(leaves) == n and all(a is b for a, b in zip(leaves, inp["ops"])), "its leaves are the operands, each once, in order (operator tokens skipped)")
            I.ctx.require(r.fields.get("expression") == "the expression text" and r.fields.get("location") == 7, "expression text and location are recorded")

    def frame_ok(self, I, inp, obj, name):
        return False


@register
class NotFromParsed(Contract):
    """ConditionNOT.from_parsed: `not x` negates x (the token after the operator)"""
    id = "C13.ConditionNOT.from_parsed"
    target = f"{CE}:ConditionNOT.from_parsed"
    props = ("C13",)

    def args(self, I):
        x = SObj("Operand", {})
        return {"self": ClassRef(I.E.index.lookup(f"{CE}:ConditionNOT")), "args": ["text", 2, [["not", x]]], "x": x}

    def post(self, I, inp, r):
        I.ctx.require(isinstance(r, SObj) and getattr(r.cls, "name", None) == "ConditionNOT" and r.fields.get("condition") is inp["x"] and r.fields.get("expression") == "text", "a NOT node over the operand")

    def frame_ok(self, I, inp, obj, name):
        return False


@register
class IdentifierFromParsed(Contract):
    """ConditionIdentifier.from_parsed: the token is the identifier"""
    id = "C13.ConditionIdentifier.from_parsed"
    target = f"{CE}:ConditionIdentifier.from_parsed"
    props = ("C13",)

    def args(self, I):
        name = I.fresh("name", "str")
        return {"self": ClassRef(I.E.index.lookup(f"{CE}:ConditionIdentifier")), "args": ["text", 4, [name]], "name": name}

    def post(self, I, inp, r):
        I.ctx.require(isinstance(r, SObj) and getattr(r.cls, "name", None) == "ConditionIdentifier" and r.fields.get("identifier") is inp["name"] and r.fields.get("location") == 4 and r.fields.get("expression") == "text", "an identifier node for that name")

    def frame_ok(self, I, inp, obj, name):
        return False


# ----------------------------------------------------------------------------------------------- field-name conditions on values, rule walkers
@register
class FieldNameMatchValue(Contract):
    """FieldNameProcessingCondition.match_value: a field reference is judged by the name it refers to; any other value never matches"""
    id = "C13.FieldNameProcessingCondition.match_value"
    target = f"{CBASE}:FieldNameProcessingCondition.match_value"
    props = ("C13",)
    cases = ("SigmaFieldReference", "SigmaString", "SigmaNumber", "SigmaRegularExpression")

    def args(self, I, case):
        asked = []
        verdict = I.fresh("verdict", "bool")
        fld = I.fresh("referenced", "str")
        v = SObj(I.E.index.lookup(f"sigma.types:{case}"), {"field": fld}, lazy=True)
        me = SObj(I.E.index.lookup(f"{CBASE}:FieldNameProcessingCondition"), {"match_field_name": NativeFn("mfn", lambda I2, a, k: (asked.append(a[0]), verdict)[1])}, lazy=True)
        return {"self": me, "args": [v], "asked": asked, "verdict": verdict, "fld": fld, "case": case}

    def post(self, I, inp, r):
        if inp["case"] == "SigmaFieldReference":
            I.ctx.require(r is inp["verdict"] and len(inp["asked"]) == 1 and inp["asked"][0] is inp["fld"], "the verdict on the referenced field name")
        else:
            I.ctx.require(r is False and inp["asked"] == [], "not a field reference: no match")

    def frame_ok(self, I, inp, obj, name):
        return False


@register
class FieldNameMatchItemParts(Contract):
    """FieldNameProcessingCondition.match_detection_item_field / _value: the field part is judged by the item's field name, the value part
    holds iff some value matches"""
    id = "C13.FieldNameProcessingCondition.match_detection_item_value"
    target = f"{CBASE}:FieldNameProcessingCondition.match_detection_item_value"
    props = ("C13",)
    cases = (0, 1, 3)

    def args(self, I, case):
        vals = [SObj("Value", {"i": i}) for i in range(case)]
        vs = [I.fresh(f"value{i}_matches", "bool") for i in range(case)]
        item = SObj(I.E.index.lookup("sigma.rule.detection:SigmaDetectionItem"), {"value": list(vals)}, lazy=True)
        me = SObj(I.E.index.lookup(f"{CBASE}:FieldNameProcessingCondition"), {"match_value": NativeFn("mv", lambda I2, a, k: vs[a[0].fields["i"]])}, lazy=True)
        return {"self": me, "args": [item], "vs": vs}

    def post(self, I, inp, r):
        I.ctx.require(ops.mk_bool_term(ops.truth(I, r)) == ops.mk_or([v.t for v in inp["vs"]]), "holds iff some value matches")

    def frame_ok(self, I, inp, obj, name):
        return False


@register
class FieldNameMatchItemField(Contract):
    id = "C13.FieldNameProcessingCondition.match_detection_item_field"
    target = f"{CBASE}:FieldNameProcessingCondition.match_detection_item_field"
    props = ("C13",)
    cases = ("named", "keyword")
    __doc__ = "match_detection_item_field: the verdict on the item's own field name - for keyword items (no field name) too: it is the condition that decides about None (exclude_fields holds, include_fields does not)"

    def args(self, I, case):
        asked = []
        verdict, fld = I.fresh("verdict", "bool"), (I.fresh("field", "str") if case == "named" else None)
        item = SObj(I.E.index.lookup("sigma.rule.detection:SigmaDetectionItem"), {"field": fld}, lazy=True)
        me = SObj(I.E.index.lookup(f"{CBASE}:FieldNameProcessingCondition"), {"match_field_name": NativeFn("mfn", lambda I2, a, k: (asked.append(a[0]), verdict)[1])}, lazy=True)
        return {"self": me, "args": [item], "asked": asked, "verdict": verdict, "fld": fld}

    def post(self, I, inp, r):
        I.ctx.require(r is inp["verdict"] and len(inp["asked"]) == 1 and inp["asked"][0] is inp["fld"], "the verdict on the item's field name")

    def frame_ok(self, I, inp, obj, name):
        return False


@register
class RuleDetectionItemConditionMatch(Contract):
    """RuleDetectionItemCondition.match: a detection rule matches iff find_detection_item holds for one of its detections (all of them are
    looked at); a correlation rule never matches"""
    id = "C13.RuleDetectionItemCondition.match"
    target = f"{CBASE}:RuleDetectionItemCondition.match"
    props = ("C13",)
    cases = ("rule0", "rule1", "rule3", "correlation")

    def args(self, I, case):
        idx = I.E.index
        n = {"rule0": 0, "rule1": 1, "rule3": 3, "correlation": 0}[case]
        dets = {f"d{i}": SObj("Detection", {"i": i}) for i in range(n)}
        vs = [I.fresh(f"found_in_d{i}", "bool") for i in range(n)]
        if case == "correlation":
            rule = SObj(idx.lookup("sigma.correlations:SigmaCorrelationRule"), {}, lazy=True)
        else:
            rule = SObj(idx.lookup("sigma.rule.rule:SigmaRule"), {"detection": SObj("Detections", {"detections": dets})}, lazy=True)
        me = SObj(idx.lookup(f"{CBASE}:RuleDetectionItemCondition"), {"find_detection_item": NativeFn("find", lambda I2, a, k: vs[a[0].fields["i"]])}, lazy=True)
        return {"self": me, "args": [rule], "vs": vs, "case": case}

    def post(self, I, inp, r):
        if inp["case"] == "correlation":
            I.ctx.require(r is False, "a correlation rule has no detection items")
        else:
            I.ctx.require(ops.mk_bool_term(ops.truth(I, r)) == ops.mk_or([v.t for v in inp["vs"]]), "matches iff the item is found in some detection")

    def frame_ok(self, I, inp, obj, name):
        return False


@register
class RuleTagMatch(Contract):
    """RuleTagCondition.match: whether the configured tag is among the rule's tags; IsSigmaCorrelationRuleCondition: the kind of the rule"""
    id = "C13.RuleTagCondition.match"
    target = f"{CR}:RuleTagCondition.match"
    props = ("C13",)
    cases = (0, 1, 3)

    def args(self, I, case):
        tag = SObj("Tag", {})
        tag.ghost["eq_unknown"] = "wanted"
        tags = [SObj("Tag", {}) for _ in range(case)]
        for i, t in enumerate(tags):
            t.ghost["eq_unknown"] = f"tag{i}"
        rule = SObj(I.E.index.lookup("sigma.rule.rule:SigmaRule"), {"tags": list(tags)}, lazy=True)
        me = SObj(I.E.index.lookup(f"{CR}:RuleTagCondition"), {"match_tag": tag}, lazy=True)
        return {"self": me, "args": [rule], "tag": tag, "tags": tags}

    def post(self, I, inp, r):
        want = ops.mk_or([ops.py_eq(I, inp["tag"], t) for t in inp["tags"]]) if inp["tags"] else z3.BoolVal(False)
        I.ctx.require(ops.mk_bool_term(ops.truth(I, r)) == want, "holds iff the tag equals one of the rule's tags")

    def frame_ok(self, I, inp, obj, name):
        return False


@register
class IsCorrelationRule(Contract):
    id = "C13.IsSigmaCorrelationRuleCondition.match"
    target = f"{CR}:IsSigmaCorrelationRuleCondition.match"
    props = ("C13",)
    cases = ("sigma.rule.rule:SigmaRule", "sigma.correlations:SigmaCorrelationRule")
    __doc__ = "IsSigmaCorrelationRuleCondition.match: true exactly for correlation rules"

    def args(self, I, case):
        return {"self": SObj(I.E.index.lookup(f"{CR}:IsSigmaCorrelationRuleCondition"), {}, lazy=True), "args": [SObj(I.E.index.lookup(case), {}, lazy=True)], "case": case}

    def post(self, I, inp, r):
        I.ctx.require(r is inp["case"].endswith("SigmaCorrelationRule"), "true exactly for correlation rules")

    def frame_ok(self, I, inp, obj, name):
        return False


@register
class ConditionSetPipeline(Contract):
    """ProcessingCondition.set_pipeline / ConditionExpression.set_pipeline: bound once; re-binding is an error that keeps the first binding"""
    id = "C13.ProcessingCondition.set_pipeline"
    target = f"{CBASE}:ProcessingCondition.set_pipeline"
    props = ("C13", "C14")
    cases = (False, True)

    def args(self, I, case):
        old, new = SObj("Pipeline", {}), SObj("Pipeline", {})
        me = SObj(I.E.index.lookup(f"{CBASE}:ProcessingCondition"), {"_pipeline": old if case else None}, lazy=True)
        return {"self": me, "args": [new], "old": old, "new": new, "case": case}

    def post(self, I, inp, r):
        I.ctx.require(not inp["case"] and inp["self"].fields["_pipeline"] is inp["new"], "an unbound condition is bound to the given pipeline; a bound one is not re-bound")

    def raises(self, I, inp, exc):
        I.ctx.require(inp["case"] and exc_is(I, exc, "SigmaProcessingItemError") and inp["self"].fields["_pipeline"] is inp["old"], f"re-binding fails and keeps the binding (got {exc_name(exc)})")

    def frame_ok(self, I, inp, obj, name):
        return obj is inp["self"] and name == "_pipeline"


# ----------------------------------------------------------------------------------------------- include / exclude fields in regular-expression mode
CF = "sigma.processing.conditions.fields"


@register
class FieldConditionPostInit(Contract):
    """IncludeFieldCondition.__post_init__ (also exclude_fields): in `re` mode ONE compiled pattern per configured pattern, each compiled
    from exactly that text, in order (patterns are independent: inline flags and group numbers of one do not reach another); `plain`
    compiles nothing; any other mode is a configuration error"""
    id = "C13.IncludeFieldCondition.__post_init__"
    target = f"{CF}:IncludeFieldCondition.__post_init__"
    props = ("C13",)
    cases = tuple((mode, n) for mode in ("re", "plain") for n in (0, 1, 3)) + (("bogus", 1),)

    def setup(self, E):
        E._c13c_compiled = []
        E.externals["re.compile"] = lambda I, a, k: (E._c13c_compiled.append((list(a), dict(k))), SObj("Compiled", {"of": a[0], "n": len(E._c13c_compiled)}))[1]

    def args(self, I, case):
        mode, n = case
        del I.E._c13c_compiled[:]
        pats = [I.fresh(f"pattern{i}", "str") for i in range(n)]
        me = SObj(I.E.index.lookup(f"{CF}:IncludeFieldCondition"), {"fields": list(pats), "mode": mode, "patterns": []}, lazy=True)
        return {"self": me, "args": [], "pats": pats, "case": case}

    def post(self, I, inp, r):
        mode, n = inp["case"]
        c = I.ctx
        c.require(mode in ("re", "plain"), "an unknown mode is rejected")
        got = inp["self"].fields.get("patterns")
        if mode == "plain":
            c.require(I.E._c13c_compiled == [] and got == [], "plain mode compiles nothing")
            return
        got = I.force(got) if not isinstance(got, list) else got
        c.require(isinstance(got, list) and len(got) == n and all(isinstance(g, SObj) and g.cls == "Compiled" and g.fields["of"] is p for g, p in zip(got, inp["pats"])), "one compiled pattern per configured pattern, from exactly that text, in order")
        c.require(len(I.E._c13c_compiled) == n and all(len(a) == 1 and not k for a, k in I.E._c13c_compiled), "each pattern is compiled on its own, without extra flags")

    def raises(self, I, inp, exc):
        I.ctx.require(inp["case"][0] == "bogus" and exc_is(I, exc, "SigmaConfigurationError"), f"SigmaConfigurationError for an unknown mode only (got {exc_name(exc)})")

    def frame_ok(self, I, inp, obj, name):
        return obj is inp["self"] and name == "patterns"


def _mk_re_field(clsname, negate):
    class C(Contract):
        __doc__ = f"{clsname}.match_field_name in `re` mode: {'not ' if negate else ''}(a field name is given and SOME configured pattern matches it from its start)"
        id = f"C13.{clsname}.match_field_name[re]"
        target = f"{CF}:{clsname}.match_field_name"
        props = ("C13",)
        cases = (0, 1, 3)
        assumed = ["compiled patterns are abstract: pattern.match(field) is a symbolic verdict per pattern"]

        def args(self, I, case):
            asked = []
            vs = [I.fresh(f"pattern{i}_matches", "bool") for i in range(case)]
            pats = [SObj("Compiled", {"match": NativeFn("match", (lambda i: lambda I2, a, k: (asked.append((i, a[0])), SOpt(z3.Not(vs[i].t), SObj("Match", {})))[1])(i))}) for i in range(case)]
            fld = SOpt(z3.Bool(I.ctx.fresh_name("field_none")), I.fresh("field", "str"))
            me = SObj(I.E.index.lookup(f"{CF}:{clsname}"), {"fields": ["x"] * case, "mode": "re", "patterns": pats}, lazy=True)
            return {"self": me, "args": [fld], "vs": vs, "fld": fld, "asked": asked}

        def post(self, I, inp, r):
            f = inp["fld"]
            spec = z3.And(z3.Not(f.is_none), ops.mk_or([v.t for v in inp["vs"]]))
            I.ctx.require(ops.mk_bool_term(ops.truth(I, r)) == (z3.Not(spec) if negate else spec), ("not " if negate else "") + "(field given and some pattern matches)")

        def frame_ok(self, I, inp, obj, name):
            return False
    C.__name__ = f"ReField_{clsname}"
    return C


register(_mk_re_field("IncludeFieldCondition", False))
register(_mk_re_field("ExcludeFieldCondition", True))


@register
class MatchValueConditionValue(Contract):
    """MatchValueCondition.match_value: what the VALUE's own equality says about the configured plain value (strings, case-sensitive
    strings, numbers, timestamp parts, booleans alike); a value that cannot be compared with it does not match"""
    id = "C13.MatchValueCondition.match_value"
    target = "sigma.processing.conditions.values:MatchValueCondition.match_value"
    props = ("C13", "C12")
    cases = tuple((cls, out) for cls in ("SigmaString", "SigmaCasedString", "SigmaNumber", "SigmaTimestampPart", "SigmaBool", "SigmaNull") for out in ("verdict", "not-comparable"))

    def setup(self, E):
        for n in ("SigmaString", "SigmaNumber", "SigmaBool", "SigmaNull"):        # whatever the condition pre-computes from its configuration is abstract
            E.summaries[f"sigma.types:{n}"] = (lambda n: lambda I, so, a, k: SObj(I.E.index.lookup(f"sigma.types:{n}"), {"configured": a[0] if a else None}, lazy=True))(n)

    def args(self, I, case):
        from pyvc.interp import PyRaise
        cls, out = case
        verdict = I.fresh("values_equal", "bool")
        asked = []

        def eq(I2, a, k):
            asked.append(a[0])
            if out == "not-comparable":
                raise PyRaise(ExcValue("NotImplementedError", ("cannot compare",)))
            return verdict
        cfg = I.fresh("configured_value", "str")
        val = SObj(I.E.index.lookup(f"sigma.types:{cls}"), {"__eq__": NativeFn("__eq__", eq)}, lazy=True)
        me = SObj(I.E.index.lookup("sigma.processing.conditions.values:MatchValueCondition"), {"cond": "any", "value": cfg}, lazy=True)
        return {"self": me, "args": [val], "verdict": verdict, "asked": asked, "cfg": cfg, "case": case}

    def post(self, I, inp, r):
        cls, out = inp["case"]
        if out == "not-comparable":
            I.ctx.require(r is False, "a value that cannot be compared does not match")
        else:
            I.ctx.require(len(inp["asked"]) == 1 and ops.mk_bool_term(ops.truth(I, r)) == inp["verdict"].t, f"the verdict of the {cls} value's own equality, asked once")

    def frame_ok(self, I, inp, obj, name):
        return False
