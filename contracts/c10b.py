"""C10 (part 2) - correlation conversion: dispatch by type, template selection, and which element of the correlation rule goes into which
slot of which template (sigma/conversion/base.py).  Templates are opaque: `format` records its keyword arguments and returns a fresh
string, so every contract is about WHAT is passed WHERE, in which order - the property's "carries every element faithfully"."""
from __future__ import annotations
import z3
from pyvc.api import *
from pyvc.values import *
from pyvc import ops

CB = "sigma.conversion.base"
CORR = "sigma.correlations"
TYPES = ("EVENT_COUNT", "VALUE_COUNT", "TEMPORAL", "TEMPORAL_ORDERED", "VALUE_SUM", "VALUE_AVG", "VALUE_PERCENTILE", "VALUE_MEDIAN")


def tmpl(I, calls, name):
    """an opaque template: format(**kw) records (name, kw, result)"""
    def f(I2, a, k):
        r = I2.fresh(name + "_out", "str")
        calls.append((name, dict(k), r, list(a)))
        return r
    return SObj("Template", {"format": NativeFn("format", f)})


def mk_ref(I, i, named=True):
    rule = SObj("Rule", {"name": I.fresh(f"r{i}_name", "str") if named else None, "id": I.fresh(f"r{i}_id", "opaque", "UUID"), "fields": [I.fresh(f"r{i}_f{j}", "str") for j in range(1)]})
    if named:
        I.ctx.assume(z3.Length(rule.fields["name"].t) > 0)
    return SObj(I.E.index.lookup(f"{CORR}:SigmaRuleReference"), {"reference": I.fresh(f"ref{i}", "str"), "rule": rule})


# ----------------------------------------------------------------------------------------------- dispatch
@register
class ConvertCorrelationRule(Contract):
    """Backend.convert_correlation_rule: the pipeline is applied first; the rule is converted by the method of ITS type (temporal types:
    the extended variant iff the condition is an extended condition) with the chosen correlation method; every query is finished, then
    finalized with its index; the finalized list is stored as the rule's conversion result and returned"""
    id = "C10.Backend.convert_correlation_rule"
    target = f"{CB}:Backend.convert_correlation_rule"
    props = ("C10", "C08")
    cases = tuple((t, ext, nq) for t in TYPES for ext in (False, True) for nq in (1, 2) if (not ext or t.startswith("TEMPORAL")) and (nq == 1 or t in ("EVENT_COUNT", "TEMPORAL")))
    assumed = ["the per-type conversion methods, finish_query and finalize_query are abstract callees (own contracts where they exist)", "1..2 queries per rule (unrolled)"]

    def setup(self, E):
        def conv(name):
            def f(I, so, a, k):
                I.E._c10_trace.append(("convert", name, list(a), dict(k), I.E._c10_pipeline_applied[0]))
                return list(I.E._c10_raw)
            return f
        for n in ("event_count", "value_count", "temporal", "temporal_ordered", "extended_temporal", "extended_temporal_ordered", "value_sum", "value_avg", "value_percentile", "value_median"):
            E.summaries[f"{CB}:Backend.convert_correlation_{n}_rule"] = conv(n)

        def s_finish(I, so, a, k):
            r = I.fresh("finished", "opaque", "Query")
            I.E._c10_trace.append(("finish", a[0], a[1], a[2], r))
            return r
        E.summaries[f"{CB}:Backend.finish_query"] = s_finish

        def s_finalize(I, so, a, k):
            r = I.fresh("finalized", "opaque", "Query")
            I.E._c10_trace.append(("finalize", list(a), r))
            return r
        E.summaries[f"{CB}:Backend.finalize_query"] = s_finalize

    def args(self, I, case):
        t, ext, nq = case
        idx = I.E.index
        I.E._c10_trace, I.E._c10_pipeline_applied = [], [False]
        I.E._c10_raw = [I.fresh(f"raw{i}", "opaque", "Query") for i in range(nq)]
        cond = SObj(idx.lookup(f"{CORR}:SigmaExtendedCorrelationCondition" if ext else f"{CORR}:SigmaCorrelationCondition"), {}, lazy=True)
        got = {}
        rule = SObj(idx.lookup(f"{CORR}:SigmaCorrelationRule"), {"type": EnumVal(idx.lookup(f"{CORR}:SigmaCorrelationType"), t), "condition": cond, "source": None,
                                                                   "set_conversion_result": NativeFn("set_conversion_result", lambda I2, a, k: got.__setitem__("result", a[0])),
                                                                   "set_conversion_states": NativeFn("set_conversion_states", lambda I2, a, k: got.__setitem__("states", a[0]))}, lazy=True)

        def apply(I2, a, k):
            I2.E._c10_pipeline_applied[0] = True
            I2.E._c10_trace.append(("apply", a[0]))
        pipeline = SObj("Pipeline", {"apply": NativeFn("apply", apply), "state": {"k": I.fresh("pstate", "str")}})
        me = SObj(idx.lookup(f"{CB}:Backend"), {"correlation_methods": {"default": "d", "other": "o"}, "default_correlation_method": "default", "last_processing_pipeline": pipeline,
                                                "default_format": "default", "name": "b"}, lazy=True)
        fmt = I.fresh("output_format", "str")
        I.ctx.assume(z3.Length(fmt.t) > 0)
        return {"self": me, "args": [rule, fmt, "other"], "rule": rule, "got": got, "fmt": fmt, "case": case}

    def post(self, I, inp, r):
        c, tr, rule = I.ctx, I.E._c10_trace, inp["rule"]
        t, ext, nq = inp["case"]
        want = ("extended_" if ext else "") + t.lower()
        convs = [x for x in tr if x[0] == "convert"]
        ok = len(convs) == 1
        c.require(ok, "exactly one per-type conversion method is called")
        if not ok:
            return
        c.require(convs[0][1] == want, f"a {t} rule with a{'n extended' if ext else ' basic'} condition is converted by convert_correlation_{want}_rule (got {convs[0][1]})")
        c.require(convs[0][2][0] is rule and convs[0][2][1] is inp["fmt"] and convs[0][2][2] == "other", "the rule, the output format and the chosen method are passed on")
        c.require(convs[0][4] is True and tr[0][0] == "apply" and tr[0][1] is rule, "the processing pipeline is applied to the rule before it is converted")
        fin = [x for x in tr if x[0] == "finish"]
        c.require(len(fin) == nq and all(f[1] is rule and f[2] is raw for f, raw in zip(fin, I.E._c10_raw)), "every raw query is finished, in order, for this rule")
        fz = [x for x in tr if x[0] == "finalize"]
        c.require(len(fz) == nq and all(z[1][0] is rule and z[1][1] is f[4] and z[1][2] == i and z[1][4] is inp["fmt"] for i, (z, f) in enumerate(zip(fz, fin))),
                  "every finished query is finalized with its index and the requested output format")
        r = I.force(r) if not isinstance(r, list) else r
        c.require(isinstance(r, list) and len(r) == nq and all(x is z[2] for x, z in zip(r, fz)), "the finalized queries are returned in order")
        res = inp["got"].get("result")
        res = I.force(res) if res is not None and not isinstance(res, list) else res
        c.require(isinstance(res, list) and len(res) == nq and all(x is z[2] for x, z in zip(res, fz)), "and stored as the conversion result of the rule")

    def frame_ok(self, I, inp, obj, name):
        return False


@register
class ConvertCorrelationRuleRejects(Contract):
    """no correlation support / an unsupported correlation method is rejected before anything is converted"""
    id = "C10.Backend.convert_correlation_rule[rejects]"
    target = f"{CB}:Backend.convert_correlation_rule"
    props = ("C10",)
    cases = ("no_support", "bad_method")

    def args(self, I, case):
        idx = I.E.index
        touched = []
        rule = SObj(idx.lookup(f"{CORR}:SigmaCorrelationRule"), {"source": None}, lazy=True)
        pipeline = SObj("Pipeline", {"apply": NativeFn("apply", lambda I2, a, k: touched.append(1))})
        me = SObj(idx.lookup(f"{CB}:Backend"), {"correlation_methods": None if case == "no_support" else {"default": "d"}, "default_correlation_method": "default", "last_processing_pipeline": pipeline, "name": "b"}, lazy=True)
        return {"self": me, "args": [rule, None, "nope"], "touched": touched, "case": case}

    def post(self, I, inp, r):
        I.ctx.require(False, "an unsupported correlation method / backend without correlation support converts nothing")

    def raises(self, I, inp, exc):
        I.ctx.require(exc_is(I, exc, "NotImplementedError" if inp["case"] == "no_support" else "SigmaConversionError") and not inp["touched"],
                      f"NotImplementedError without correlation support, SigmaConversionError for an unknown method, before the pipeline is applied (got {exc_name(exc)})", kind="SAFE")

    def frame_ok(self, I, inp, obj, name):
        return False


# ----------------------------------------------------------------------------------------------- per-type wrappers
WRAPPERS = {"event_count": "event_count", "value_count": "value_count", "temporal": "temporal", "temporal_ordered": "temporal_ordered", "extended_temporal": "temporal_extended",
            "extended_temporal_ordered": "temporal_ordered_extended", "value_sum": "value_sum", "value_avg": "value_avg", "value_percentile": "value_percentile", "value_median": "value_median"}


def _mk_wrapper(meth, ctype):
    class C(Contract):
        __doc__ = f"convert_correlation_{meth}_rule renders the templates of correlation type '{ctype}' with the chosen method"
        id = f"C10.TextQueryBackend.convert_correlation_{meth}_rule"
        target = f"{CB}:TextQueryBackend.convert_correlation_{meth}_rule"
        props = ("C10",)

        def setup(self, E):
            E.summaries[f"{CB}:TextQueryBackend.convert_correlation_rule_from_template"] = lambda I, so, a, k: SObj("Rendered", {"a": list(a), "k": dict(k)})

        def args(self, I):
            rule = SObj(I.E.index.lookup(f"{CORR}:SigmaCorrelationRule"), {}, lazy=True)
            m = I.fresh("method", "str")
            return {"self": SObj(I.E.index.lookup(f"{CB}:TextQueryBackend"), {}, lazy=True), "args": [rule, I.fresh("fmt", "str"), m], "rule": rule, "m": m}

        def post(self, I, inp, r):
            ok = isinstance(r, SObj) and r.cls == "Rendered"
            I.ctx.require(ok, "the template renderer's result is returned")
            if ok:
                a = r.fields["a"] + [r.fields["k"].get(n) for n in ("rule", "correlation_type", "method")[len(r.fields["a"]):]]
                I.ctx.require(a[0] is inp["rule"] and a[1] == ctype and a[2] is inp["m"], f"rule, correlation type '{ctype}' and method are passed (got type {a[1]!r})")

        def frame_ok(self, I, inp, obj, name):
            return False
    C.__name__ = f"Wrap_{meth}"
    return C


for _m, _t in WRAPPERS.items():
    register(_mk_wrapper(_m, _t))


# ----------------------------------------------------------------------------------------------- template renderer
@register
class RuleFromTemplate(Contract):
    """convert_correlation_rule_from_template: the query template of the correlation type (or the default query template) for the method
    is rendered once with the search, typing, timespan, aggregation, condition and group-by parts of THIS rule, each produced by its
    function from the corresponding element of the rule"""
    id = "C10.TextQueryBackend.convert_correlation_rule_from_template"
    target = f"{CB}:TextQueryBackend.convert_correlation_rule_from_template"
    props = ("C10",)
    cases = ("typed", "default", "none", "bad_method")
    assumed = ["the six part functions are abstract callees with their own contracts"]

    def setup(self, E):
        def part(name):
            def f(I, so, a, k):
                r = I.fresh(name, "str")
                I.E._c10_parts[name] = (list(a), dict(k), r)
                return r
            return f
        for n, key in (("search", "convert_correlation_search"), ("typing", "convert_correlation_typing"), ("timespan", "convert_timespan"), ("aggregate", "convert_correlation_aggregation_from_template"),
                       ("condition", "convert_correlation_condition_from_template"), ("groupby", "convert_correlation_aggregation_groupby_from_template")):
            E.summaries[f"{CB}:TextQueryBackend.{key}"] = part(n)

    def args(self, I, case):
        idx = I.E.index
        I.E._c10_parts = {}
        calls = []
        rule = SObj(idx.lookup(f"{CORR}:SigmaCorrelationRule"), {"timespan": SObj("Timespan", {}), "condition": SObj("Cond", {}), "referenced_rules": [SObj("Ref", {})], "group_by": [I.fresh("g", "str")], "source": None}, lazy=True)
        typed = {"m1": tmpl(I, calls, "typed_m1"), "m2": tmpl(I, calls, "typed_m2")} if case in ("typed", "bad_method") else None
        dflt = {"m1": tmpl(I, calls, "default_m1"), "m2": tmpl(I, calls, "default_m2")} if case in ("typed", "default") else None
        me = SObj(idx.lookup(f"{CB}:TextQueryBackend"), {"value_sum_correlation_query": typed, "default_correlation_query": dflt}, lazy=True)
        return {"self": me, "args": [rule, "value_sum", "m3" if case == "bad_method" else "m2"], "rule": rule, "calls": calls, "case": case}

    def post(self, I, inp, r):
        c, calls, parts, rule, case = I.ctx, inp["calls"], I.E._c10_parts, inp["rule"], inp["case"]
        c.require(case in ("typed", "default"), "without a template / with an unsupported method nothing is rendered")
        want = "typed_m2" if case == "typed" else "default_m2"
        ok = len(calls) == 1 and calls[0][0] == want
        c.require(ok, f"exactly the template {want} is rendered")
        r = I.force(r) if not isinstance(r, list) else r
        c.require(isinstance(r, list) and len(r) == 1 and ok and r[0] is calls[0][2], "one query: the rendered template")
        if ok:
            k = calls[0][1]
            c.require(set(k) == {"search", "typing", "timespan", "aggregate", "condition", "groupby"} and all(k[n] is parts[n][2] for n in k if n in parts) and len(parts) == 6,
                      "each slot receives the part produced by its own function")
            a = lambda n: parts[n][0] + list(parts[n][1].values())
            c.require(a("search")[0] is rule and a("typing")[0] is rule, "search and typing are built from this rule")
            c.require(a("timespan")[0] is rule.fields["timespan"] and a("timespan")[1] == "m2", "timespan part from the rule's timespan and the method")
            c.require(a("aggregate")[0] is rule and a("aggregate")[1] == "value_sum" and a("aggregate")[2] == "m2" and a("aggregate")[3] is parts["search"][2], "aggregation from the rule, its type, the method and the search part")
            c.require(a("condition")[0] is rule.fields["condition"] and a("condition")[1] is rule.fields["referenced_rules"] and a("condition")[2] == "value_sum" and a("condition")[3] == "m2",
                      "condition part from the rule's condition and references, its type and the method")
            c.require(a("groupby")[0] is rule.fields["group_by"] and a("groupby")[1] == "m2", "group-by part from the rule's group-by fields and the method")

    def raises(self, I, inp, exc):
        case = inp["case"]
        I.ctx.require((case == "none" and exc_is(I, exc, "NotImplementedError")) or (case == "bad_method" and exc_is(I, exc, "SigmaConversionError")),
                      f"NotImplementedError without any template, SigmaConversionError for a method the template does not define (got {exc_name(exc)})", kind="SAFE")
        I.ctx.require(not inp["calls"], "nothing is rendered on the error paths", kind="SAFE")

    def frame_ok(self, I, inp, obj, name):
        return False


# ----------------------------------------------------------------------------------------------- typing
@register
class CorrelationTyping(Contract):
    """typing part: one typing expression per (referenced rule in reference order) x (each of its queries), tagged with that rule's name
    (or id), joined with the joiner, wrapped once; no typing expression configured: empty"""
    id = "C10.TextQueryBackend.convert_correlation_typing"
    target = f"{CB}:TextQueryBackend.convert_correlation_typing"
    props = ("C10",)
    cases = ((), (1,), (2,), (1, 2), (1, 0, 1), "off", "nested")
    assumed = ["templates opaque; 0..3 referenced rules with 0..2 queries (unrolled); nested: a referenced rule that is itself a correlation rule over two further rules"]

    def args(self, I, case):
        calls = []
        rr = []
        for i, nq in enumerate(() if case == "off" else (1, 1) if case == "nested" else case):
            ref = mk_ref(I, i, named=(i != 1))
            qs = [I.fresh(f"r{i}q{j}", "str") for j in range(nq)]
            if case == "nested" and i == 1:
                # the second referenced rule is a correlation rule: its OWN query stands for it in the typing part, not the queries of the rules below it
                inner = [mk_ref(I, 10 + j) for j in range(2)]
                for j, ir in enumerate(inner):
                    ir.fields["rule"].fields["get_conversion_result"] = NativeFn("get_conversion_result", lambda I2, a, k, j=j: [I2.fresh(f"inner{j}_query", "str")])
                nested = SObj(I.E.index.lookup(f"{CORR}:SigmaCorrelationRule"), {"name": I.fresh("nested_name", "str"), "id": None, "referenced_rules": inner}, lazy=True)
                I.ctx.assume(z3.Length(nested.fields["name"].t) > 0)
                ref.fields["rule"] = nested
            ref.fields["rule"].fields["get_conversion_result"] = NativeFn("get_conversion_result", lambda I2, a, k, qs=qs: list(qs))
            ref.ghost["qs"] = qs
            rr.append(ref)
        rule = SObj(I.E.index.lookup(f"{CORR}:SigmaCorrelationRule"), {"referenced_rules": rr}, lazy=True)
        me = SObj(I.E.index.lookup(f"{CB}:TextQueryBackend"), {"typing_expression": None if case == "off" else tmpl(I, calls, "typing"), "typing_rule_query_expression": tmpl(I, calls, "entry"),
                                                              "typing_rule_query_expression_joiner": "|J|"}, lazy=True)
        return {"self": me, "args": [rule], "calls": calls, "rr": rr, "case": case}

    def post(self, I, inp, r):
        c, calls, rr = I.ctx, inp["calls"], inp["rr"]
        if inp["case"] == "off":
            c.require(r == "" and not calls, "no typing expression: empty typing part")
            return
        entries = [x for x in calls if x[0] == "entry"]
        want = [(ref, q) for ref in rr for q in ref.ghost["qs"]]
        c.require(len(entries) == len(want), "one typing entry per referenced rule and per query of it")
        for e, (ref, q) in zip(entries, want):
            rl = ref.fields["rule"]
            c.require(e[1].get("rule") is rl and e[1].get("query") is q and e[1].get("ruleid") is (rl.fields["name"] if rl.fields["name"] is not None else rl.fields["id"]),
                      "each entry carries its rule, that rule's query and that rule's name (or id), in reference order")
        outer = [x for x in calls if x[0] == "typing"]
        c.require(len(outer) == 1 and calls[-1][0] == "typing" and r is outer[0][2], "the typing expression is rendered once, last, and returned")
        if outer:
            parts = []
            for i, e in enumerate(entries):
                if i:
                    parts.append("|J|")
                parts.append(e[2])
            c.require(ops.py_eq(I, outer[0][1].get("queries"), ops.concat_strs(I, parts) if parts else ""), "queries == the entries joined in order")

    def frame_ok(self, I, inp, obj, name):
        return False


# ----------------------------------------------------------------------------------------------- referenced rules / group by / fields
@register
class ReferencedRules(Contract):
    """convert_referenced_rules: one expression per referenced rule, in order, tagged with its name (or id), joined; not configured: None"""
    id = "C10.TextQueryBackend.convert_referenced_rules"
    target = f"{CB}:TextQueryBackend.convert_referenced_rules"
    props = ("C10", "C09")
    cases = (0, 1, 2, 3, "off")

    def args(self, I, case):
        calls = []
        rr = [mk_ref(I, i, named=(i != 1)) for i in range(0 if case == "off" else case)]
        me = SObj(I.E.index.lookup(f"{CB}:TextQueryBackend"), {"referenced_rules_expression": None if case == "off" else {"m": tmpl(I, calls, "ref"), "x": tmpl(I, calls, "wrong_method")},
                                                              "referenced_rules_expression_joiner": {"m": "|J|", "x": "|X|"}}, lazy=True)
        return {"self": me, "args": [rr, "m"], "calls": calls, "rr": rr, "case": case}

    def post(self, I, inp, r):
        c, calls, rr = I.ctx, inp["calls"], inp["rr"]
        if inp["case"] == "off":
            c.require(r is None and not calls, "not configured: None")
            return
        c.require(len(calls) == len(rr) and all(x[0] == "ref" for x in calls), "one expression of the chosen method per referenced rule")
        for x, ref in zip(calls, rr):
            rl = ref.fields["rule"]
            c.require(x[1].get("ruleid") is (rl.fields["name"] if rl.fields["name"] is not None else rl.fields["id"]), "tagged with the rule's name (or id), in reference order")
        parts = []
        for i, x in enumerate(calls):
            if i:
                parts.append("|J|")
            parts.append(x[2])
        c.require(ops.py_eq(I, r, ops.concat_strs(I, parts) if parts else ""), "joined with the joiner of the chosen method, in order")

    def frame_ok(self, I, inp, obj, name):
        return False


@register
class GroupBy(Contract):
    """group-by part: every group-by field of the rule, escaped / quoted as a field name, in order; no group-by: the no-field expression"""
    id = "C10.TextQueryBackend.convert_correlation_aggregation_groupby_from_template"
    target = f"{CB}:TextQueryBackend.convert_correlation_aggregation_groupby_from_template"
    props = ("C10",)
    cases = (None, 1, 2, 3, "none_nofield_unset", "unsupported")

    def setup(self, E):
        E.summaries[f"{CB}:TextQueryBackend.escape_and_quote_field"] = lambda I, so, a, k: Sym(z3.Function("escape_and_quote_field", z3.StringSort(), z3.StringSort())(mk_str(I.force(a[0]))), "str")

    def args(self, I, case):
        calls = []
        n = case if isinstance(case, int) else (1 if case == "unsupported" else None)
        gb = None if n is None else [I.fresh(f"g{i}", "str") for i in range(n)]
        nofield = I.fresh("nofield", "str")
        me = SObj(I.E.index.lookup(f"{CB}:TextQueryBackend"), {"groupby_expression_nofield": None if case == "none_nofield_unset" else {"m": nofield, "x": "wrong"},
                                                              "groupby_expression": None if case == "unsupported" else {"m": tmpl(I, calls, "outer"), "x": tmpl(I, calls, "wrong")},
                                                              "groupby_field_expression": {"m": tmpl(I, calls, "field"), "x": tmpl(I, calls, "wrong")}, "groupby_field_expression_joiner": {"m": "|J|", "x": "|X|"}}, lazy=True)
        return {"self": me, "args": [gb, "m"], "calls": calls, "gb": gb, "nofield": nofield, "case": case}

    def post(self, I, inp, r):
        c, calls, gb, case = I.ctx, inp["calls"], inp["gb"], inp["case"]
        c.require(case != "unsupported", "group-by fields without group-by templates are rejected")
        if gb is None:
            c.require((r is inp["nofield"]) if case is None else (r == ""), "no group-by fields: the no-field expression of the method (empty if there is none)")
            c.require(not calls, "no template is rendered without fields")
            return
        esc = z3.Function("escape_and_quote_field", z3.StringSort(), z3.StringSort())
        fs = [x for x in calls if x[0] == "field"]
        c.require(len(fs) == len(gb), "one field expression per group-by field")
        for x, g in zip(fs, gb):
            v = x[1].get("field")
            c.require(isinstance(v, Sym) and ops.mk_bool_term(ops.py_eq(I, v, Sym(esc(g.t), "str"))), "each group-by field, escaped and quoted as a field name, in order")
        outer = [x for x in calls if x[0] == "outer"]
        c.require(len(outer) == 1 and r is outer[0][2] and not [x for x in calls if x[0] == "wrong"], "the group-by expression of the chosen method is rendered once and returned")
        if outer:
            parts = []
            for i, x in enumerate(fs):
                if i:
                    parts.append("|J|")
                parts.append(x[2])
            c.require(ops.py_eq(I, outer[0][1].get("fields"), ops.concat_strs(I, parts)), "fields == the field expressions joined in order")

    def raises(self, I, inp, exc):
        I.ctx.require(exc_is(I, exc, "NotImplementedError") and inp["case"] == "unsupported", f"NotImplementedError exactly when group-by templates are missing (got {exc_name(exc)})", kind="SAFE")

    def frame_ok(self, I, inp, obj, name):
        return False


@register
class AggregationFields(Contract):
    """fields part: the fields of the referenced rules (reference order), then the correlation rule's own fields; group-by fields are left
    out; every field once, at its first position"""
    id = "C10.TextQueryBackend.convert_correlation_aggregation_fields_from_template"
    target = f"{CB}:TextQueryBackend.convert_correlation_aggregation_fields_from_template"
    props = ("C10",)
    cases = ("distinct", "dup", "groupby", "empty", "off", "no_groupby")
    assumed = ["field names are concrete in this contract (membership tests decide on them); templates opaque"]

    def setup(self, E):
        E.summaries[f"{CB}:TextQueryBackend.escape_and_quote_field"] = lambda I, so, a, k: SObj("Escaped", {"of": a[0]})

    def args(self, I, case):
        calls = []
        own = {"distinct": ["o1"], "dup": ["a", "o1", "o1"], "groupby": ["g", "o1"], "empty": [], "off": ["o1"], "no_groupby": ["g"]}[case]
        reff = {"distinct": [["a"], ["b"]], "dup": [["a", "b"], ["b", "a"]], "groupby": [["g", "a"], ["b"]], "empty": [[], []], "off": [["a"]], "no_groupby": [["a"]]}[case]
        rr = [SObj("Ref", {"rule": SObj("Rule", {"fields": list(f)})}) for f in reff]
        gb = None if case == "no_groupby" else ["g"]
        me = SObj(I.E.index.lookup(f"{CB}:TextQueryBackend"), {"correlation_fields_expression": None if case == "off" else {"m": tmpl(I, calls, "outer"), "x": tmpl(I, calls, "wrong")},
                                                              "correlation_fields_field_expression": {"m": tmpl(I, calls, "field"), "x": tmpl(I, calls, "wrong")},
                                                              "correlation_fields_field_expression_joiner": {"m": "|J|", "x": "|X|"}}, lazy=True)
        seq = [f for fl in reff for f in fl] + own
        want = []
        for f in seq:
            if (gb is None or f not in gb) and f not in want:
                want.append(f)
        return {"self": me, "args": [own, rr, gb, "m"], "calls": calls, "want": want, "case": case}

    def post(self, I, inp, r):
        c, calls, want, case = I.ctx, inp["calls"], inp["want"], inp["case"]
        if case == "off" or not want:
            c.require(r == "" and not calls, "not configured / no field left: empty fields part")
            return
        fs = [x for x in calls if x[0] == "field"]
        got = [x[1].get("field").fields.get("of") if isinstance(x[1].get("field"), SObj) else None for x in fs]
        c.require(got == want, f"fields of the referenced rules, then the rule's own, without group-by fields, each once at its first position: {want} (got {got})")
        outer = [x for x in calls if x[0] == "outer"]
        c.require(len(outer) == 1 and r is outer[0][2] and not [x for x in calls if x[0] == "wrong"], "the fields expression of the chosen method is rendered once and returned")
        if outer:
            parts = []
            for i, x in enumerate(fs):
                if i:
                    parts.append("|J|")
                parts.append(x[2])
            c.require(ops.py_eq(I, outer[0][1].get("fields"), ops.concat_strs(I, parts)), "fields == the field expressions joined in order")

    def frame_ok(self, I, inp, obj, name):
        return False


# ----------------------------------------------------------------------------------------------- aggregation / condition
@register
class AggregationFromTemplate(Contract):
    """aggregation part: the aggregation template of the correlation type for the method receives the rule, the condition's field
    reference and percentile (basic conditions; empty otherwise), the referenced rules, fields, timespan, group-by and search parts;
    value_percentile without percentile is an error"""
    id = "C10.TextQueryBackend.convert_correlation_aggregation_from_template"
    target = f"{CB}:TextQueryBackend.convert_correlation_aggregation_from_template"
    props = ("C10",)
    cases = (("value_sum", "basic", True), ("value_percentile", "basic", True), ("value_percentile", "basic", False), ("value_percentile", "basic0", True), ("temporal_extended", "extended", False), ("value_sum", "none", True))
    assumed = ["_format_template renders the template with the keyword arguments (its own check of 'referenced_rules' aside); part functions abstract"]

    def setup(self, E):
        def part(name):
            def f(I, so, a, k):
                r = I.fresh(name, "str")
                I.E._c10_parts[name] = (list(a), dict(k), r)
                return r
            return f
        for n, key in (("referenced_rules", "convert_referenced_rules"), ("fields", "convert_correlation_aggregation_fields_from_template"), ("timespan", "convert_timespan"),
                       ("groupby", "convert_correlation_aggregation_groupby_from_template")):
            E.summaries[f"{CB}:TextQueryBackend.{key}"] = part(n)

        def s_fmt(I, so, a, k):
            I.E._c10_fmt.append((a[0], dict(k)))
            return I.fresh("rendered", "str")
        E.summaries[f"{CB}:Backend._format_template"] = s_fmt

    def args(self, I, case):
        ctype, ckind, has_p = case
        idx = I.E.index
        I.E._c10_parts, I.E._c10_fmt = {}, []
        if ckind.startswith("basic"):
            pv = (0 if ckind == "basic0" else I.fresh("percentile", "int")) if has_p else None
            cond = SObj(idx.lookup(f"{CORR}:SigmaCorrelationCondition"), {"fieldref": I.fresh("cond_field", "str"), "percentile": pv, "count": I.fresh("count", "int")}, lazy=True)
        else:
            cond = SObj(idx.lookup(f"{CORR}:SigmaExtendedCorrelationCondition"), {}, lazy=True)
        rule = SObj(idx.lookup(f"{CORR}:SigmaCorrelationRule"), {"condition": cond, "referenced_rules": [SObj("Ref", {})], "fields": [I.fresh("f", "str")], "group_by": [I.fresh("g", "str")],
                                                                   "timespan": SObj("Timespan", {}), "source": None}, lazy=True)
        t_m, t_x = I.fresh("template_m", "str"), I.fresh("template_x", "str")
        me = SObj(idx.lookup(f"{CB}:TextQueryBackend"), {f"{ctype}_aggregation_expression": None if ckind == "none" else {"m": t_m, "x": t_x}}, lazy=True)
        search = I.fresh("search", "str")
        return {"self": me, "args": [rule, ctype, "m", search], "rule": rule, "cond": cond, "t_m": t_m, "search": search, "case": case}

    def post(self, I, inp, r):
        c, rule, cond = I.ctx, inp["rule"], inp["cond"]
        ctype, ckind, has_p = inp["case"]
        c.require(ckind != "none" and not (ctype == "value_percentile" and ckind.startswith("basic") and not has_p), "missing templates / missing percentile are rejected")
        fm = I.E._c10_fmt
        ok = len(fm) == 1 and fm[0][0] is inp["t_m"]
        c.require(ok, "the aggregation template of the chosen method is rendered once")
        if ok:
            k, parts = fm[0][1], I.E._c10_parts
            c.require(k.get("rule") is rule and k.get("search") is inp["search"], "rule and search part are passed")
            if ckind.startswith("basic"):
                c.require(k.get("field") is cond.fields["fieldref"], "field == the condition's field reference")
                c.require((k.get("percentile") is cond.fields["percentile"] or (ckind == "basic0" and k.get("percentile") == 0 and k.get("percentile") is not False and k.get("percentile") != "")) if has_p else k.get("percentile") == "",
                          "percentile == the condition's percentile, 0 included (empty if none)")
            else:
                c.require(k.get("field") == "" and k.get("percentile") == "", "extended conditions have no field / percentile")
            for n in ("referenced_rules", "fields", "timespan", "groupby"):
                c.require(n in parts and k.get(n) is parts[n][2], f"{n} part produced by its function")
            if len(parts) == 4:
                a = lambda n: parts[n][0] + list(parts[n][1].values())
                c.require(a("referenced_rules")[0] is rule.fields["referenced_rules"] and a("referenced_rules")[1] == "m", "referenced rules part from the rule's references and the method")
                c.require(a("fields")[0] is rule.fields["fields"] and a("fields")[1] is rule.fields["referenced_rules"] and a("fields")[2] is rule.fields["group_by"] and a("fields")[3] == "m",
                          "fields part from the rule's fields, references, group-by and the method")
                c.require(a("timespan")[0] is rule.fields["timespan"] and a("timespan")[1] == "m" and a("groupby")[0] is rule.fields["group_by"] and a("groupby")[1] == "m", "timespan and group-by parts from the rule and the method")

    def raises(self, I, inp, exc):
        ctype, ckind, has_p = inp["case"]
        I.ctx.require((ckind == "none" and exc_is(I, exc, "NotImplementedError")) or (ctype == "value_percentile" and ckind.startswith("basic") and not has_p and exc_is(I, exc, "SigmaConversionError")),
                      f"NotImplementedError without templates, SigmaConversionError for value_percentile without percentile (got {exc_name(exc)})", kind="SAFE")

    def frame_ok(self, I, inp, obj, name):
        return False


@register
class ConditionFromTemplate(Contract):
    """condition part: a basic condition passes its field, its count and the backend's token for ITS operator; an extended condition
    passes the converted condition tree; both pass the referenced rules part"""
    id = "C10.TextQueryBackend.convert_correlation_condition_from_template"
    target = f"{CB}:TextQueryBackend.convert_correlation_condition_from_template"
    props = ("C10",)
    cases = tuple(("basic", op) for op in ("LT", "LTE", "GT", "GTE", "EQ", "NEQ")) + (("extended", None), ("none", None), ("nomap", None))

    def setup(self, E):
        def s_fmt(I, so, a, k):
            I.E._c10_fmt.append((a[0], dict(k)))
            return I.fresh("rendered", "str")
        E.summaries[f"{CB}:Backend._format_template"] = s_fmt
        E.summaries[f"{CB}:TextQueryBackend.convert_referenced_rules"] = lambda I, so, a, k: I.E._c10_parts.setdefault("rr", (list(a), I.fresh("rr", "str")))[1]
        E.summaries[f"{CB}:TextQueryBackend.convert_extended_correlation_condition"] = lambda I, so, a, k: I.E._c10_parts.setdefault("ext", (list(a), I.fresh("ext", "str")))[1]

    def args(self, I, case):
        kind, op = case
        idx = I.E.index
        I.E._c10_parts, I.E._c10_fmt = {}, []
        OP = idx.lookup(f"{CORR}:SigmaCorrelationConditionOperator")
        if kind == "extended":
            cond = SObj(idx.lookup(f"{CORR}:SigmaExtendedCorrelationCondition"), {"parsed": SObj("Tree", {})}, lazy=True)
        else:
            cond = SObj(idx.lookup(f"{CORR}:SigmaCorrelationCondition"), {"op": EnumVal(OP, op or "GT"), "count": I.fresh("count", "int"), "fieldref": I.fresh("field", "str")}, lazy=True)
        tokens = {EnumVal(OP, o): I.fresh(f"token_{o}", "str") for o in ("LT", "LTE", "GT", "GTE", "EQ", "NEQ")}
        t_m = I.fresh("template_m", "str")
        me = SObj(idx.lookup(f"{CB}:TextQueryBackend"), {"event_count_condition_expression": None if kind == "none" else {"m": t_m, "x": I.fresh("template_x", "str")},
                                                        "correlation_condition_mapping": None if kind == "nomap" else tokens}, lazy=True)
        rr = [SObj("Ref", {})]
        return {"self": me, "args": [cond, rr, "event_count", "m"], "cond": cond, "tokens": tokens, "t_m": t_m, "rr": rr, "case": case}

    def post(self, I, inp, r):
        c, cond = I.ctx, inp["cond"]
        kind, op = inp["case"]
        c.require(kind not in ("none", "nomap"), "missing templates / operator mapping are rejected")
        fm, parts = I.E._c10_fmt, I.E._c10_parts
        ok = len(fm) == 1 and fm[0][0] is inp["t_m"]
        c.require(ok, "the condition template of the chosen method is rendered once")
        if ok:
            k = fm[0][1]
            c.require("rr" in parts and k.get("referenced_rules") is parts["rr"][1] and parts["rr"][0][0] is inp["rr"] and parts["rr"][0][1] == "m", "referenced rules part from the references and the method")
            if kind == "basic":
                OP = cond.fields["op"]
                c.require(k.get("op") is inp["tokens"][OP], f"op == the backend's token for {op}")
                c.require(k.get("count") is cond.fields["count"] and k.get("field") is cond.fields["fieldref"], "count and field of the condition")
            else:
                c.require("ext" in parts and k.get("extended_condition") is parts["ext"][1] and parts["ext"][0][0] is cond.fields["parsed"] and parts["ext"][0][1] == "m",
                          "extended_condition == the converted parse tree of the condition (with the method)")

    def raises(self, I, inp, exc):
        I.ctx.require(exc_is(I, exc, "NotImplementedError") and inp["case"][0] in ("none", "nomap"), f"NotImplementedError exactly for missing templates / mapping (got {exc_name(exc)})", kind="SAFE")

    def frame_ok(self, I, inp, obj, name):
        return False


# ----------------------------------------------------------------------------------------------- extended (boolean) correlation conditions
import itertools
COPS = ("CorrelationConditionNOT", "CorrelationConditionAND", "CorrelationConditionOR")
PLAIN = {"CorrelationConditionNOT": "ConditionNOT", "CorrelationConditionAND": "ConditionAND", "CorrelationConditionOR": "ConditionOR"}
STRIP = lambda t: z3.Function("str.strip", z3.StringSort(), z3.StringSort())(t)
GROUP = lambda t: z3.Function("group", z3.StringSort(), z3.StringSort())(t)


@register
class ComparePrecedenceCorrelation(Contract):
    """compare_precedence on extended correlation conditions: a child may stay ungrouped only where that is safe under the target's
    precedence (correlation operators rank like their plain counterparts; a rule reference binds tightest)"""
    id = "C10.TextQueryBackend.compare_precedence[correlation]"
    target = f"{CB}:TextQueryBackend.compare_precedence"
    props = ("C10",)
    cases = tuple((perm, par, outer, inner) for perm in itertools.permutations(("ConditionNOT", "ConditionAND", "ConditionOR")) for par in (False, True) for outer in COPS for inner in COPS + ("Ref",))

    def args(self, I, case):
        perm, par, outer, inner = case
        idx = I.E.index
        me = SObj(idx.lookup(f"{CB}:TextQueryBackend"), {"parenthesize": par, "precedence": tuple(ClassRef(idx.lookup(f"sigma.conditions:{n}")) for n in perm)}, lazy=True)
        inn = mk_ref(I, 0) if inner == "Ref" else SObj(idx.lookup(f"{CORR}:{inner}"), {"args": []}, lazy=True)
        return {"self": me, "args": [SObj(idx.lookup(f"{CORR}:{outer}"), {"args": []}, lazy=True), inn], "case": case}

    def post(self, I, inp, r):
        perm, par, outer, inner = inp["case"]
        if inner == "Ref":
            return       # a reference is atomic: grouped or not, the meaning is the same
        safe = not par and perm.index(PLAIN[inner]) <= perm.index(PLAIN[outer])
        I.ctx.require((not ops.truth(I, r)) or safe, "ungrouped only if safe: not parenthesize and the child operator binds at least as tightly as the parent")

    def frame_ok(self, I, inp, obj, name):
        return False


class _ExtOp(Contract):
    props = ("C10",)
    clsname, tok = "", ""
    cases = tuple(itertools.product(("r", "i"), repeat=2)) + tuple(itertools.product(("r", "i"), repeat=3))
    assumed = ["children are abstract: a rule reference or an operator node with a symbolic compare_precedence decision; group() is opaque; str.strip uninterpreted"]

    def setup(self, E):
        E.summaries[f"{CB}:TextQueryBackend.compare_precedence"] = lambda I, so, a, k: a[1].ghost["ungrouped"]

        def conv(I, so, a, k):
            so.ghost.setdefault("order", []).append(("plain", a[0].ghost["i"]))
            return a[0].ghost["text"]
        E.summaries[f"{CB}:TextQueryBackend.convert_extended_correlation_condition"] = conv

        def grp(I, so, a, k):
            so.ghost.setdefault("order", []).append(("group", a[0].ghost["i"]))
            return Sym(GROUP(a[0].ghost["text"].t), "str")
        E.summaries[f"{CB}:TextQueryBackend.convert_extended_correlation_condition_group"] = grp

    def args(self, I, case):
        idx = I.E.index
        kids = []
        for i, kind in enumerate(case):
            ch = mk_ref(I, i) if kind == "r" else SObj(idx.lookup(f"{CORR}:CorrelationConditionOR"), {"args": []}, lazy=True)
            ch.ghost.update(i=i, ungrouped=I.fresh(f"ungrouped{i}", "bool"), text=I.fresh(f"text{i}", "str"), kind=kind)
            kids.append(ch)
        me = SObj(idx.lookup(f"{CB}:TextQueryBackend"), {"token_separator": I.fresh("sep", "str"), "and_token": I.fresh("and_token", "str"), "or_token": I.fresh("or_token", "str"), "not_token": I.fresh("not_token", "str")}, lazy=True)
        cond = SObj(idx.lookup(f"{CORR}:{self.clsname}"), {"args": kids}, lazy=True)
        return {"self": me, "args": [cond, "m"], "kids": kids, "case": case}

    def post(self, I, inp, r):
        c, me = I.ctx, inp["self"]
        sep, tok = me.fields["token_separator"].t, me.fields[self.tok].t
        order = me.ghost.get("order", [])
        c.require([i for _, i in order] == list(range(len(inp["kids"]))), "every operand is converted exactly once, in order")
        parts = []
        for (how, i), ch in zip(order, inp["kids"]):
            if ch.ghost["kind"] == "i":
                c.require(z3.BoolVal(how == "plain") == ch.ghost["ungrouped"].t, f"operator operand {i} is grouped iff compare_precedence does not allow leaving it ungrouped")
            t = ch.ghost["text"].t
            parts.append(z3.Concat(sep, t if how == "plain" else GROUP(t), sep))
        want = parts[0]
        for p in parts[1:]:
            want = z3.Concat(want, tok, p)
        c.require(ops.kind_of(r) == "str" and mk_str(r) == STRIP(want), "result == the operands, each between separators, joined by the operator token, stripped")

    def frame_ok(self, I, inp, obj, name):
        return False


@register
class ExtAnd(_ExtOp):
    id = "C10.TextQueryBackend.convert_extended_correlation_condition_and"
    target = f"{CB}:TextQueryBackend.convert_extended_correlation_condition_and"
    clsname, tok = "CorrelationConditionAND", "and_token"


@register
class ExtOr(_ExtOp):
    id = "C10.TextQueryBackend.convert_extended_correlation_condition_or"
    target = f"{CB}:TextQueryBackend.convert_extended_correlation_condition_or"
    clsname, tok = "CorrelationConditionOR", "or_token"


@register
class ExtNot(_ExtOp):
    """NOT: exactly one operand; an operator operand is always grouped, a rule reference never needs to be"""
    id = "C10.TextQueryBackend.convert_extended_correlation_condition_not"
    target = f"{CB}:TextQueryBackend.convert_extended_correlation_condition_not"
    clsname, tok = "CorrelationConditionNOT", "and_token"
    cases = (("r",), ("i",))

    def post(self, I, inp, r):
        c, me = I.ctx, inp["self"]
        order = me.ghost.get("order", [])
        ch = inp["kids"][0]
        c.require(len(order) == 1, "the operand is converted once")
        if len(order) == 1:
            how = order[0][0]
            if ch.ghost["kind"] == "i":
                c.require(how == "group", "an operator under NOT is grouped")
            t = ch.ghost["text"].t
            c.require(ops.kind_of(r) == "str" and mk_str(r) == z3.Concat(me.fields["not_token"].t, me.fields["token_separator"].t, t if how == "plain" else GROUP(t)), "not-token, separator, operand")


@register
class ExtDispatch(Contract):
    """convert_extended_correlation_condition dispatches on the node class: reference, AND, OR, NOT - each to its own converter"""
    id = "C10.TextQueryBackend.convert_extended_correlation_condition"
    target = f"{CB}:TextQueryBackend.convert_extended_correlation_condition"
    props = ("C10",)
    cases = ("Ref", "CorrelationConditionAND", "CorrelationConditionOR", "CorrelationConditionNOT", "other")

    def setup(self, E):
        for n in ("rule_reference", "and", "or", "not"):
            E.summaries[f"{CB}:TextQueryBackend.convert_extended_correlation_condition_{n}"] = (lambda n: lambda I, so, a, k: SObj("Out", {"by": n, "a": list(a)}))(n)

    def args(self, I, case):
        idx = I.E.index
        node = mk_ref(I, 0) if case == "Ref" else SObj("Strange", {}) if case == "other" else SObj(idx.lookup(f"{CORR}:{case}"), {"args": []}, lazy=True)
        return {"self": SObj(idx.lookup(f"{CB}:TextQueryBackend"), {}, lazy=True), "args": [node, "m"], "node": node, "case": case}

    def post(self, I, inp, r):
        want = {"Ref": "rule_reference", "CorrelationConditionAND": "and", "CorrelationConditionOR": "or", "CorrelationConditionNOT": "not"}.get(inp["case"])
        I.ctx.require(want is not None and isinstance(r, SObj) and r.cls == "Out" and r.fields["by"] == want and r.fields["a"][0] is inp["node"] and r.fields["a"][1] == "m",
                      f"a {inp['case']} node is converted by its own converter, with the method")

    def raises(self, I, inp, exc):
        I.ctx.require(exc_is(I, exc, "TypeError") and inp["case"] == "other", f"TypeError exactly for an unknown node (got {exc_name(exc)})", kind="SAFE")

    def frame_ok(self, I, inp, obj, name):
        return False


@register
class ExtRuleReference(Contract):
    """a rule reference in an extended condition is rendered with the referenced rule's name (or id); unresolved: the reference text"""
    id = "C10.TextQueryBackend.convert_extended_correlation_condition_rule_reference"
    target = f"{CB}:TextQueryBackend.convert_extended_correlation_condition_rule_reference"
    props = ("C10",)
    cases = ("named", "unnamed", "unresolved", "off", "other_method")

    def args(self, I, case):
        calls = []
        ref = mk_ref(I, 0, named=(case != "unnamed"))
        if case == "unresolved":
            del ref.fields["rule"]
        me = SObj(I.E.index.lookup(f"{CB}:TextQueryBackend"), {"extended_correlation_condition_rule_reference_expression": None if case == "off" else {"x": tmpl(I, calls, "wrong")} if case == "other_method" else
                                                              {"m": tmpl(I, calls, "ref"), "x": tmpl(I, calls, "wrong")}}, lazy=True)
        return {"self": me, "args": [ref, "m"], "calls": calls, "ref": ref, "case": case}

    def post(self, I, inp, r):
        c, calls, ref, case = I.ctx, inp["calls"], inp["ref"], inp["case"]
        c.require(case not in ("off", "other_method"), "without a template for the method the reference is rejected")
        ok = len(calls) == 1 and calls[0][0] == "ref" and r is calls[0][2]
        c.require(ok, "the template of the chosen method is rendered once and returned")
        if ok:
            want = ref.fields["reference"] if case == "unresolved" else ref.fields["rule"].fields["name"] if case == "named" else ref.fields["rule"].fields["id"]
            c.require(calls[0][1].get("ruleid") is want, "ruleid == the rule's name, else its id; the reference text while unresolved")

    def raises(self, I, inp, exc):
        I.ctx.require(exc_is(I, exc, "NotImplementedError") and inp["case"] in ("off", "other_method"), f"NotImplementedError exactly without a template for the method (got {exc_name(exc)})", kind="SAFE")

    def frame_ok(self, I, inp, obj, name):
        return False


@register
class FieldNormalization(Contract):
    """convert_correlation_search_field_normalization_expression: for THESE aliases and THIS rule reference - one rendering of the
    normalisation template per alias entry that names the reference (alias name, field of that entry), in alias order, joined; no aliases:
    nothing; templates missing: NotImplementedError. A call for another correlation rule's aliases on the same backend, for the same
    referenced rule, does not influence the result"""
    id = "C10.TextQueryBackend.convert_correlation_search_field_normalization_expression"
    target = f"{CB}:TextQueryBackend.convert_correlation_search_field_normalization_expression"
    props = ("C10", "C15")
    cases = tuple((n, tm, hist) for n in (0, 1, 2) for tm in (True, False) for hist in (False, True))

    def mk_aliases(self, I, n, tag):
        idx = I.E.index
        RR = idx.lookup("sigma.correlations:SigmaRuleReference")
        want = []
        als = []
        for i in range(n):
            fa, fb = I.fresh(f"{tag}field{i}_a", "str"), I.fresh(f"{tag}field{i}_b", "str")
            name = I.fresh(f"{tag}alias{i}", "str")
            als.append(SObj(idx.lookup("sigma.correlations:SigmaCorrelationFieldAlias"), {"alias": name, "mapping": {self.ref_a: fa, self.ref_b: fb}}, lazy=True))
            want.append((name, fa))
        aliases = SObj(idx.lookup("sigma.correlations:SigmaCorrelationFieldAliases"), {"aliases": {f"k{i}": a for i, a in enumerate(als)}}, lazy=True)
        aliases.fields["__len__"] = NativeFn("__len__", lambda I2, a, k: n)
        aliases.fields["__iter__"] = NativeFn("__iter__", lambda I2, a, k: list(als))
        return aliases, want

    def args(self, I, case):
        n, tm, hist = case
        idx = I.E.index
        RR = idx.lookup("sigma.correlations:SigmaRuleReference")
        self.ref_a = SObj(RR, {"reference": "rule_a"}, lazy=True)
        self.ref_b = SObj(RR, {"reference": "rule_b"}, lazy=True)
        calls = []

        def fmt(I2, a, k):
            out = I2.fresh("normalisation", "str")
            calls.append((dict(k), out))
            return out
        aliases, want = self.mk_aliases(I, n, "")
        me = SObj(idx.lookup(f"{CB}:TextQueryBackend"), {"correlation_search_field_normalization_expression": SObj("Template", {"format": NativeFn("format", fmt)}) if tm else None,
                                                       "correlation_search_field_normalization_expression_joiner": I.fresh("joiner", "str")}, lazy=True)
        return {"self": me, "args": [aliases, self.ref_a], "calls": calls, "want": want, "case": case}

    def before(self, I, inp):
        n, tm, hist = inp["case"]
        if hist and tm:
            other, _ = self.mk_aliases(I, 1, "earlier_")
            I.call_function(I.E.index.lookup(self.target), inp["self"], [other, self.ref_a], {})
            del inp["calls"][:]

    def post(self, I, inp, r):
        n, tm, hist = inp["case"]
        c = I.ctx
        if n == 0:
            c.require(ops.py_eq(I, r, "") is True or r == "", "no aliases: nothing")
            return
        c.require(tm, "without templates the normalisation cannot be rendered")
        calls = inp["calls"]
        c.require(len(calls) == n and all(set(k) == {"alias", "field"} and k["alias"] is w[0] and k["field"] is w[1] for (k, _), w in zip(calls, inp["want"])),
                  "the template is rendered once per alias, with the alias name and the field THESE aliases give for THIS reference, in order")
        if len(calls) == n:
            j = inp["self"].fields["correlation_search_field_normalization_expression_joiner"].t
            parts = []
            for i, (_, out) in enumerate(calls):
                if i:
                    parts.append(j)
                parts.append(out.t)
            c.require(isinstance(r, Sym) and r.kind == "str" and r.t == (z3.Concat(*parts) if len(parts) > 1 else parts[0]), "the renderings joined by the joiner")

    def raises(self, I, inp, exc):
        n, tm, hist = inp["case"]
        I.ctx.require(n > 0 and not tm and exc_is(I, exc, "NotImplementedError"), f"NotImplementedError exactly when aliases exist and a template is missing (got {exc_name(exc)})", kind="SAFE")

    def frame_ok(self, I, inp, obj, name):
        return False


# ----------------------------------------------------------------------------------------------- extended conditions: tree building, references
COR = "sigma.correlations"


@register
class CorrelationItemFromParsed(Contract):
    """CorrelationConditionItem.from_parsed: NOT keeps exactly the operand that follows the operator; AND / OR keep EVERY operand of the
    flat token list (the tokens at even positions), in order"""
    id = "C10.CorrelationConditionItem.from_parsed"
    target = f"{COR}:CorrelationConditionItem.from_parsed"
    props = ("C10",)
    cases = tuple((cls, n) for cls in ("CorrelationConditionAND", "CorrelationConditionOR") for n in (2, 3, 4)) + (("CorrelationConditionNOT", 1),)
    assumed = ["the token list is a plain list (the ParseResults wrapping of pyparsing is external: its [0] is that list)"]

    def setup(self, E):
        E.external_isinstance["pyparsing.ParseResults"] = lambda I, v: isinstance(v, SObj) and v.cls == "ParseResults"
        E.external_isinstance["pyparsing.results.ParseResults"] = lambda I, v: isinstance(v, SObj) and v.cls == "ParseResults"

    def args(self, I, case):
        cls, n = case
        ops_ = [SObj("Operand", {"n": i}) for i in range(n)]
        if cls.endswith("NOT"):
            toks = ["not", ops_[0]]
        else:
            toks = []
            for i, o in enumerate(ops_):
                if i:
                    toks.append("and" if cls.endswith("AND") else "or")
                toks.append(o)
        return {"self": ClassRef(I.E.index.lookup(f"{COR}:{cls}")), "args": ["text", 0, toks], "ops": ops_, "case": case}

    def post(self, I, inp, r):
        cls, n = inp["case"]
        r = I.force(r) if not isinstance(r, list) else r
        ok = isinstance(r, list) and len(r) == 1 and isinstance(r[0], SObj) and getattr(r[0].cls, "name", None) == cls
        I.ctx.require(ok, f"one {cls} node")
        if ok:
            a = r[0].fields.get("args")
            a = I.force(a) if not isinstance(a, list) else a
            I.ctx.require(isinstance(a, list) and len(a) == n and all(x is y for x, y in zip(a, inp["ops"])), "its arguments are the operands, each once, in order (operator tokens skipped)")

    def frame_ok(self, I, inp, obj, name):
        return False


@register
class ExtendedReferencedRules(Contract):
    """SigmaExtendedCorrelationCondition.get_referenced_rules: every rule identifier of the tree, once, in the order of first appearance"""
    id = "C10.SigmaExtendedCorrelationCondition.get_referenced_rules"
    target = f"{COR}:SigmaExtendedCorrelationCondition.get_referenced_rules"
    props = ("C10", "C09")
    cases = ("single", "and", "nested", "repeated")

    def args(self, I, case):
        idx = I.E.index
        ref = lambda n: SObj(idx.lookup(f"{COR}:SigmaRuleReference"), {"reference": n}, lazy=True)
        node = lambda c, *a: SObj(idx.lookup(f"{COR}:CorrelationCondition{c}"), {"args": list(a)}, lazy=True)
        tree, want = {"single": (ref("a"), ["a"]), "and": (node("AND", ref("b"), ref("a")), ["b", "a"]),
                      "nested": (node("OR", node("NOT", ref("c")), node("AND", ref("a"), node("NOT", node("OR", ref("d"), ref("b"))))), ["c", "a", "d", "b"]),
                      "repeated": (node("AND", ref("a"), node("OR", ref("b"), ref("a")), ref("b"), ref("c")), ["a", "b", "c"])}[case]
        me = SObj(idx.lookup(f"{COR}:SigmaExtendedCorrelationCondition"), {"_parsed": tree}, lazy=True)
        return {"self": me, "args": [], "want": want}

    def post(self, I, inp, r):
        r = I.force(r) if not isinstance(r, list) else r
        I.ctx.require(r == inp["want"], f"identifiers once each, in order of first appearance: {inp['want']}")

    def frame_ok(self, I, inp, obj, name):
        return False


@register
class RuleReferenceResolve(Contract):
    """SigmaRuleReference.resolve: the rule the collection finds under the reference AS WRITTEN; aliases resolve every reference of their mapping"""
    id = "C09.SigmaRuleReference.resolve"
    target = f"{COR}:SigmaRuleReference.resolve"
    props = ("C09", "C10", "C15")
    cases = ("fresh", "resolved-before")

    def args(self, I, case):
        asked = []
        found = SObj("Rule", {})
        ref = I.fresh("reference", "str")
        col = SObj("Collection", {"__getitem__": NativeFn("__getitem__", lambda I2, a, k: (asked.append(a[0]), found)[1])})
        f = {"reference": ref}
        if case == "resolved-before":        # the reference object was resolved in ANOTHER collection earlier: this collection decides now
            f["rule"] = SObj("RuleOfAnotherCollection", {})
        me = SObj(I.E.index.lookup(f"{COR}:SigmaRuleReference"), f)
        return {"self": me, "args": [col], "asked": asked, "found": found, "ref": ref}

    def post(self, I, inp, r):
        I.ctx.require(inp["self"].fields.get("rule") is inp["found"] and len(inp["asked"]) == 1 and inp["asked"][0] is inp["ref"], "rule = collection[reference]")

    def frame_ok(self, I, inp, obj, name):
        return obj is inp["self"] and name == "rule"


@register
class FieldAliasResolve(Contract):
    id = "C09.SigmaCorrelationFieldAlias.resolve_rule_references"
    target = f"{COR}:SigmaCorrelationFieldAlias.resolve_rule_references"
    props = ("C09", "C10")
    cases = (0, 1, 3)
    __doc__ = "SigmaCorrelationFieldAlias.resolve_rule_references: every reference of the mapping is resolved against the given collection, each once"

    def args(self, I, case):
        seen = []
        col = SObj("Collection", {})
        refs = [SObj("Ref", {"i": i, "resolve": NativeFn("resolve", (lambda i: lambda I2, a, k: seen.append((i, a[0])))(i))}) for i in range(case)]
        me = SObj(I.E.index.lookup(f"{COR}:SigmaCorrelationFieldAlias"), {"alias": "x", "mapping": {r: f"field{i}" for i, r in enumerate(refs)}}, lazy=True)
        return {"self": me, "args": [col], "seen": seen, "col": col, "n": case}

    def post(self, I, inp, r):
        I.ctx.require([i for i, _ in inp["seen"]] == list(range(inp["n"])) and all(c is inp["col"] for _, c in inp["seen"]), "each reference resolved once against this collection")

    def frame_ok(self, I, inp, obj, name):
        return False
