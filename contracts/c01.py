"""C01 - converted query is logically equivalent to the Sigma rule: the rendering functions of TextQueryBackend.

safe(outer, inner, K): a child may be left ungrouped only if the backend does not parenthesize operator nodes and the child's effective
class (OR for a leaf holding an expansion) binds at least as tightly as the parent under K.precedence."""
from __future__ import annotations
import itertools, z3
from pyvc.api import *
from pyvc.values import *
from pyvc import ops

CB = "sigma.conversion.base"
COND = "sigma.conditions"
OPS3 = ("ConditionNOT", "ConditionAND", "ConditionOR")


def cls(I, name):
    return I.E.index.lookup(f"{COND}:{name}")


def mk_inner(I, kind):
    idx = I.E.index
    Exp = idx.lookup("sigma.types:SigmaExpansion")
    Str = idx.lookup("sigma.types:SigmaString")
    if kind in OPS3:
        return SObj(cls(I, kind), {"args": []}, lazy=True)
    if kind.startswith("FieldEq"):
        return SObj(cls(I, "ConditionFieldEqualsValueExpression"), {"field": "f", "value": SObj(Exp if kind.endswith("Expansion") else Str, {}, lazy=True)}, lazy=True)
    if kind.startswith("Value"):
        return SObj(cls(I, "ConditionValueExpression"), {"value": SObj(Exp if kind.endswith("Expansion") else Str, {}, lazy=True)}, lazy=True)
    return None


INNER = OPS3 + ("FieldEq", "FieldEqExpansion", "Value", "ValueExpansion", "None")


@register
class ComparePrecedence(Contract):
    """True (no grouping) only where that is safe under the target's precedence: for all six precedence orders, both parenthesize settings,
    every outer operator and every kind of inner node"""
    id = "C01.TextQueryBackend.compare_precedence"
    target = f"{CB}:TextQueryBackend.compare_precedence"
    props = ("C01",)
    cases = tuple((perm, par, outer, inner) for perm in itertools.permutations(OPS3) for par in (False, True) for outer in OPS3 for inner in INNER)

    def args(self, I, case):
        perm, par, outer, inner = case
        me = SObj(I.E.index.lookup(f"{CB}:TextQueryBackend"), {"parenthesize": par, "precedence": tuple(ClassRef(cls(I, n)) for n in perm)}, lazy=True)
        return {"self": me, "args": [SObj(cls(I, outer), {"args": []}, lazy=True), mk_inner(I, inner)], "case": case}

    def post(self, I, inp, r):
        perm, par, outer, inner = inp["case"]
        idx = lambda n: perm.index(n) if n in perm else -1
        eff = "ConditionOR" if inner.endswith("Expansion") else inner
        is_op = inner in OPS3
        safe = not (par and is_op) and idx(eff) <= idx(outer)
        I.ctx.require((not ops.truth(I, r)) or safe, "ungrouped only if safe: not (parenthesize and operator node) and the child binds at least as tightly as the parent (an expansion counts as OR)")

    def frame_ok(self, I, inp, obj, name):
        return False


class _BinOp(Contract):
    props = ("C01",)
    clsname, tok, empty = None, None, None
    cases = tuple(itertools.product(("q", "n", "d"), repeat=2)) + tuple(itertools.product(("q", "n"), repeat=3)) + ((),)
    assumed = ["children are abstract: convert_condition returns a query text, None (no condition) or a deferred expression; compare_precedence (own contract) is a symbolic decision per child",
               "group_expression is opaque: grouping is recorded as group(text)", "0..3 children (unrolled)"]

    def setup(self, E):
        E.summaries[f"{CB}:TextQueryBackend.compare_precedence"] = lambda I, so, a, k: a[1].ghost["ungrouped"]
        D = E.index.lookup("sigma.conversion.deferred:DeferredQueryExpression")

        def conv(I, so, a, k):
            ch = a[0]
            so.ghost.setdefault("order", []).append(("plain", ch.ghost["i"]))
            return ch.ghost["result"]
        E.summaries[f"{CB}:TextQueryBackend.convert_condition"] = conv

        def grp(I, so, a, k):
            ch = a[0]
            so.ghost.setdefault("order", []).append(("group", ch.ghost["i"]))
            r = ch.ghost["result"]
            if r is None or isinstance(r, SObj):
                return r
            return Sym(z3.Function("group", z3.StringSort(), z3.StringSort())(r.t), "str")
        E.summaries[f"{CB}:TextQueryBackend.convert_condition_group"] = grp

    def args(self, I, case):
        idx = I.E.index
        D = idx.lookup("sigma.conversion.deferred:DeferredQueryExpression")
        kids = []
        for i, kind in enumerate(case):
            ch = SObj("Child", {})
            ch.ghost.update(i=i, ungrouped=I.fresh(f"ungrouped{i}", "bool"), result={"q": I.fresh(f"q{i}", "str"), "n": None, "d": SObj(D, {}, lazy=True)}[kind] if kind != "q" else I.fresh(f"q{i}", "str"))
            kids.append(ch)
        me = SObj(idx.lookup(f"{CB}:TextQueryBackend"), {"token_separator": I.fresh("sep", "str"), self.tok: I.fresh(self.tok, "str"), self.empty: I.fresh("empty", "opaque", "Empty")}, lazy=True)
        cond = SObj(cls(I, self.clsname), {"args": kids}, lazy=True)
        return {"self": me, "args": [cond, I.fresh("state", "opaque", "State")], "kids": kids, "case": case}

    def post(self, I, inp, r):
        c, me = I.ctx, inp["self"]
        sep, tok = me.fields["token_separator"].t, me.fields[self.tok].t
        joiner = z3.If(sep == tok, tok, z3.Concat(sep, tok, sep))
        order = me.ghost.get("order", [])
        c.require([i for _, i in order] == list(range(len(inp["kids"]))), "every child is converted exactly once, in order")
        parts = []
        for (how, i), ch in zip(order, inp["kids"]):
            c.require(z3.BoolVal(how == "plain") == ch.ghost["ungrouped"].t, f"child {i} is grouped iff compare_precedence does not allow leaving it ungrouped")
            res = ch.ghost["result"]
            if isinstance(res, Sym):
                parts.append(res.t if how == "plain" else z3.Function("group", z3.StringSort(), z3.StringSort())(res.t))
        if not parts:
            c.require(r is me.fields[self.empty], "no child left: the backend's empty expression")
        else:
            want = parts[0]
            for p in parts[1:]:
                want = z3.Concat(want, joiner, p)
            c.require(ops.kind_of(r) == "str" and mk_str(r) == want, "result == the remaining children joined by the operator token (children that are None or deferred vanish)")

    def frame_ok(self, I, inp, obj, name):
        return False


@register
class ConvertOr(_BinOp):
    id = "C01.TextQueryBackend.convert_condition_or"
    target = f"{CB}:TextQueryBackend.convert_condition_or"
    clsname, tok, empty = "ConditionOR", "or_token", "empty_or_expression"


@register
class ConvertAnd(_BinOp):
    id = "C01.TextQueryBackend.convert_condition_and"
    target = f"{CB}:TextQueryBackend.convert_condition_and"
    clsname, tok, empty = "ConditionAND", "and_token", "empty_and_expression"


@register
class ConvertNot(Contract):
    """NOT x (convert_not_as_not_eq off): x grouped iff it is an operator node of the precedence table; None vanishes; a deferred expression is negated"""
    id = "C01.TextQueryBackend.convert_condition_not"
    target = f"{CB}:TextQueryBackend.convert_condition_not"
    props = ("C01",)
    cases = tuple((inner, res) for inner in ("ConditionAND", "ConditionOR", "ConditionNOT", "FieldEq", "FieldEqExpansion", "ValueExpansion", "None") for res in ("q", "n", "d"))
    assumed = ["convert_not_as_not_eq == False (the not-equals mode reads the parent chain: bounded stand-in)", "children abstract"]

    def setup(self, E):
        E.summaries[f"{CB}:TextQueryBackend.convert_condition"] = lambda I, so, a, k: (so.ghost.__setitem__("how", "plain"), a[0].ghost["result"])[1]

        def grp(I, so, a, k):
            so.ghost["how"] = "group"
            r = a[0].ghost["result"]
            return r if not isinstance(r, Sym) else Sym(z3.Function("group", z3.StringSort(), z3.StringSort())(r.t), "str")
        E.summaries[f"{CB}:TextQueryBackend.convert_condition_group"] = grp

    def args(self, I, case):
        inner, res = case
        idx = I.E.index
        D = idx.lookup("sigma.conversion.deferred:DeferredQueryExpression")
        arg = mk_inner(I, inner)
        neg = SObj(D, {}, lazy=True)
        if arg is not None:
            arg.ghost["result"] = {"q": I.fresh("q", "str"), "n": None, "d": SObj(D, {"negate": NativeFn("negate", lambda I2, a, k: neg)}, lazy=True)}[res]
        me = SObj(idx.lookup(f"{CB}:TextQueryBackend"), {"token_separator": I.fresh("sep", "str"), "not_token": I.fresh("not", "str"), "convert_not_as_not_eq": False,
                                                        "precedence": tuple(ClassRef(cls(I, n)) for n in OPS3)}, lazy=True)
        cond = SObj(cls(I, "ConditionNOT"), {"args": [arg]}, lazy=True)
        return {"self": me, "args": [cond, I.fresh("state", "opaque", "State")], "arg": arg, "case": case, "neg": neg}

    def post(self, I, inp, r):
        inner, res = inp["case"]
        c, me, arg = I.ctx, inp["self"], inp["arg"]
        if arg is None:
            c.require(r is None, "NOT of no condition is no condition")
            return
        is_op = inner in OPS3 or inner.endswith("Expansion")
        c.require(me.ghost.get("how") == ("group" if is_op else "plain"), "the operand is grouped iff it is an AND / OR / NOT node or a leaf holding an expansion (which renders as an OR)")
        q = arg.ghost["result"]
        if res == "n":
            c.require(r is None if is_op else True, "an operand that vanished makes the NOT vanish")
        elif res == "d":
            c.require((r is q) if is_op else (r is inp["neg"]), "a deferred operand is passed on (negated)")
        else:
            body = z3.Function("group", z3.StringSort(), z3.StringSort())(q.t) if is_op else q.t
            c.require(ops.kind_of(r) == "str" and mk_str(r) == z3.Concat(me.fields["not_token"].t, me.fields["token_separator"].t, body), "result == not-token, separator, (grouped) operand")

    def raises(self, I, inp, exc):
        inner, res = inp["case"]
        I.ctx.require(res == "n" and inner not in OPS3 and not inner.endswith("Expansion") and exc_is(I, exc, "NotImplementedError"), f"no exception (got {exc_name(exc)})", kind="SAFE")

    def frame_ok(self, I, inp, obj, name):
        return False


@register
class DecideInExpression(Contract):
    """an OR / AND is folded into `field in (list)` only if enabled for that operator, every argument is a comparison on ONE field with a plain
    string or number, and - unless the backend allows wildcards in lists - NO argument contains a wildcard"""
    id = "C01.Backend.decide_convert_condition_as_in_expression"
    target = f"{CB}:Backend.decide_convert_condition_as_in_expression"
    props = ("C01", "C05", "C18")
    cases = tuple((op, n, mixed) for op in ("ConditionOR", "ConditionAND") for n in (1, 2, 3) for mixed in ("same", "other_field", "non_fieldeq", "non_string", "cased", "number"))
    assumed = ["1..3 arguments (unrolled); wildcard presence of each string value symbolic"]

    def args(self, I, case):
        op, n, mixed = case
        idx = I.E.index
        Str, Num, Bool = idx.lookup("sigma.types:SigmaString"), idx.lookup("sigma.types:SigmaNumber"), idx.lookup("sigma.types:SigmaBool")
        argsl, wild = [], []
        for i in range(n):
            w = I.fresh(f"wild{i}", "bool")
            wild.append(w)
            val = SObj(Str, {"contains_special": NativeFn("contains_special", lambda I2, a, k, w=w: w)}, lazy=True)
            fld = "f"
            if i == n - 1:
                if mixed == "other_field":
                    fld = "g"
                elif mixed == "non_string":
                    val = SObj(Bool, {}, lazy=True)
                elif mixed == "number":      # a number next to strings: still a plain value - and the strings' wildcards still count
                    val = SObj(Num, {}, lazy=True)
                elif mixed == "cased":       # a case-sensitive string does not have the (case-insensitive) match kind of the in-list
                    val = SObj(idx.lookup("sigma.types:SigmaCasedString"), {"contains_special": NativeFn("contains_special", lambda I2, a, k, w=w: w)}, lazy=True)
            a = SObj(cls(I, "ConditionFieldEqualsValueExpression"), {"field": fld, "value": val}, lazy=True)
            if i == n - 1 and mixed == "non_fieldeq":
                a = SObj(cls(I, "ConditionValueExpression"), {"value": val}, lazy=True)
            argsl.append(a)
        me = SObj(idx.lookup(f"{CB}:Backend"), {"convert_or_as_in": I.fresh("or_as_in", "bool"), "convert_and_as_in": I.fresh("and_as_in", "bool"), "in_expressions_allow_wildcards": I.fresh("allow_wild", "bool")}, lazy=True)
        return {"self": me, "args": [SObj(cls(I, op), {"args": argsl}, lazy=True), None], "wild": wild, "case": case}

    def post(self, I, inp, r):
        op, n, mixed = inp["case"]
        me = inp["self"]
        enabled = me.fields["convert_or_as_in"].t if op == "ConditionOR" else me.fields["convert_and_as_in"].t
        uniform = mixed in ("same", "number") or (n == 1 and mixed == "other_field")
        strs = inp["wild"] if mixed not in ("non_string", "number") else inp["wild"][:-1]
        no_wild = z3.Or(me.fields["in_expressions_allow_wildcards"].t, z3.Not(ops.mk_or([w.t for w in strs])))
        spec = z3.And(enabled, z3.BoolVal(uniform), no_wild)
        I.ctx.require(ops.mk_bool_term(ops.truth(I, r)) == spec, "in-list iff enabled, uniform single-field plain values, and (wildcards allowed or no value has one)")

    def frame_ok(self, I, inp, obj, name):
        return False


@register
class ConvertConditionDispatch(Contract):
    id = "C01.Backend.convert_condition"
    target = f"{CB}:Backend.convert_condition"
    props = ("C01",)
    cases = tuple((k, inl) for k in ("ConditionOR", "ConditionAND", "ConditionNOT", "FieldEq", "Value", "None") for inl in (True, False))

    def setup(self, E):
        for m in ("convert_condition_or", "convert_condition_and", "convert_condition_not", "convert_condition_field_eq_val", "convert_condition_val", "convert_condition_as_in_expression"):
            E.summaries[f"{CB}:Backend.{m}"] = (lambda m: lambda I, so, a, k: SObj("Out", {"by": m, "cond": a[0]}))(m)
        E.summaries[f"{CB}:Backend.decide_convert_condition_as_in_expression"] = lambda I, so, a, k: so.ghost["inl"]

    def args(self, I, case):
        kind, inl = case
        me = SObj(I.E.index.lookup(f"{CB}:Backend"), {}, lazy=True)
        me.ghost["inl"] = inl
        cond = mk_inner(I, kind)
        return {"self": me, "args": [cond, I.fresh("state", "opaque", "State")], "cond": cond, "case": case}

    def post(self, I, inp, r):
        kind, inl = inp["case"]
        want = {"ConditionOR": "convert_condition_as_in_expression" if inl else "convert_condition_or", "ConditionAND": "convert_condition_as_in_expression" if inl else "convert_condition_and",
                "ConditionNOT": "convert_condition_not", "FieldEq": "convert_condition_field_eq_val", "Value": "convert_condition_val"}.get(kind)
        if kind == "None":
            I.ctx.require(r is None, "no condition converts to nothing")
        else:
            I.ctx.require(isinstance(r, SObj) and r.fields.get("by") == want and r.fields.get("cond") is inp["cond"], f"a {kind} node is converted by {want}")

    def frame_ok(self, I, inp, obj, name):
        return False


DETM = "sigma.rule.detection"


@register
class DetectionItemPostprocess(Contract):
    """SigmaDetectionItem.postprocess: no value -> field is null; one value -> one comparison; several -> the item's linking (OR / AND) over
    one comparison per value, in order; a negated item (neq) is the NOT of that - and the NOT is a real node of the tree: it is the parent
    of what it negates and hangs under the item's parent (backends decide on negated templates by walking the parent chain)"""
    id = "C01.SigmaDetectionItem.postprocess"
    target = f"{DETM}:SigmaDetectionItem.postprocess"
    props = ("C01", "C02", "C03", "C04")
    cases = tuple((nv, fld, neg, link) for nv in (0, 1, 2, 3) for fld in (True, False) for neg in (False, True) for link in ("ConditionOR", "ConditionAND") if not (nv < 1 and link == "ConditionAND"))
    assumed = ["values are abstract objects; the single value of an AND-linked item (|all) is an EXPANSION (base64offset / windash alternatives): it stays one value - its alternatives are alternatives, not the item's value list"]

    def args(self, I, case):
        nv, fld, neg, link = case
        idx = I.E.index
        vals = [SObj("Value", {}, ghost={"i": i}) for i in range(nv)]
        if nv == 1 and link == "ConditionAND":
            vals = [SObj(idx.lookup("sigma.types:SigmaExpansion"), {"values": [SObj("Value", {}), SObj("Value", {}), SObj("Value", {})]}, lazy=True)]
        field = I.fresh("field", "str") if fld else None
        me = SObj(idx.lookup(f"{DETM}:SigmaDetectionItem"), {"field": field, "value": vals, "negated": neg, "value_linking": ClassRef(idx.lookup(f"sigma.conditions:{link}")), "source": None, "parent": None}, lazy=True)
        parent = SObj("ParentDetection", {})
        return {"self": me, "args": [I.fresh("detections", "opaque", "Detections"), parent], "vals": vals, "field": field, "parent": parent, "case": case}

    def post(self, I, inp, r):
        nv, fld, neg, link = inp["case"]
        c, me = I.ctx, inp["self"]
        c.require(not (nv == 0 and not fld), "a null value without field is rejected")
        node = r
        if neg:
            ok = isinstance(r, SObj) and getattr(r.cls, "name", "") == "ConditionNOT" and isinstance(r.fields.get("args"), list) and len(r.fields["args"]) == 1
            c.require(ok, "a negated item yields NOT(one operand)")
            if not ok:
                return
            node = r.fields["args"][0]
            c.require(r.fields.get("parent") is inp["parent"], "the NOT hangs under the item's parent")
            c.require(isinstance(node, SObj) and node.fields.get("parent") is r, "the negated condition's parent is the NOT (the NOT is in the parent chain of everything it negates)")

        def leaf(x, v):
            name = getattr(x.cls, "name", "") if isinstance(x, SObj) else ""
            if fld:
                return name == "ConditionFieldEqualsValueExpression" and x.fields.get("field") is inp["field"] and (x.fields.get("value") is v if v is not None else getattr(getattr(x.fields.get("value"), "cls", None), "name", "") == "SigmaNull")
            return name == "ConditionValueExpression" and x.fields.get("value") is v
        if nv <= 1:
            c.require(leaf(node, inp["vals"][0] if nv else None), "one comparison of the field with the value (null without value; value-only for keywords)")
            if not neg and isinstance(node, SObj):
                c.require(node.fields.get("parent") is me, "a single comparison hangs under the detection item")
        else:
            ok = isinstance(node, SObj) and getattr(node.cls, "name", "") == link and isinstance(node.fields.get("args"), list) and len(node.fields["args"]) == nv
            c.require(ok, f"{link} over one comparison per value")
            if ok:
                c.require(all(leaf(x, v) for x, v in zip(node.fields["args"], inp["vals"])), "comparisons in value order")
                c.require(all(isinstance(x, SObj) and x.fields.get("parent") is node for x in node.fields["args"]), "every comparison's parent is the linking node")
                if not neg:
                    c.require(node.fields.get("parent") is inp["parent"], "the linking node hangs under the item's parent")

    def raises(self, I, inp, exc):
        nv, fld, neg, link = inp["case"]
        I.ctx.require(exc_is(I, exc, "SigmaConditionError") and nv == 0 and not fld, f"SigmaConditionError exactly for a null value without field (got {exc_name(exc)})", kind="SAFE")

    def frame_ok(self, I, inp, obj, name):
        return obj is inp["self"] and name in ("parent", "source")
