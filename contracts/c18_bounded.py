"""C18 bounded stand-in: real SigmaCIDRExpression.expand and backend conversion against the ipaddress module."""
from __future__ import annotations
import ipaddress, random, fnmatch
from pyvc.api import *


def v4_pattern_range(pat):
    """integer range [lo, hi] of dotted quads matched by 'o1.….og.*' / '*' / a full address; None if malformed"""
    if pat == "*":
        return (0, 2 ** 32 - 1)
    parts = pat.split(".")
    if parts[-1] == "*":
        fixed = parts[:-1]
        if not 1 <= len(fixed) <= 3 or not all(x.isdigit() and 0 <= int(x) <= 255 and str(int(x)) == x for x in fixed):
            return None
        lo = 0
        for x in fixed:
            lo = lo * 256 + int(x)
        sh = 8 * (4 - len(fixed))
        return (lo << sh, (lo << sh) + (1 << sh) - 1)
    try:
        a = int(ipaddress.IPv4Address(pat))
    except ValueError:
        return None
    return (a, a)


@register
class C18Bounded(Bounded):
    id = "C18.bounded.cidr"
    props = ("C18",)

    def run(self, tier, seed):
        from sigma.types import SigmaCIDRExpression
        from sigma.exceptions import SigmaTypeError, SigmaError
        from sigma.backends.test import TextQueryTestBackend
        from sigma.collection import SigmaCollection
        rnd = random.Random(seed)
        ev = nontriv = 0
        fails, samples = [], []
        seen = {}

        def fail(kind, text, inp):
            seen[kind] = seen.get(kind, 0) + 1
            if seen[kind] == 1:
                fails.append({"text": text, "input": inp})
        bases = [0, 0x0A000000, 0xC0A80100, 0xFFFFFFFF, 0x7F000001, 0x0A0B0C0D] + [rnd.randrange(2 ** 32) for _ in range(4 if tier == "quick" else 40)]
        for p in range(33):
            for b in bases:
                a = b & ~((1 << (32 - p)) - 1) & 0xFFFFFFFF
                net = ipaddress.IPv4Network((a, p))
                ev += 1
                nontriv += 1
                pats = SigmaCIDRExpression(str(net)).expand()
                for w in ("%", ".*"):          # another wildcard token: the same patterns with that token in place of the asterisk
                    alt = SigmaCIDRExpression(str(net)).expand(w)
                    if alt != [x[:-1] + w if x.endswith("*") else x for x in pats]:
                        fail("v4-wildcard", f"IPv4 {net}: expand({w!r}) gives {alt[:4]}, expand() gives {pats[:4]} - not the same patterns with the other wildcard token", [str(net), w])
                rngs = [v4_pattern_range(x) for x in pats]
                if any(r is None for r in rngs):
                    fail("v4-malformed", f"{net}: malformed pattern in {pats}", str(net))
                    continue
                rngs.sort()
                ok = rngs[0][0] == a and rngs[-1][1] == a + (1 << (32 - p)) - 1 and all(x[1] + 1 == y[0] for x, y in zip(rngs, rngs[1:]))
                if not ok:
                    fail("v4-sets", f"IPv4 {net}: patterns {pats[:6]}{'...' if len(pats) > 6 else ''} match {rngs[:3]}.. which is not exactly [{a}, {a + (1 << (32 - p)) - 1}] without overlap", str(net))
                if len(samples) < 3 and p in (9, 23, 30) and b == 0xC0A80100:
                    samples.append({"network": str(net), "patterns": pats[:4]})
        import json, os
        kf = os.path.join(VERIF, "known", "c18_ipv6_failing_networks.json")
        KNOWN_V6 = set(json.load(open(kf))) if os.path.exists(kf) else set()
        v6_failing = []
        # IPv6: every address of the network, in canonical compressed form, is matched by some pattern
        groups = ["2001:db8::", "::", "::1", "fe80::1:2:3:4", "2001:db8:0:1::", "1:0:0:2:0:0:0:3", "ffff:ffff:ffff:ffff:ffff:ffff:ffff:ffff", "0:0:0:1::", "a:b:c:d:e:f:0:0", "1::2:0:0:3"]
        for p in range(129):
            for g in groups:
                a = int(ipaddress.IPv6Address(g)) & ~((1 << (128 - p)) - 1)
                net = ipaddress.IPv6Network((a, p))
                ev += 1
                nontriv += 1
                pats = SigmaCIDRExpression(str(net)).expand()
                size = 1 << (128 - p)
                cands = {a, a + size - 1, a + size // 2, a + min(size - 1, 1), a + min(size - 1, 0xFFFF), a + min(size - 1, 0x10000)}
                for x in sorted(cands):
                    s = str(ipaddress.IPv6Address(x))
                    if not any(fnmatch.fnmatchcase(s, pt.replace("[", "[[]")) for pt in pats):
                        known = str(net) in KNOWN_V6
                        v6_failing.append(str(net))
                        fail("v6-known" if known else "v6-new", ("KNOWN-D18 " if known else "") + f"IPv6 {net}: address {s} of the network is matched by none of {pats[:4]}", str(net))
                        break
        # native expression: normalised values of the parsed network; invalid strings rejected
        class B(TextQueryTestBackend):
            cidr_expression = "{field}|{value}|{network}|{prefixlen}|{netmask}"
        for spelling in ["10.0.0.0/255.0.0.0", "172.16.5.4", "192.168.1.0/24", "2001:DB8::/32", "2001:0db8:0000::/48", "10.0.0.0/0.255.255.255", "2001:db8::", "fe80::", "::", "::1", "fe80::1:2:3:4",
                         "64:ff9b::10.0.0.0/104", "::ffff:10.0.0.0/104", "2001:db8::192.0.2.0/120", "::10.1.2.3", "::ffff:1.2.3.4/128", "1:2:3:4:5:6:7.8.9.0/120", "192.168.1.7/32", "0.0.0.0/0", "::/0"]:
            ev += 1
            nontriv += 1
            n = ipaddress.ip_network(spelling)
            rule = f"title: t\nlogsource:\n  category: c\ndetection:\n  s:\n    f|cidr: '{spelling}'\n  condition: s\n"
            want = f"f|{n}|{n.network_address}|{n.prefixlen}|{n.netmask}"
            try:
                got = B().convert(SigmaCollection.from_yaml(rule))
            except Exception as e:
                fail("native", f"native CIDR expression for {spelling!r}: {type(e).__name__}: {e} (expected {want})", spelling)
                continue
            if got != [want]:
                fail("native", f"native CIDR expression for {spelling!r}: {got} != {[want]}", spelling)
        # backends without a native expression: the rendered query, evaluated on address strings, matches exactly the addresses of the
        # network(s) - whichever way the backend renders the expansion (in-list, startswith operators, wildcard match, regular expression)
        import re as _re

        class NA(TextQueryTestBackend):
            cidr_expression = None

        class NB_(NA):
            convert_or_as_in = False

        class NC(NA):
            in_expressions_allow_wildcards = False

        class ND(NA):
            convert_or_as_in = False
            startswith_expression = endswith_expression = contains_expression = None
            wildcard_match_expression = "{field}=~/{regex}/"
            re_escape_escape_char = False

        class NE(NB_):
            startswith_expression = endswith_expression = contains_expression = None

        ATOM = _re.compile(r'f startswith "([^"]*)"|f="([^"]*)"|f match "([^"]*)"|f in \(([^)]*)\)|f=~/(.*?)/(?= or |\)|$)')

        def q_matches(q, addr):
            """evaluate a query of the test backend (alternatives joined by or) on one address string; None if a part is not understood"""
            if ATOM.sub("", q).replace("or", "").strip("() ") != "":
                return None
            res = False
            for m in ATOM.finditer(q):
                sw, eq, ma, inl, rx = m.groups()
                sw, eq, ma, inl = [None if x is None else _re.sub(r"\\(.)", r"\1", x) for x in (sw, eq, ma, inl)]          # the test backend escapes some characters of plain values (\:)
                if sw is not None:
                    res = res or addr.startswith(sw)
                elif eq is not None:
                    res = res or addr == eq
                elif ma is not None:
                    res = res or fnmatch.fnmatchcase(addr, ma)
                elif inl is not None:
                    res = res or any(fnmatch.fnmatchcase(addr, x) for x in _re.findall(r'"([^"]*)"', inl))
                else:
                    res = res or _re.fullmatch(rx, addr) is not None
            return res
        tricky4 = ["100.0.0.1", "109.1.1.1", "10.1.20.7", "10.112.5.5", "10.1.4.0", "1.0.0.0", "110.1.2.3", "192.168.1.70", "192.168.17.1", "19.2.168.1", "0.0.0.0", "255.255.255.255", "10.0.0.0", "10.255.255.255", "11.0.0.0", "9.255.255.255",
                   "172.16.0.1", "172.160.0.1", "172.1.6.0", "172.31.255.255", "172.32.0.0"]
        tricky6 = ["::1", "::", "abc::", "7fff::1", "8000::", "1::", "2001:db8::1", "2001:db80::1", "2001:db8:1::", "ffff::", "fe80::1"]
        nets = [["0.0.0.0/0"], ["10.0.0.0/8"], ["10.1.2.0/23"], ["192.168.1.7/32"], ["172.16.0.0/12"], ["0.0.0.0/0", "10.0.0.0/8"], ["10.0.0.0/8", "192.168.1.0/24"], ["128.0.0.0/1"], ["::/0"], ["::/1"], ["::/3"], ["2001:db8::/32"], ["::/0", "2001:db8::/32"],
                ["192.168.1.0/28"], ["192.168.1.0/25"], ["10.0.0.96/27"], ["192.168.1.16/30", "192.168.1.0/29"], ["2001:db8::/126"], ["2001:db8::10/124"]]          # (expansions that list full addresses: one is a text prefix of another)
        for nl in nets:
            if any(str(ipaddress.ip_network(n)) in KNOWN_V6 for n in nl):
                continue          # (the listed IPv6 networks of the recorded finding are reported by the expansion check above)
            parsed = [ipaddress.ip_network(n) for n in nl]
            v6 = parsed[0].version == 6
            addrs = list(tricky6 if v6 else tricky4)
            for n in parsed:
                lo, hi = int(n.network_address), int(n.broadcast_address)
                mx = 2 ** (128 if v6 else 32) - 1
                for x in [lo, hi, (lo + hi) // 2, lo - 1, hi + 1] + ([lo + i for i in range(hi - lo + 1)] if hi - lo < 300 else []):
                    if 0 <= x <= mx:
                        addrs.append(str(ipaddress.ip_address(x)) if not v6 else str(ipaddress.IPv6Address(x)))
            rule = "title: t\nlogsource:\n  category: c\ndetection:\n  s:\n    f|cidr:\n" + "".join(f"      - '{n}'\n" for n in nl) + "  condition: s\n"
            for X in (NA, NB_, NC, ND, NE):
                ev += 1
                nontriv += 1
                try:
                    q = X().convert(SigmaCollection.from_yaml(rule))
                except Exception as e:
                    fail("non-native", f"backend variant {X.__name__} without native CIDR expression, networks {nl}: {type(e).__name__}: {e}", [X.__name__, nl])
                    continue
                if len(q) != 1:
                    fail("non-native", f"backend variant {X.__name__} without native CIDR expression, networks {nl}: {len(q)} queries {q}", [X.__name__, nl])
                    continue
                for a in addrs:
                    want = any(ipaddress.ip_address(a) in n for n in parsed)
                    got = q_matches(q[0], a)
                    if got is None:
                        fail("non-native-unparsed", f"backend variant {X.__name__}, networks {nl}: query {q[0]!r} not understood by the stand-in's evaluator", [X.__name__, nl])
                        break
                    if got != want and (want or not v6):          # IPv6: every member is matched (the property does not ask for exactness there)
                        fail("non-native", f"backend variant {X.__name__} without native CIDR expression, networks {nl}: query {q[0]!r} {'matches' if got else 'does not match'} the address {a}, which is {'inside' if want else 'outside'}", [X.__name__, nl, a])
                        break
        # several networks under `all`: every network is its own condition (an address has to be in each of them) - nothing is merged
        for nets_all in (["10.0.0.0/8", "10.1.0.0/16"], ["192.168.1.0/25", "192.168.1.128/25"], ["2001:db8::/32", "2001:db8:1::/48"]):
            ev += 1
            nontriv += 1
            rule = "title: t\nlogsource:\n  category: c\ndetection:\n  s:\n    f|cidr|all:\n" + "".join(f"      - '{n}'\n" for n in nets_all) + "  condition: s\n"
            try:
                got = B().convert(SigmaCollection.from_yaml(rule))[0]
            except Exception as e:
                got = f"{type(e).__name__}: {e}"
            want = " and ".join(f"f|{ipaddress.ip_network(n)}|{ipaddress.ip_network(n).network_address}|{ipaddress.ip_network(n).prefixlen}|{ipaddress.ip_network(n).netmask}" for n in nets_all)
            if got != want:
                fail("cidr-all", f"f|cidr|all: {nets_all} on a backend with a native expression: {got!r}, expected every network as its own condition: {want!r}", [nets_all])
        # value transformations of a pipeline are for strings / numbers: a network stays a network (native expression and expansion unchanged)
        from sigma.processing.pipeline import ProcessingPipeline
        for tr_ in ({"type": "convert_type", "target_type": "str"}, {"type": "case", "method": "lower"}, {"type": "case", "method": "upper"}, {"type": "replace_string", "regex": "0", "replacement": "9"},
                    {"type": "map_string", "mapping": {"10.0.0.0/8": "x"}}, {"type": "regex"}, {"type": "value_placeholders"}, {"type": "wildcard_placeholders"}, {"type": "convert_type", "target_type": "num"}):
            for netw in ("10.0.0.0/8", "2001:DB8::/32", "192.168.1.0/28"):
                ev += 1
                nontriv += 1
                rule = f"title: t\nlogsource:\n  category: c\ndetection:\n  s:\n    f|cidr: '{netw}'\n  condition: s\n"
                for Bk in (B, NA, NB_):
                    try:
                        want_q = Bk().convert(SigmaCollection.from_yaml(rule))
                        got_q = Bk(ProcessingPipeline.from_dict({"name": "p", "priority": 10, "vars": {"x": ["y"]}, "transformations": [dict(tr_)]})).convert(SigmaCollection.from_yaml(rule))
                    except Exception as e:
                        got_q, want_q = f"{type(e).__name__}: {e}", None
                    if got_q != want_q:
                        fail("pipeline-on-cidr", f"pipeline with the value transformation {tr_} on f|cidr: {netw} ({Bk.__name__}): {got_q}, without the pipeline {want_q} - a network is not a string for value transformations", [tr_["type"], netw, Bk.__name__])
        # history: the native expression is still used after a negated condition was converted in not-equals mode
        class NB(TextQueryTestBackend):
            cidr_expression = "{field}|{value}|{network}|{prefixlen}|{netmask}"
            convert_not_as_not_eq = True
        nb = NB()
        ev += 1
        nontriv += 1
        neg = "title: n\nlogsource:\n  category: c\ndetection:\n  s:\n    g: x\n  t:\n    h|startswith: y\n  condition: s and not t\n"
        cid = "title: t\nlogsource:\n  category: c\ndetection:\n  s:\n    f|cidr: '192.168.1.0/24'\n  condition: s\n"
        first = NB().convert(SigmaCollection.from_yaml(cid))
        nb.convert(SigmaCollection.from_yaml(neg))
        after = [nb.convert(SigmaCollection.from_yaml(cid)), NB().convert(SigmaCollection.from_yaml(cid))]
        if any(a != first for a in after) or first != ["f|192.168.1.0/24|192.168.1.0|24|255.255.255.0"]:
            fail("native-history", f"native CIDR expression: {first} on a fresh backend, {after} (same object / new object of the class) after a negated condition was converted in not-equals mode", "history")
        for bad in ["10.0.0.1/24", "300.1.1.1/8", "10.0.0.0/33", "x", "", "::/129", "1.2.3/8"]:
            ev += 1
            try:
                SigmaCIDRExpression(bad)
                fail("invalid", f"invalid CIDR {bad!r} accepted", bad)
            except SigmaTypeError:
                pass
            except Exception as e:
                fail("invalid", f"invalid CIDR {bad!r}: {type(e).__name__} instead of SigmaTypeError", bad)
        if os.environ.get("C18_DUMP_V6"):
            json.dump(sorted(v6_failing), open(os.environ["C18_DUMP_V6"], "w"))
        return {"evaluations": ev, "ipv6_failing_networks": len(v6_failing), "distinct_nontrivial": nontriv, "failures": fails, "failure_counts": seen,
                "bound": f"{len(nets)} network lists x 5 backend variants without native expression, each query evaluated on <= 31 addresses; IPv4: 33 prefix lengths x {len(bases)} addresses (set equality on integer ranges); IPv6: 129 prefix lengths x {len(groups)} addresses x <= 9 member addresses; 11 native spellings (incl. bare IPv4 / IPv6 addresses), native expression after a negated conversion; 7 invalid strings",
                "rule": "distinct networks; every network non-trivial", "samples": samples, "exhaustive": False}
