"""C14 - pipelines compose in a defined order (sigma/processing/pipeline.py, resolver.py, conversion/base.py).

view(p) = (items, postprocessing_items, finalizers, vars).  Spec of p1 + p2: component-wise concatenation, vars right-biased merge.
"""
from __future__ import annotations
import z3
from pyvc.api import *
from pyvc.values import *
from pyvc import ops

COMPONENTS = (("items", "PItem"), ("postprocessing_items", "PPItem"), ("finalizers", "Finalizer"))


def mk_pipeline(I, name):
    cinfo = I.E.index.lookup("sigma.processing.pipeline:ProcessingPipeline")
    f = {c: SList(I.fresh(f"{name}.{c}", "seq", elem=("opaque", s))) for c, s in COMPONENTS}
    f["vars"] = I.fresh(f"{name}.vars", "opaque", "Dict")
    o = SObj(cinfo, f, lazy=True)
    o.ghost["cleared"] = False
    return o


def install(E):
    def s_clear(I, self_obj, args, kwargs):
        self_obj.ghost["cleared"] = True      # every contained item forgets its owner (contract C14._clear_pipeline)
    E.summaries["sigma.processing.pipeline:ProcessingPipeline._clear_pipeline"] = s_clear

    def s_post_init(I, self_obj, args, kwargs):
        self_obj.ghost["owns_items"] = True   # type checks + set_pipeline on every item (contract C14.__post_init__)
    E.summaries["sigma.processing.pipeline:ProcessingPipeline.__post_init__"] = s_post_init


@register
class PipelineAdd(Contract):
    id = "C14.ProcessingPipeline.__add__"
    target = "sigma.processing.pipeline:ProcessingPipeline.__add__"
    props = ("C14",)
    assumed = ["ProcessingPipeline.__post_init__ / _clear_pipeline are summarised (ownership ghost flags); vars are abstract mappings with {**a, **b} = right-biased merge"]

    def setup(self, E):
        install(E)

    def args(self, I):
        a, b = mk_pipeline(I, "self"), mk_pipeline(I, "other")
        other = SUnion([(z3.Bool(I.ctx.fresh_name("other_is_none")), None), (z3.Bool(I.ctx.fresh_name("other_is_pipeline")), b), (z3.BoolVal(True), 0)])
        return {"self": a, "args": [other], "a": a, "b": b}

    def post(self, I, inp, r):
        c, a, b = I.ctx, inp["a"], inp["b"]
        other = I.force(inp["args"][0])
        if other is None:
            c.require(r is a, "p + None is p itself")
            return
        ok = isinstance(r, SObj) and r.cls is a.cls and r is not a and r is not b
        c.require(ok, "result is a new ProcessingPipeline")
        if not ok:
            return
        for comp, sort in COMPONENTS:
            c.require(ops.seq_term(I, r.fields[comp], ("opaque", sort)) == z3.Concat(a.fields[comp].sym.t, b.fields[comp].sym.t),
                      f"{comp} == self.{comp} ++ other.{comp}")
        v = r.fields["vars"]
        c.require(isinstance(v, Sym) and v.kind == "opaque", "vars is a mapping")
        if isinstance(v, Sym):
            c.require(v.t == ops.dict_merge(a.fields["vars"].t, b.fields["vars"].t), "vars == {**self.vars, **other.vars} (later pipeline wins)")
        c.require(a.ghost["cleared"] and b.ghost["cleared"], "both operands release their items before the result takes ownership")
        c.require(r.ghost.get("owns_items") is True, "the result owns the items (constructor ran)")
        for f in ("priority", "name", "allowed_backends"):
            pass

    def raises(self, I, inp, exc):
        other = I.force(inp["args"][0])
        I.ctx.require(exc_is(I, exc, "TypeError") and not isinstance(other, SObj) and other is not None, f"TypeError only for a non-pipeline operand (got {exc_name(exc)})", kind="SAFE")

    def frame_ok(self, I, inp, obj, name):
        return False


@register
class PipelineAddElements(Contract):
    """p1 + p2 keeps EVERY item of both operands, in order - also items that compare equal (pipeline items are dataclasses with structural
    equality: two pipelines may contain identically configured steps, and applying a step twice is not applying it once)"""
    id = "C14.ProcessingPipeline.__add__[elements]"
    target = "sigma.processing.pipeline:ProcessingPipeline.__add__"
    props = ("C14", "C15")
    cases = ((0, 1), (1, 1), (2, 1), (1, 2), (2, 2))
    assumed = ["list lengths unrolled (0..2 per operand); == between two different items is an arbitrary symmetric relation"]

    def setup(self, E):
        install(E)

    def args(self, I, case):
        na, nb = case
        cinfo = I.E.index.lookup("sigma.processing.pipeline:ProcessingPipeline")

        def items(tag, n):
            out = []
            for i in range(n):
                o = SObj("Item", {})
                o.ghost["eq_unknown"] = f"{tag}{i}"
                out.append(o)
            return out
        ops_ = {}
        for name, n in (("self", na), ("other", nb)):
            f = {c: items(f"{name}.{c}.", n) for c, _ in COMPONENTS}
            # variables as real dicts: self always has some, other has none when it holds a single item (the common case of backend / format pipelines)
            f["vars"] = {"k": I.fresh(f"{name}.k", "str"), f"only_{name}": I.fresh(f"{name}.only", "str")} if (name == "self" or n != 1) else {}
            ops_[name] = SObj(cinfo, f, lazy=True)
            ops_[name].ghost["cleared"] = False
        snap = {name: {c: list(o.fields[c]) for c, _ in COMPONENTS} for name, o in ops_.items()}
        vsnap = {name: dict(o.fields["vars"]) for name, o in ops_.items()}
        return {"self": ops_["self"], "args": [ops_["other"]], "snap": snap, "vsnap": vsnap, "ops": ops_}

    def post(self, I, inp, r):
        c = I.ctx
        ok = isinstance(r, SObj) and r is not inp["self"]
        c.require(ok, "result is a new pipeline")
        if ok:
            for comp, _ in COMPONENTS:
                want = inp["snap"]["self"][comp] + inp["snap"]["other"][comp]
                got = r.fields.get(comp)
                got = I.force(got) if not isinstance(got, list) else got
                c.require(isinstance(got, list) and len(got) == len(want) and all(x is y for x, y in zip(got, want)), f"{comp}: every item of self, then every item of other - none dropped, none merged")
            v = r.fields.get("vars")
            v = I.force(v) if not isinstance(v, dict) else v
            want_v = {**inp["vsnap"]["self"], **inp["vsnap"]["other"]}
            c.require(isinstance(v, dict) and set(v) == set(want_v) and all(v[k] is want_v[k] for k in want_v), "vars == {**self.vars, **other.vars}")
            c.require(v is not inp["ops"]["self"].fields["vars"] and v is not inp["ops"]["other"].fields["vars"],
                      "the result has a variables dict of its own (callers write backend options into it; a shared dict would leak them into the operand - a class-level pipeline)", kind="FRAME")
            c.require(dict(inp["ops"]["self"].fields["vars"]) == inp["vsnap"]["self"] and dict(inp["ops"]["other"].fields["vars"]) == inp["vsnap"]["other"], "the operands' variables are unchanged", kind="FRAME")

    def replay(self, values):
        """two different pipelines with an identically configured step, on the real code"""
        from sigma.processing.pipeline import ProcessingPipeline
        mk = lambda: ProcessingPipeline.from_dict({"name": "p", "priority": 10, "transformations": [{"id": "dbl", "type": "replace_string", "regex": "a", "replacement": "aa"}],
                                                     "postprocessing": [{"type": "embed", "prefix": "[", "suffix": "]"}], "finalizers": [{"type": "concat", "prefix": "<", "suffix": ">"}]})
        p = mk() + mk()
        n = (len(p.items), len(p.postprocessing_items), len(p.finalizers))
        return None if n == (2, 2, 2) else f"p1 + p2 of two pipelines with identically configured steps has (items, postprocessing items, finalizers) = {n} instead of (2, 2, 2)"

    def frame_ok(self, I, inp, obj, name):
        return False


@register
class PipelineRAdd(Contract):
    id = "C14.ProcessingPipeline.__radd__"
    target = "sigma.processing.pipeline:ProcessingPipeline.__radd__"
    props = ("C14",)

    def setup(self, E):
        install(E)

    def args(self, I):
        a = mk_pipeline(I, "self")
        x = I.fresh("other", "int")
        return {"self": a, "args": [x], "a": a, "x": x}

    def post(self, I, inp, r):
        I.ctx.require(z3.Implies(inp["x"].t == 0, z3.BoolVal(r is inp["a"])), "0 + p is p itself (sum() start value)")
        I.ctx.require(z3.Implies(inp["x"].t != 0, z3.BoolVal(isinstance(r, ops.NotImplementedVal))), "anything else is NotImplemented")

    def frame_ok(self, I, inp, obj, name):
        return False


@register
class ViewAlgebra(Lemma):
    """the algebra of view(): associativity, identity, later-vars-win - over sequences and a pointwise model of mappings
    (has: key -> Bool, val: key -> value; merge(a,b)[k] = b[k] if k in b else a[k])"""
    id = "C14.lemma.view_algebra"
    props = ("C14",)

    def goals(self):
        S = z3.SeqSort(z3.DeclareSort("PItem"))
        a, b, c = z3.Consts("a b c", S)
        K, V = z3.StringSort(), z3.DeclareSort("Val")
        k = z3.Const("k", K)
        has = [z3.Const(n, z3.ArraySort(K, z3.BoolSort())) for n in ("ha", "hb", "hc")]
        val = [z3.Const(n, z3.ArraySort(K, V)) for n in ("va", "vb", "vc")]

        def merge(x, y):      # (has, val) pairs, pointwise at key k
            return (z3.Or(x[0], y[0]), z3.If(y[0], y[1], x[1]))
        A, Bm, C = [(has[i][k], val[i][k]) for i in range(3)]
        l = merge(merge(A, Bm), C)
        r = merge(A, merge(Bm, C))
        empty = (z3.BoolVal(False), val[0][k])
        g = [("concatenation is associative", [], z3.Concat(z3.Concat(a, b), c) == z3.Concat(a, z3.Concat(b, c))),
             ("the empty pipeline is a left and right identity of concatenation", [], z3.And(z3.Concat(z3.Empty(S), a) == a, z3.Concat(a, z3.Empty(S)) == a)),
             ("vars merge is associative (pointwise at every key)", [], z3.And(l[0] == r[0], z3.Implies(l[0], l[1] == r[1]))),
             ("empty vars are an identity of merge", [], z3.And(merge(A, empty)[0] == A[0], z3.Implies(A[0], merge(A, empty)[1] == A[1]), merge(empty, A)[0] == A[0], z3.Implies(A[0], merge(empty, A)[1] == A[1]))),
             ("variables of the later pipeline override earlier ones", [Bm[0]], merge(A, Bm)[1] == Bm[1])]
        return g


@register
class InitProcessingPipeline(Contract):
    """a backend runs its own pipeline, then the user's, then the output-format pipeline; backend options are written into the
    combined pipeline of THIS backend instance only - never into the class-level backend / format pipelines"""
    id = "C14.Backend.init_processing_pipeline"
    target = "sigma.conversion.base:Backend.init_processing_pipeline"
    props = ("C14", "C15")
    cases = ("format_pipeline", "no_format_pipeline")
    assumed = ["ProcessingPipeline.__add__ contract (C14.ProcessingPipeline.__add__) used as summary"]

    def setup(self, E):
        install(E)
        order = []
        E._c14_order = order

        def s_add(I, self_obj, args, kwargs):
            other = I.force(args[0])
            if other is None:
                return self_obj
            r = mk_pipeline(I, "sum")
            r.ghost["operands"] = self_obj.ghost.get("operands", [self_obj.ghost.get("name")]) + other.ghost.get("operands", [other.ghost.get("name")])
            r.fields["vars"] = {}
            r.born = I.ctx
            return r
        E.summaries["sigma.processing.pipeline:ProcessingPipeline.__add__"] = s_add

        def s_new(I, self_obj, args, kwargs):       # ProcessingPipeline(): an empty pipeline, the identity of +
            if args or kwargs:
                raise OutsideSubset("ProcessingPipeline(...) with arguments inside init_processing_pipeline")
            r = mk_pipeline(I, "empty")
            r.ghost["operands"] = []
            r.fields["vars"] = {}
            r.born = I.ctx
            return r
        E.summaries["sigma.processing.pipeline:ProcessingPipeline"] = s_new

    def args(self, I, case):
        from pyvc.builtins_ import SDefaultDict
        cinfo = I.E.index.lookup("sigma.conversion.base:Backend")
        bp, up, fp = mk_pipeline(I, "backend"), mk_pipeline(I, "user"), mk_pipeline(I, "format")
        for p, n in ((bp, "backend"), (up, "user"), (fp, "format")):
            p.ghost["name"] = n
            p.fields["vars"] = {}
            p.fields["priority"] = I.fresh(f"{n}.priority", "int")       # the stage order must not depend on the priorities
        ofp = SDefaultDict()
        ofp.factory = NativeFn("ProcessingPipeline", lambda I2, a, k: fp)      # defaultdict(ProcessingPipeline): an (empty) pipeline for formats without one
        if case == "format_pipeline":
            ofp.update({"default": fp, "other": fp})
        me = SObj(cinfo, {"backend_processing_pipeline": bp, "processing_pipeline": SOpt(z3.Bool(I.ctx.fresh_name("no_user_pipeline")), up),
                          "output_format_processing_pipeline": ofp, "default_format": "default", "backend_options": {"opt": "x"}, "name": "n"}, lazy=True)
        return {"self": me, "args": [SOpt(z3.Bool(I.ctx.fresh_name("fmt_none")), "other")], "me": me, "shared": [bp, up, fp]}

    def post(self, I, inp, r):
        p = inp["me"].fields.get("last_processing_pipeline")
        ok = isinstance(p, SObj)
        I.ctx.require(ok, "last_processing_pipeline is set")
        if ok:
            ops_ = p.ghost.get("operands", [p.ghost.get("name")])
            user = I.force(inp["me"].fields["processing_pipeline"])
            want = ["backend"] + (["user"] if user is not None else []) + ["format"]
            I.ctx.require(ops_ == want, f"combined pipeline == backend + user + output-format pipeline, in this order (got {ops_})")
            I.ctx.require(all(p is not x for x in inp["shared"]) and all(x.fields["vars"] == {} for x in inp["shared"]),
                          "backend options are written into a pipeline object of this call, not into the shared backend / user / format pipelines")
            I.ctx.require(p.fields["vars"].get("backend_opt") == "x" and p.fields["vars"].get("backend") == "n", "backend options and name are available as pipeline variables")

    def frame_ok(self, I, inp, obj, name):
        return obj is inp["self"] and name == "last_processing_pipeline"


@register
class ResolverResolve(Contract):
    """resolve() of 0..3 named pipelines with arbitrary (symbolic) priorities: the combined pipeline is the +-fold in the order
    of the sort key (priority, name), for every order of the argument list.  Unbounded in the priorities; the number of
    pipelines is unrolled (<= 3) - stated bound."""
    id = "C14.ProcessingPipelineResolver.resolve"
    target = "sigma.processing.resolver:ProcessingPipelineResolver.resolve"
    props = ("C14",)
    cases = ("", "a", "ab", "ba", "abc", "acb", "bac", "bca", "cab", "cba", ("x/n", "y/n"), ("y/n", "x/n"), ("w/b", "v/b", "a"), ("v/b", "a", "w/b"))
    assumed = ["sorted() is a stable sort that compares keys with < only", "specs are pipeline names (Path(spec).is_dir() is False); resolve_pipeline returns the registered pipeline of that name",
               "list length unrolled: 0..3 pipelines (all argument orders)"]

    def setup(self, E):
        install(E)
        InitProcessingPipeline.setup(self, E)

        class PathVal:
            def __init__(self, s):
                self.s = s
        import os.path
        E.externals["pathlib.Path"] = lambda I, args, kwargs: SObj("Path", {"is_dir": NativeFn("is_dir", lambda I2, a, k: False), "glob": None,
                                                                             "name": os.path.basename(I.force(args[0])) if isinstance(I.force(args[0]), str) else I.fresh("basename", "str")})

    def args(self, I, case):
        cinfo = I.E.index.lookup("sigma.processing.resolver:ProcessingPipelineResolver")
        pipes = {}
        for n in case:
            p = mk_pipeline(I, n)
            p.ghost["name"] = n
            p.fields["priority"] = I.fresh(f"prio_{n.replace('/', '_')}", "int")
            pipes[n] = p
        me = SObj(cinfo, {}, lazy=True)
        me.ghost["pipes"] = pipes
        I.E.summaries["sigma.processing.resolver:ProcessingPipelineResolver.resolve_pipeline"] = lambda I2, so, a, k: so.ghost["pipes"][I2.force(a[0])]
        return {"self": me, "args": [list(case)], "pipes": pipes, "case": case}

    def post(self, I, inp, r):
        c = I.ctx
        ok = isinstance(r, SObj) and r.cls.name == "ProcessingPipeline"
        c.require(ok, "returns a ProcessingPipeline")
        if not ok:
            return
        names = r.ghost.get("operands", [r.ghost.get("name")] if r.ghost.get("name") else [])
        c.require(sorted(names) == sorted(list(inp["case"])), f"every resolved pipeline is combined exactly once (got {names})")
        for x, y in zip(names, names[1:]):
            px, py = inp["pipes"][x].fields["priority"].t, inp["pipes"][y].fields["priority"].t
            c.require(z3.Or(px < py, z3.And(px == py, z3.BoolVal(x <= y))), f"combination order follows (priority, full specifier): {x} before {y}")

    def frame_ok(self, I, inp, obj, name):
        return False


@register
class ResolvePipeline(Contract):
    """ProcessingPipelineResolver.resolve_pipeline: a registered pipeline object is returned as it is; a registered FACTORY is called on
    every resolution (each result gets a pipeline of its own: + hands the items of its operands over to the sum, so a pipeline object
    handed out twice would be emptied of its binding by the second use) and the registry is left as it is; the backend check applies to the
    resolved pipeline; an unknown name that is no readable file is SigmaPipelineNotFoundError"""
    id = "C14.ProcessingPipelineResolver.resolve_pipeline"
    target = "sigma.processing.resolver:ProcessingPipelineResolver.resolve_pipeline"
    props = ("C14", "C15")
    cases = tuple((kind, tgt) for kind in ("object", "factory") for tgt in ("none", "allowed", "not-allowed", "unrestricted")) + (("unknown", "none"),)

    def setup(self, E):
        from pyvc.interp import PyRaise
        E.builtins = dict(E.builtins)

        def x_open(I, a, k):
            raise PyRaise(ExcValue("FileNotFoundError", ("no such file",)))
        E.builtins["open"] = NativeFn("open", x_open)

    def args(self, I, case):
        kind, tgt = case
        made = []
        allowed = frozenset() if tgt == "unrestricted" else frozenset({"splunk"})

        def mk(tag):
            p = mk_pipeline(I, tag)
            p.fields["allowed_backends"] = allowed
            return p
        obj = mk("registered")

        def factory(I2, a, k):
            p = mk(f"made{len(made)}")
            made.append(p)
            return p
        reg = {"other": mk("other")}
        if kind == "object":
            reg["p"] = obj
        elif kind == "factory":
            reg["p"] = NativeFn("factory", factory)
        me = SObj(I.E.index.lookup("sigma.processing.resolver:ProcessingPipelineResolver"), {"pipelines": reg}, lazy=True)
        target = {"none": None, "allowed": "splunk", "unrestricted": "elastic", "not-allowed": "elastic"}[tgt]
        return {"self": me, "args": ["p", target], "reg": reg, "before": dict(reg), "obj": obj, "made": made, "case": case}

    def before(self, I, inp):
        # history: the same name was resolved once before (resolution is repeatable)
        if inp["case"][0] == "factory" and inp["case"][1] != "not-allowed":
            inp["first"] = I.call_function(I.E.index.lookup(self.target), inp["self"], list(inp["args"]), {})

    def post(self, I, inp, r):
        kind, tgt = inp["case"]
        c = I.ctx
        c.require(kind != "unknown" and tgt != "not-allowed", "an unknown pipeline / a pipeline not allowed for the backend is not handed out")
        if kind == "object":
            c.require(r is inp["obj"], "the registered pipeline object")
        else:
            c.require(len(inp["made"]) == 2 and r is inp["made"][1] and inp.get("first") is inp["made"][0] and r is not inp.get("first"), "a factory is called for every resolution: each caller gets a pipeline of its own")
        c.require(set(inp["reg"]) == set(inp["before"]) and all(inp["reg"][k] is inp["before"][k] for k in inp["before"]), "the registry is left as it is", kind="FRAME")

    def raises(self, I, inp, exc):
        kind, tgt = inp["case"]
        if kind == "unknown":
            I.ctx.require(exc_is(I, exc, "SigmaPipelineNotFoundError"), f"unknown name, no file: SigmaPipelineNotFoundError (got {exc_name(exc)})")
        else:
            I.ctx.require(tgt == "not-allowed" and exc_is(I, exc, "SigmaPipelineNotAllowedForBackendError"), f"only a pipeline that restricts its backends to others is refused (got {exc_name(exc)})")
        I.ctx.require(set(inp["reg"]) == set(inp["before"]) and all(inp["reg"][k] is inp["before"][k] for k in inp["before"]), "the registry is left as it is", kind="FRAME")

    def frame_ok(self, I, inp, obj, name):
        return False
