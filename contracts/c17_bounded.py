"""C17 bounded stand-in: real rules with placeholders through real pipelines and the text test backend."""
from __future__ import annotations
import itertools, re
from pyvc.api import *


@register
class C17Bounded(Bounded):
    id = "C17.bounded.placeholders"
    props = ("C17",)

    def run(self, tier, seed):
        from sigma.collection import SigmaCollection
        from sigma.backends.test import TextQueryTestBackend
        from sigma.processing.pipeline import ProcessingPipeline
        from sigma.exceptions import SigmaError
        VARS = {"a": ["A1", "A2"], "b": ["B1"], "c": ["C1", "C2", "C3"]}
        pieces = ["x", "%a%", "%b%", "%c%", "*", "\\%q\\%", "y"]
        vals = ["".join(t) for n in range(1, 4) for t in itertools.product(pieces, repeat=n) if sum(1 for z in t if z.startswith("%")) <= 3]
        if tier == "quick":
            vals = vals[::3]
        pipes = {
            "none": {},
            "values_all": {"vars": VARS, "transformations": [{"type": "value_placeholders"}]},
            "values_include_a": {"vars": VARS, "transformations": [{"type": "value_placeholders", "include": ["a"]}]},
            "values_exclude_a_then_wildcard": {"vars": VARS, "transformations": [{"type": "value_placeholders", "exclude": ["a"]}, {"type": "wildcard_placeholders"}]},
            "wildcard_all": {"transformations": [{"type": "wildcard_placeholders"}]},
            "missing_var": {"vars": {"a": ["A1"]}, "transformations": [{"type": "value_placeholders"}]},
            # a transformation that turns strings into regular expressions BEFORE the placeholders are replaced: a value that still holds a
            # placeholder cannot be rendered by it (an error naming the placeholder) - never the stub as text
            "regex_then_values": {"vars": VARS, "transformations": [{"type": "regex"}, {"type": "value_placeholders"}]},
        }
        ev = nontriv = 0
        seen, fails, samples = {}, [], []

        def fail(kind, text, inp):
            seen[kind] = seen.get(kind, 0) + 1
            if seen[kind] == 1:
                fails.append({"text": text, "input": inp})

        def expected(v, handled, wild):
            """list of expected value strings (plain) or None if some placeholder stays unresolved"""
            toks = re.split(r"(%[abc]%)", v)
            outs = [""]
            for t in toks:
                m = re.fullmatch(r"%([abc])%", t)
                if m:
                    n = m.group(1)
                    if n in handled:
                        reps = handled[n]
                    elif wild:
                        reps = ["*"]
                    else:
                        return None
                    outs = [o + r for o in outs for r in reps]
                else:
                    outs = [o + t for o in outs]
            return outs
        for pos in ("string", "keyword", "regex", "contains", "regex-flag-after", "regex-flags-around"):
            for v in vals:
                if pos.startswith("regex") and ("*" in v or "\\" in v):
                    continue
                for pname, pd in pipes.items():
                    if pname == "regex_then_values" and pos.startswith("regex"):
                        continue          # (the regex transformation leaves regular expressions alone; the placeholder step then resolves them)
                    ev += 1
                    nph = len(re.findall(r"(?<!\\)%[abc]%", v))
                    if nph:
                        nontriv += 1
                    q = v.replace("'", "''")
                    det = {"string": f"    f|expand: '{q}'", "contains": f"    f|expand|contains: '{q}'", "regex": f"    f|re|expand: '{q}'", "keyword": None,
                           "regex-flag-after": f"    f|re|expand|i: '{q}'", "regex-flags-around": f"    f|re|m|expand|s: '{q}'"}[pos]
                    if pos == "keyword":
                        rule = f"title: t\nlogsource:\n  category: c\ndetection:\n  s:\n    '|expand':\n      - '{q}'\n  condition: s\n"
                    else:
                        rule = f"title: t\nlogsource:\n  category: c\ndetection:\n  s:\n{det}\n  condition: s\n"
                    handled = {}
                    if pname.startswith("values_all"):
                        handled = VARS
                    elif pname == "values_include_a":
                        handled = {"a": VARS["a"]}
                    elif pname == "values_exclude_a_then_wildcard":
                        handled = {"b": VARS["b"], "c": VARS["c"]}
                    elif pname == "missing_var":
                        handled = {"a": ["A1"]}
                    wild = pname in ("values_exclude_a_then_wildcard", "wildcard_all")
                    exp = expected(v, handled, wild)
                    if pname == "missing_var" and re.search(r"(?<!\\)%[bc]%", v):
                        exp = None
                    try:
                        out = TextQueryTestBackend(ProcessingPipeline.from_dict(pd)).convert(SigmaCollection.from_yaml(rule))
                        err = None
                    except SigmaError as e:
                        out, err = None, e
                    except Exception as e:
                        fail("non-sigma", f"{pos} value {v!r} with pipeline {pname}: non-Sigma exception {type(e).__name__}: {e}", [pos, v, pname])
                        continue
                    if out is not None:
                        text = out[0] if out else ""
                        raw = re.findall(r"%[abc]%", text)
                        if raw:
                            fail("raw-" + pos, f"{pos} value {v!r} with pipeline {pname}: query {text!r} contains the raw placeholder text {raw}", [pos, v, pname])
                            continue
                        if exp is None:
                            fail("unresolved-converted", f"{pos} value {v!r} with pipeline {pname}: unresolved placeholder but a query was produced: {text!r}", [pos, v, pname])
                            continue
                        # every expected combination appears (as rendered by the backend for a plain value), and the number of alternatives matches
                        if pos in ("string", "keyword", "contains") and nph:
                            alts = len(set(exp))
                            n_or = text.count(" or ") + 1 if " or " in text else (text.count(",") + 1 if " in (" in text else 1)
                            if n_or != alts:
                                fail("count", f"{pos} value {v!r} with pipeline {pname}: {n_or} alternatives in {text!r}, expected the {alts} combinations {sorted(set(exp))[:6]}", [pos, v, pname])
                            else:
                                order = [text.find(e.replace("\\%", "%").strip("*")) for e in exp] if pos == "string" and not wild and "*" not in v else []
                                if order and (min(order) < 0 or order != sorted(order)):
                                    fail("order", f"{pos} value {v!r} with pipeline {pname}: combinations not in configuration order in {text!r}; expected order {exp}", [pos, v, pname])
                    else:
                        if exp is not None and pname != "none" or (pname == "none" and nph == 0):
                            if (nph == 0 or exp is not None) and not (pos.startswith("regex") and wild):      # a wildcard inside a regex may be an invalid regex: a Sigma error is fine
                                fail("spurious-error", f"{pos} value {v!r} with pipeline {pname}: {type(err).__name__}: {err} although every placeholder is configured", [pos, v, pname])
                    if len(samples) < 4 and nph == 2 and pname == "values_all" and out:
                        samples.append({"position": pos, "value": v, "query": out[0]})
        # history on one backend object: the variable table in force at the time of a conversion decides (changed, removed, pipeline used elsewhere in between)
        hrule = "title: t\nlogsource:\n  category: c\ndetection:\n  s:\n    f|expand: 'x%a%y'\n    '|re|expand': 'k%a%'\n  condition: s\n"
        for step_kind in ("changed", "removed", "merged-elsewhere"):
            ev += 1
            nontriv += 1
            pl = ProcessingPipeline.from_dict({"name": "h", "vars": {"a": ["A1", "A2"]}, "transformations": [{"type": "value_placeholders"}]})
            b = TextQueryTestBackend(pl)
            try:
                first = b.convert(SigmaCollection.from_yaml(hrule))[0]
                if step_kind == "changed":
                    pl.vars["a"] = ["B1"]
                elif step_kind == "removed":
                    del pl.vars["a"]
                else:
                    TextQueryTestBackend(ProcessingPipeline.from_dict({"name": "o", "vars": {"a": ["C1"]}, "transformations": []}) + pl).convert(SigmaCollection.from_yaml(hrule))
                try:
                    second = b.convert(SigmaCollection.from_yaml(hrule))[0]
                except SigmaError as e:
                    second = type(e).__name__
            except Exception as e:
                fail("history", f"history {step_kind}: {type(e).__name__}: {e}", [step_kind])
                continue
            ok1 = "xA1y" in first and "xA2y" in first
            ok2 = {"changed": "xB1y" in second and "A1" not in second, "removed": second in ("SigmaValueError", "SigmaPlaceholderError"), "merged-elsewhere": second == first}[step_kind]
            if not (ok1 and ok2):
                fail("history", f"one backend, two conversions, variable table {step_kind} in between: first query {first!r}, second {second!r}", [step_kind])
        # history on one backend object, literal first: a value whose TEXT is %a%-x (escaped percent signs, or no expand modifier) converted
        # before a value with the real placeholder %a%-x - in every position a value can take, also as a member of a value list
        shapes = {"single": "    f{m}: {v}", "list": "    f{m}:\n      - {v}\n      - other", "contains-list": "    f{m}|contains:\n      - {v}\n      - other", "keywords": "    '{m}':\n      - {v}\n      - other",
                  "all-list": "    f{m}|all:\n      - {v}\n      - other"}
        mkrule = lambda shape, m, v: "title: t\nlogsource:\n  category: c\ndetection:\n  s:\n" + shapes[shape].format(m=m, v=v).replace("'':", "'|':").replace("'|'", "'|'") + "\n  condition: s\n"
        for shape, lit, same_rule in itertools.product(shapes, (("|expand", "'\\%a\\%-x'"), ("", "'%a%-x'")), (False, True)):
            ev += 1
            nontriv += 1
            b = TextQueryTestBackend()
            lm, lv = lit
            if shape == "keywords":
                lm = lm or "|"          # keyword lists carry modifiers under the key '|mod'; a bare '|' is not valid: use a field-less plain list instead
            try:
                if shape == "keywords" and lit[0] == "":
                    first_rule = "title: t\nlogsource:\n  category: c\ndetection:\n  s:\n    - " + lv + "\n    - other\n  condition: s\n"
                else:
                    first_rule = mkrule(shape, lm, lv)
                probe = mkrule(shape, "|expand", "'%a%-x'")
                if same_rule:
                    doc = first_rule.replace("  s:\n", "  s0:\n").replace("  condition: s\n", "") + probe.split("detection:\n")[1].replace("condition: s", "condition: s0 or s")
                    lit_out = None
                    try:
                        got = b.convert(SigmaCollection.from_yaml(doc))
                    except SigmaError as e:
                        got = type(e).__name__
                else:
                    lit_out = b.convert(SigmaCollection.from_yaml(first_rule))
                    try:
                        got = b.convert(SigmaCollection.from_yaml(probe))
                    except SigmaError as e:
                        got = type(e).__name__
            except Exception as e:
                fail("literal-history", f"literal then placeholder ({shape}, literal written as {lit}, same rule {same_rule}): {type(e).__name__}: {e}", [shape, list(lit), same_rule])
                continue
            if not isinstance(got, str):
                fail("literal-history", f"one backend converted the literal text {lv} ({shape}{', same rule' if same_rule else ''}: {lit_out}) and then a value with the unresolved placeholder %a%-x: query {got} instead of a Sigma error", [shape, list(lit), same_rule])
        # backends with other escaping settings for regular expressions (nothing to escape at all; no flag prefix): an unresolved placeholder
        # inside a regular expression is an error there too
        class NoEsc(TextQueryTestBackend):
            re_escape = ()
            re_escape_escape_char = False

        class NoEscNoFlags(NoEsc):
            re_flag_prefix = False
        for B, key in itertools.product((NoEsc, NoEscNoFlags), ("f|re|expand", "f|re|i|expand", "'|re|expand'", "f|re|expand|s")):
            ev += 1
            nontriv += 1
            rule = f"title: t\nlogsource:\n  category: c\ndetection:\n  s:\n    {key}: 'foo%a%bar.*'\n  condition: s\n"
            try:
                out = B().convert(SigmaCollection.from_yaml(rule))
            except SigmaError:
                continue
            except Exception as e:
                out = f"non-Sigma {type(e).__name__}: {e}"
            fail("regex-noescape", f"backend without regular-expression escaping ({B.__name__}), {key}: 'foo%a%bar.*' with the placeholder unresolved gives {out} instead of a Sigma error", [B.__name__, key])
        return {"evaluations": ev, "distinct_nontrivial": nontriv, "failures": fails, "failure_counts": seen,
                "bound": f"literal-then-placeholder histories in 5 value positions x 2 spellings x same / next rule; three histories on one backend object (variables changed / removed / pipeline merged elsewhere between two conversions); {len(vals)} values (<= 3 pieces over {pieces}) x 6 positions (string, keyword, contains, regular expression without / followed by / surrounded by flag modifiers) x {len(pipes)} pipelines", "rule": "distinct (position, value, pipeline); non-trivial = at least one placeholder",
                "samples": samples, "exhaustive": tier != "quick"}
