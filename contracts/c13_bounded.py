"""C13 bounded stand-in: pipeline items written in YAML form with all three condition groups (list / map + expression, linking, negation),
applied through a real pipeline with a marker transformation, against an independent evaluation on the rule document."""
from __future__ import annotations
import itertools, copy
from pyvc.api import *

RULE = {"title": "t", "logsource": {"category": "c", "product": "p"}, "detection": {"sel": {"f": "a", "g": "b"}, "condition": "sel"}}
RULE_CONDS = {"ls_yes": ({"type": "logsource", "category": "c"}, True), "ls_no": ({"type": "logsource", "category": "x"}, False), "is_rule": ({"type": "is_sigma_rule"}, True),
              "is_corr": ({"type": "is_sigma_correlation_rule"}, False)}
DI_CONDS = {"val_a": ({"type": "match_string", "cond": "any", "pattern": "^a$"}, {"f": True, "g": False}), "val_b": ({"type": "match_string", "cond": "any", "pattern": "^b$"}, {"f": False, "g": True}),
            "val_none": ({"type": "match_string", "cond": "any", "pattern": "^zzz$"}, {"f": False, "g": False})}
FN_CONDS = {"inc_f": ({"type": "include_fields", "fields": ["f"]}, {"f": True, "g": False}), "exc_f": ({"type": "exclude_fields", "fields": ["f"]}, {"f": False, "g": True}),
            "inc_fg": ({"type": "include_fields", "fields": ["f", "g"]}, {"f": True, "g": True})}


def combine(vals, op, neg, has):
    if not has:
        return True
    r = all(vals) if op == "and" else any(vals)
    return (not r) if neg else r


def expr_eval(expr, env):
    return eval(expr, {"__builtins__": {}}, env)


@register
class C13Bounded(Bounded):
    id = "C13.bounded.gating"
    props = ("C13",)

    def run(self, tier, seed):
        from sigma.collection import SigmaCollection
        from sigma.backends.test import TextQueryTestBackend
        from sigma.processing.pipeline import ProcessingPipeline
        ev = nontriv = 0
        seen, fails, samples = {}, [], []

        def groups(table, keyname, kind):
            """(yaml fragment, evaluator(field) -> bool) for the condition group"""
            names = list(table)
            out = [({}, lambda fld: True, "none")]
            subsets = [(a,) for a in names] + list(itertools.combinations(names, 2))
            for sub in subsets:
                for op, neg in itertools.product(("and", "or"), (False, True)):
                    frag = {f"{keyname}_conditions": [copy.deepcopy(table[n][0]) for n in sub], f"{keyname}_cond_op": op}
                    if neg:
                        frag[f"{keyname}_cond_not"] = True
                    ev_ = (lambda sub, op, neg: lambda fld: combine([table[n][1] if not isinstance(table[n][1], dict) else table[n][1][fld] for n in sub], op, neg, True))(sub, op, neg)
                    out.append((frag, ev_, f"{sub}/{op}/{'not' if neg else ''}"))
            for sub in itertools.combinations(names, 2):
                for tmpl in ("{0} and not {1}", "not ({0} or {1})", "{0} or {1}"):
                    e = tmpl.format(*sub)
                    frag = {f"{keyname}_conditions": {n: copy.deepcopy(table[n][0]) for n in sub}, f"{keyname}_cond_expr": e}
                    ev_ = (lambda sub, e: lambda fld: expr_eval(e, {n: (table[n][1] if not isinstance(table[n][1], dict) else table[n][1][fld]) for n in sub}))(sub, e)
                    out.append((frag, ev_, f"expr {e}"))
            # empty condition lists with linking / negation: "an item without conditions always applies"
            for op, neg in (("or", False), ("and", True), ("or", True)):
                frag = {f"{keyname}_conditions": [], f"{keyname}_cond_op": op}
                if neg:
                    frag[f"{keyname}_cond_not"] = True
                out.append((frag, lambda fld: True, f"empty/{op}/{neg}"))
            return out
        rg, dg, fg = groups(RULE_CONDS, "rule", "rule"), groups(DI_CONDS, "detection_item", "di"), groups(FN_CONDS, "field_name", "fn")
        combos = list(itertools.product(rg, dg, fg))
        if tier == "quick":
            combos = combos[::41]
        for (rf, re_, rn), (df, de, dn), (ff, fe, fn_) in combos:
            ev += 1
            item = {"id": "it", "type": "field_name_prefix", "prefix": "X_", **copy.deepcopy(rf), **copy.deepcopy(df), **copy.deepcopy(ff)}
            want = {}
            for fld in ("f", "g"):
                want[fld] = bool(re_(fld)) and bool(de(fld)) and bool(fe(fld))
            if any(want.values()):
                nontriv += 1
            try:
                q = TextQueryTestBackend(ProcessingPipeline.from_dict({"transformations": [item]})).convert(SigmaCollection.from_dicts([copy.deepcopy(RULE)]))[0]
            except Exception as e:
                k = "error"
                seen[k] = seen.get(k, 0) + 1
                if seen[k] == 1:
                    fails.append({"text": f"item {item}: {type(e).__name__}: {e}", "input": [rn, dn, fn_]})
                continue
            got = {"f": "X_f=" in q, "g": "X_g=" in q}
            if got != want:
                k = f"gate:{'empty' if 'empty' in (rn + dn + fn_) else 'cond'}"
                seen[k] = seen.get(k, 0) + 1
                if seen[k] == 1:
                    fails.append({"text": f"item with rule conditions [{rn}], detection-item conditions [{dn}], field-name conditions [{fn_}]: applied to {got}, the conditions say {want} (query {q})", "input": [rn, dn, fn_]})
            elif len(samples) < 3 and want["f"] != want["g"]:
                samples.append({"item": str(item)[:300], "query": q})
        return {"evaluations": ev, "distinct_nontrivial": nontriv, "failures": fails, "failure_counts": seen,
                "bound": f"{len(rg)} rule-condition groups x {len(dg)} detection-item groups x {len(fg)} field-name groups" + (" (every 41st)" if tier == "quick" else ""),
                "rule": "distinct items; non-trivial = applies to at least one field", "samples": samples, "exhaustive": tier != "quick"}
