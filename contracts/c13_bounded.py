"""C13 bounded stand-in: pipeline items written in YAML form with all three condition groups (list / map + expression, linking, negation),
applied through a real pipeline with a marker transformation, against an independent evaluation on the rule document."""
from __future__ import annotations
import itertools, copy
from pyvc.api import *

RULE = {"title": "t", "logsource": {"category": "c", "product": "p"}, "detection": {"sel": {"f": "a", "g": "b"}, "condition": "sel"}}
RULE_CONDS = {"ls_yes": ({"type": "logsource", "category": "c"}, True), "ls_no": ({"type": "logsource", "category": "x"}, False), "is_rule": ({"type": "is_sigma_rule"}, True),
              "is_corr": ({"type": "is_sigma_correlation_rule"}, False)}
DI_CONDS = {"val_a": ({"type": "match_string", "cond": "any", "pattern": "^a$"}, {"f": True, "g": False}), "val_b": ({"type": "match_string", "cond": "any", "pattern": "^b$"}, {"f": False, "g": True}),
            "val_none": ({"type": "match_string", "cond": "any", "pattern": "^zzz$"}, {"f": False, "g": False})}
FN_CONDS = {"inc_f": ({"type": "include_fields", "fields": ["f"]}, {"f": True, "g": False}), "exc_f": ({"type": "exclude_fields", "fields": ["f"]}, {"f": False, "g": True}),
            "inc_fg": ({"type": "include_fields", "fields": ["f", "g"]}, {"f": True, "g": True})}


def combine(vals, op, neg, has):
    if not has:
        return True
    r = all(vals) if op == "and" else any(vals)
    return (not r) if neg else r


def expr_eval(expr, env):
    return eval(expr, {"__builtins__": {}}, env)


@register
class C13Bounded(Bounded):
    id = "C13.bounded.gating"
    props = ("C13",)

    def run(self, tier, seed):
        from sigma.collection import SigmaCollection
        from sigma.backends.test import TextQueryTestBackend
        from sigma.processing.pipeline import ProcessingPipeline
        ev = nontriv = 0
        seen, fails, samples = {}, [], []

        def groups(table, keyname, kind):
            """(yaml fragment, evaluator(field) -> bool) for the condition group"""
            names = list(table)
            out = [({}, lambda fld: True, "none")]
            subsets = [(a,) for a in names] + list(itertools.combinations(names, 2))
            for sub in subsets:
                for op, neg in itertools.product(("and", "or"), (False, True)):
                    frag = {f"{keyname}_conditions": [copy.deepcopy(table[n][0]) for n in sub], f"{keyname}_cond_op": op}
                    if neg:
                        frag[f"{keyname}_cond_not"] = True
                    ev_ = (lambda sub, op, neg: lambda fld: combine([table[n][1] if not isinstance(table[n][1], dict) else table[n][1][fld] for n in sub], op, neg, True))(sub, op, neg)
                    out.append((frag, ev_, f"{sub}/{op}/{'not' if neg else ''}"))
            for sub in itertools.combinations(names, 2):
                for tmpl in ("{0} and not {1}", "not ({0} or {1})", "{0} or {1}"):
                    e = tmpl.format(*sub)
                    frag = {f"{keyname}_conditions": {n: copy.deepcopy(table[n][0]) for n in sub}, f"{keyname}_cond_expr": e}
                    ev_ = (lambda sub, e: lambda fld: expr_eval(e, {n: (table[n][1] if not isinstance(table[n][1], dict) else table[n][1][fld]) for n in sub}))(sub, e)
                    out.append((frag, ev_, f"expr {e}"))
            # empty condition lists with linking / negation: "an item without conditions always applies"
            for op, neg in (("or", False), ("and", True), ("or", True)):
                frag = {f"{keyname}_conditions": [], f"{keyname}_cond_op": op}
                if neg:
                    frag[f"{keyname}_cond_not"] = True
                out.append((frag, lambda fld: True, f"empty/{op}/{neg}"))
            return out
        rg, dg, fg = groups(RULE_CONDS, "rule", "rule"), groups(DI_CONDS, "detection_item", "di"), groups(FN_CONDS, "field_name", "fn")
        combos = list(itertools.product(rg, dg, fg))
        if tier == "quick":
            combos = combos[::41]
        for (rf, re_, rn), (df, de, dn), (ff, fe, fn_) in combos:
            ev += 1
            item = {"id": "it", "type": "field_name_prefix", "prefix": "X_", **copy.deepcopy(rf), **copy.deepcopy(df), **copy.deepcopy(ff)}
            want = {}
            for fld in ("f", "g"):
                want[fld] = bool(re_(fld)) and bool(de(fld)) and bool(fe(fld))
            if any(want.values()):
                nontriv += 1
            try:
                q = TextQueryTestBackend(ProcessingPipeline.from_dict({"transformations": [item]})).convert(SigmaCollection.from_dicts([copy.deepcopy(RULE)]))[0]
            except Exception as e:
                k = "error"
                seen[k] = seen.get(k, 0) + 1
                if seen[k] == 1:
                    fails.append({"text": f"item {item}: {type(e).__name__}: {e}", "input": [rn, dn, fn_]})
                continue
            got = {"f": "X_f=" in q, "g": "X_g=" in q}
            if got != want:
                k = f"gate:{'empty' if 'empty' in (rn + dn + fn_) else 'cond'}"
                seen[k] = seen.get(k, 0) + 1
                if seen[k] == 1:
                    fails.append({"text": f"item with rule conditions [{rn}], detection-item conditions [{dn}], field-name conditions [{fn_}]: applied to {got}, the conditions say {want} (query {q})", "input": [rn, dn, fn_]})
            elif len(samples) < 3 and want["f"] != want["g"]:
                samples.append({"item": str(item)[:300], "query": q})
        return {"evaluations": ev, "distinct_nontrivial": nontriv, "failures": fails, "failure_counts": seen,
                "bound": f"{len(rg)} rule-condition groups x {len(dg)} detection-item groups x {len(fg)} field-name groups" + (" (every 41st)" if tier == "quick" else ""),
                "rule": "distinct items; non-trivial = applies to at least one field", "samples": samples, "exhaustive": tier != "quick"}


# ----------------------------------------------------------------------------------------------- built-in conditions, one at a time
RULE2 = {"title": "t2", "id": "9a0ab1b9-1a0b-4b1a-8a1b-0123456789ab", "status": "test", "level": "high", "date": "2023-05-17", "author": "me", "references": ["https://a", "https://b"],
         "tags": ["attack.t1059", "attack.execution"], "myint": 5, "mystr": "AbC", "mylist": ["a", "b"], "logsource": {"category": "c", "product": "p", "service": "s"},
         "detection": {"sel": {"f": ["a*", "b"], "g|re": "^x.*$", "n": 5, "z": None, "h|fieldref": "f"}, "nest": [{"k": "v"}, {"k2": "v2"}], "condition": "sel or nest"}}
RULE3 = {"title": "t3", "logsource": {"category": "c"}, "detection": {"sel": {"c|cased": "AbC", "d": "AbC", "t": 12, "e|cased|contains": "x"}, "condition": "sel"}}
LEVELS = ["informational", "low", "medium", "high", "critical"]
STATUSES = ["unsupported", "deprecated", "experimental", "test", "stable"]
CMP = {"eq": lambda a, b: a == b, "ne": lambda a, b: a != b, "gte": lambda a, b: a >= b, "gt": lambda a, b: a > b, "lte": lambda a, b: a <= b, "lt": lambda a, b: a < b}


def attr_oracle(attribute, value, op):
    """documented meaning of rule_attribute on RULE2: True / False / 'error' (configuration error) / None (not specified here)"""
    import datetime
    doc = RULE2
    if attribute not in doc and attribute != "no_such":
        return None
    if attribute == "no_such":
        return False
    v = doc[attribute]
    if isinstance(v, list):
        return {"in": value in v, "not_in": value not in v, "eq": False, "ne": True}.get(op, False)
    if op in ("in", "not_in"):
        return "error" if attribute in ("mystr", "author", "id", "title") else None
    if attribute in ("mystr", "author", "id", "title"):
        return CMP[op](v, value) if op in ("eq", "ne") else "error"
    if attribute == "myint":
        try:
            return CMP[op](float(v), float(value))
        except ValueError:
            return "error"
    if attribute == "date":
        if not isinstance(value, str):
            return "error"
        try:
            return CMP[op](datetime.date.fromisoformat(v), datetime.date.fromisoformat(value))
        except ValueError:
            return "error"
    table = LEVELS if attribute == "level" else STATUSES
    if not isinstance(value, str) or value.lower() not in table:
        return "error"
    return CMP[op](table.index(v), table.index(value.lower()))


@register
class C13BuiltinConditions(Bounded):
    """every built-in rule / detection-item / field-name condition type, configured one at a time on a marker item, against the documented
    meaning evaluated on the rule DOCUMENT"""
    id = "C13.bounded.builtin_conditions"
    props = ("C13",)

    def run(self, tier, seed):
        from sigma.collection import SigmaCollection
        from sigma.backends.test import TextQueryTestBackend
        from sigma.processing.pipeline import ProcessingPipeline
        from sigma.exceptions import SigmaConfigurationError, SigmaError
        ev = nontriv = 0
        fails, samples, seen = [], [], {}

        def fail(kind, text, inp):
            seen[kind] = seen.get(kind, 0) + 1
            if seen[kind] <= 2:
                fails.append({"text": text, "input": inp})

        def run_item(item, state=None, pre=()):
            """which of the fields f g n z h k k2 carry the marker prefix after the item ran; 'error' for a configuration error"""
            items = list(pre) + ([{"type": "set_state", "key": k, "val": v} for k, v in (state or {}).items()]) + [dict(item, id="marked", type="field_name_prefix", prefix="X_")]
            try:
                q = TextQueryTestBackend(ProcessingPipeline.from_dict({"transformations": items})).convert(SigmaCollection.from_dicts([copy.deepcopy(RULE2)]))[0]
            except SigmaConfigurationError:
                return "error"
            import re as _re
            return {m.group(2) for m in _re.finditer(r"(?<!\w)(X_)?(f|g|n|z|h|k2|k)(?==| in | is )", q) if m.group(1)}
        ALL = {"f", "g", "n", "z", "h", "k", "k2"}
        # ---- rule_attribute
        values = {"level": ["high", "HIGH", "low", "critical", "bogus", 3], "status": ["test", "stable", "deprecated", "Test", "nope"], "date": ["2023-05-17", "2023-05-18", "2022-12-31", "17.05.2023", 20230517],
                  "myint": [5, "5", 4, "6.5", "abc"], "mystr": ["AbC", "abc", "x"], "author": ["me", "you"], "mylist": ["a", "c"], "references": ["https://a", "https://zz"], "no_such": ["x"],
                  "id": ["9a0ab1b9-1a0b-4b1a-8a1b-0123456789ab", "9a0ab1b9-1a0b-4b1a-8a1b-0123456789ac"]}
        for attribute, vals in values.items():
            for value, op in itertools.product(vals, ("eq", "ne", "gte", "gt", "lte", "lt", "in", "not_in")):
                want = attr_oracle(attribute, value, op)
                if want is None:
                    continue
                ev += 1
                nontriv += 1
                try:
                    got = run_item({"rule_conditions": [{"type": "rule_attribute", "attribute": attribute, "value": value, "op": op}]})
                except Exception as e:
                    got = f"{type(e).__name__}: {e}"
                exp = "error" if want == "error" else (ALL if want else set())
                if got != exp:
                    fail("rule_attribute", f"rule_attribute {attribute} {op} {value!r} on a rule with {attribute} = {RULE2.get(attribute)!r}: item applied to {got if isinstance(got, str) else sorted(got)}, documented meaning: {'configuration error' if want == 'error' else want}", [attribute, op, value])
        # ---- a custom attribute named like a built-in one (set by an earlier item) does not replace the rule's own attribute
        for attribute, custom, probe in (("level", "critical", "critical"), ("level", "critical", RULE2.get("level")), ("status", "deprecated", "deprecated"), ("title", "other", "other"), ("title", "other", RULE2.get("title"))):
            if probe is None:
                continue
            for op in ("eq", "ne"):
                ev += 1
                nontriv += 1
                want = attr_oracle(attribute, probe, op)
                if want is None or want == "error":
                    continue
                try:
                    got = run_item({"rule_conditions": [{"type": "rule_attribute", "attribute": attribute, "value": probe, "op": op}]}, pre=[{"type": "set_custom_attribute", "attribute": attribute, "value": custom}])
                except Exception as e:
                    got = f"{type(e).__name__}: {e}"
                if got != (ALL if want else set()):
                    fail("rule_attribute-shadowed", f"rule_attribute {attribute} {op} {probe!r} after set_custom_attribute {attribute} = {custom!r} on a rule whose own {attribute} is {RULE2.get(attribute)!r}: item applied to {got if isinstance(got, str) else sorted(got)}, the rule's own attribute says {want}", [attribute, op, probe, custom])
        # ---- other rule conditions
        rc = [({"type": "tag", "tag": "attack.t1059"}, True), ({"type": "tag", "tag": "attack.t1060"}, False), ({"type": "tag", "tag": "attack.execution"}, True),
              ({"type": "contains_field", "field": "k2"}, True), ({"type": "contains_field", "field": "K2"}, False), ({"type": "contains_field", "field": "v2"}, False),
              ({"type": "contains_detection_item", "field": "k2", "value": "v2"}, True), ({"type": "contains_detection_item", "field": "k2", "value": "v"}, False),
              ({"type": "contains_detection_item", "field": "n", "value": 5}, True), ({"type": "contains_detection_item", "field": "n", "value": "5"}, False),
              ({"type": "contains_detection_item", "field": "f", "value": "b"}, True), ({"type": "contains_detection_item", "field": "f", "value": "a*"}, True),
              ({"type": "contains_detection_item", "field": "f", "value": "a"}, False), ({"type": "contains_detection_item", "field": "k", "value": "v2"}, False),
              ({"type": "logsource", "category": "c", "product": "p", "service": "s"}, True), ({"type": "logsource", "service": "other"}, False),
              ({"type": "is_sigma_rule"}, True), ({"type": "is_sigma_correlation_rule"}, False),
              ({"type": "processing_state", "key": "k", "val": "v"}, ("state", {"k": "v"}, True)), ({"type": "processing_state", "key": "k", "val": "v"}, ("state", {"k": "w"}, False)),
              ({"type": "processing_state", "key": "k", "val": "v"}, ("state", {}, False)), ({"type": "processing_item_applied", "processing_item_id": "nobody"}, False),
              # a state that was SET to a falsy value is set
              ({"type": "processing_state", "key": "k", "val": 0}, ("state", {"k": 0}, True)), ({"type": "processing_state", "key": "k", "val": False}, ("state", {"k": False}, True)),
              ({"type": "processing_state", "key": "k", "val": ""}, ("state", {"k": ""}, True)), ({"type": "processing_state", "key": "k", "val": 0}, ("state", {}, False)), ({"type": "processing_state", "key": "k", "val": 0}, ("state", {"k": 1}, False))]
        for cond, want in rc:
            state = None
            if isinstance(want, tuple):
                _, state, want = want
            for neg in (False, True):
                ev += 1
                nontriv += 1
                try:
                    got = run_item({"rule_conditions": [cond], **({"rule_cond_not": True} if neg else {})}, state)
                except Exception as e:
                    got = f"{type(e).__name__}: {e}"
                exp = ALL if (want != neg) else set()
                if got != exp:
                    fail("rule-" + cond["type"], f"rule condition {cond}{' negated' if neg else ''}{' with state ' + str(state) if state is not None else ''}: item applied to {got if isinstance(got, str) else sorted(got)}, expected {sorted(exp)}", [cond, neg, state])
        # ---- detection item conditions: which items of RULE2 they select
        dc = [({"type": "match_string", "cond": "any", "pattern": "^b$"}, {"f"}), ({"type": "match_string", "cond": "all", "pattern": "^b$"}, set()), ({"type": "match_string", "cond": "all", "pattern": "^v"}, {"k", "k2"}),
              ({"type": "match_string", "cond": "any", "pattern": "^v$", "negate": True}, {"f", "k2"}), ({"type": "match_string", "cond": "all", "pattern": "^a", "negate": True}, {"k", "k2"}),
              ({"type": "contains_wildcard", "cond": "any"}, {"f"}), ({"type": "contains_wildcard", "cond": "all"}, set()), ({"type": "is_null", "cond": "all"}, {"z"}), ({"type": "is_null", "cond": "any"}, {"z"}),
              ({"type": "match_value", "cond": "any", "value": 5}, {"n"}), ({"type": "match_value", "cond": "any", "value": "b"}, {"f"}), ({"type": "match_value", "cond": "all", "value": "v"}, {"k"}),
              ({"type": "processing_item_applied", "processing_item_id": "nobody"}, set()), ({"type": "processing_state", "key": "k", "val": "v"}, ("state", {"k": "v"}, ALL)),
              ({"type": "processing_state", "key": "k", "val": "v"}, ("state", {"k": 1}, set())), ({"type": "processing_state", "key": "k", "val": 0}, ("state", {"k": 0}, ALL)),
              ({"type": "processing_state", "key": "k", "val": False}, ("state", {"k": False}, ALL))]
        for cond, want in dc:
            state = None
            if isinstance(want, tuple):
                _, state, want = want
            for neg in (False, True):
                ev += 1
                nontriv += 1
                try:
                    got = run_item({"detection_item_conditions": [cond], **({"detection_item_cond_not": True} if neg else {})}, state)
                except Exception as e:
                    got = f"{type(e).__name__}: {e}"
                exp = (ALL - want) if neg else want
                if cond.get("negate") and isinstance(got, set):
                    # the documentation leaves open what a negated pattern says about values that are not strings: compare string-valued items only
                    got, exp = got & {"f", "k", "k2"}, exp & {"f", "k", "k2"}
                if got != exp:
                    fail("di-" + cond["type"], f"detection item condition {cond}{' negated' if neg else ''}: item applied to {got if isinstance(got, str) else sorted(got)}, expected {sorted(exp)}", [cond, neg])
        # ---- field name conditions
        fc = [({"type": "include_fields", "fields": ["f", "k2"]}, {"f", "k2"}), ({"type": "exclude_fields", "fields": ["f", "k2"]}, ALL - {"f", "k2"}), ({"type": "include_fields", "fields": ["k"]}, {"k"}),
              ({"type": "include_fields", "fields": ["k.*"], "mode": "re"}, {"k", "k2"}), ({"type": "include_fields", "fields": ["^k$", "n|z"], "mode": "re"}, {"k", "n", "z"}), ({"type": "exclude_fields", "fields": ["k"], "mode": "re"}, ALL - {"k", "k2"}),
              ({"type": "include_fields", "fields": ["(?i)^K$", "^N$"], "mode": "re"}, {"k"}), ({"type": "include_fields", "fields": ["^N$", "(?i)^K2$"], "mode": "re"}, {"k2"}),
              ({"type": "exclude_fields", "fields": ["(?i)^F$", "^G$", "^Z$"], "mode": "re"}, ALL - {"f"}), ({"type": "include_fields", "fields": ["^(k)\\1$", "^(n)$"], "mode": "re"}, {"n"}),
              ({"type": "include_fields", "fields": ["K"]}, set()), ({"type": "include_fields", "fields": []}, set()), ({"type": "exclude_fields", "fields": []}, ALL),
              ({"type": "processing_item_applied", "processing_item_id": "nobody"}, set()), ({"type": "processing_state", "key": "k", "val": "v"}, ("state", {"k": "v"}, ALL)), ({"type": "processing_state", "key": "k", "val": 0}, ("state", {"k": 0}, ALL)),
              ({"type": "processing_state", "key": "k", "val": ""}, ("state", {"k": ""}, ALL))]
        for cond, want in fc:
            state = None
            if isinstance(want, tuple):
                _, state, want = want
            for neg in (False, True):
                ev += 1
                nontriv += 1
                try:
                    got = run_item({"field_name_conditions": [cond], **({"field_name_cond_not": True} if neg else {})}, state)
                except Exception as e:
                    got = f"{type(e).__name__}: {e}"
                # h|fieldref: f - the item gate holds if the condition holds for the field OR for a field it refers to; the field itself is
                # renamed only if the (possibly negated) condition also holds for its own name
                exp = (ALL - want - ({"h"} if "f" in want else set())) if neg else want
                if got != exp:
                    fail("fn-" + cond["type"], f"field name condition {cond}{' negated' if neg else ''}: item applied to {got if isinstance(got, str) else sorted(got)}, expected {sorted(exp)}", [cond, neg])
        # ---- two items (also of different pipelines) whose condition EXPRESSIONS have the same text but whose identifiers mean different conditions
        def two_items(order):
            mk = lambda pfx, cat: {"id": pfx, "type": "field_name_prefix", "prefix": pfx, "rule_cond_expr": "os and not ex", "rule_conditions": {"os": {"type": "logsource", "category": cat}, "ex": {"type": "logsource", "product": "zz"}}}
            its = {"A_": mk("A_", "c"), "B_": mk("B_", "other")}
            pls = [ProcessingPipeline.from_dict({"transformations": [its[k]]}) for k in order]       # constructed in this order ...
            q = TextQueryTestBackend(pls[0] + pls[1] if order == ("A_", "B_") else pls[1] + pls[0]).convert(SigmaCollection.from_dicts([copy.deepcopy(RULE2)]))[0]
            return q
        for order in (("A_", "B_"), ("B_", "A_")):
            ev += 1
            nontriv += 1
            try:
                q = two_items(order)
            except Exception as e:
                q = f"{type(e).__name__}: {e}"
            if "A_f" not in q or "B_" in q:
                fail("same-expression", f"two items with the expression text 'os and not ex' (A_: os = category c, holds; B_: os = category other, does not), constructed in the order {order}: query {q!r} - expected only the prefix A_", [list(order)])
        # ---- match_value on values whose class is a subclass of the plain value types (case-sensitive strings, timestamp parts)
        def run3(item):
            import re as _re
            q = TextQueryTestBackend(ProcessingPipeline.from_dict({"transformations": [dict(item, id="marked", type="field_name_prefix", prefix="X_")]})).convert(SigmaCollection.from_dicts([copy.deepcopy(RULE3)]))[0]
            return {m.group(2) for m in _re.finditer(r"(?<!\w)(X_)?(c|d|t|e)(?= |=)", q) if m.group(1)}
        for cond, want in (({"type": "match_value", "cond": "any", "value": "AbC"}, {"c", "d"}), ({"type": "match_value", "cond": "any", "value": 12}, {"t"}), ({"type": "match_value", "cond": "all", "value": "*x*"}, {"e"}),
                           ({"type": "match_value", "cond": "any", "value": "abc"}, set()), ({"type": "match_string", "cond": "any", "pattern": "^AbC$"}, {"c", "d"}), ({"type": "contains_wildcard", "cond": "any"}, {"e"})):
            for neg in (False, True):
                ev += 1
                nontriv += 1
                try:
                    got = run3({"detection_item_conditions": [cond], **({"detection_item_cond_not": True} if neg else {})})
                except Exception as e:
                    got = f"{type(e).__name__}: {e}"
                exp = ({"c", "d", "t", "e"} - want) if neg else want
                if got != exp:
                    fail("di3-" + cond["type"], f"detection item condition {cond}{' negated' if neg else ''} on a rule with case-sensitive / timestamp-part values: item applied to {got if isinstance(got, str) else sorted(got)}, expected {sorted(exp)}", [cond, neg])
        # ---- processing_item_applied as a field-name condition, for every place a field name lives: detection items, the fields list, and
        # group-by / alias targets / condition fields of a correlation rule. Step 1 maps m1, m2 (id `map`); step 2 prefixes what the
        # condition (plain or negated) selects. A name was "handled by map" iff it is m1 or m2.
        from sigma.rule import SigmaRule
        from sigma.correlations import SigmaCorrelationRule
        import json as _json, os as _os
        kfile = _os.path.join(_os.path.dirname(_os.path.dirname(_os.path.abspath(__file__))), "known", "c13_applied_history.json")
        KNOWN_H = _json.load(open(kfile)) if _os.path.exists(kfile) else []
        hist_failing = []

        def hist_pipeline(neg, multi):
            return ProcessingPipeline.from_dict({"transformations": [
                {"id": "map", "type": "field_name_mapping", "mapping": {"m1": "M1", "m2": ["M2"] if multi else "M2"}},
                {"id": "pfx", "type": "field_name_prefix", "prefix": "P_", "field_name_conditions": [{"type": "processing_item_applied", "processing_item_id": "map"}], **({"field_name_cond_not": True} if neg else {})}]})
        exp_name = lambda n, neg: {"m1": "M1", "m2": "M2"}.get(n, n) if (n in ("m1", "m2")) == neg else "P_" + {"m1": "M1", "m2": "M2"}.get(n, n)
        for neg, multi, fr in itertools.product((False, True), (False, True), ("m1", "u1", ["m2", "u2"], ["u1", "m1"])):
            ev += 1
            nontriv += 1
            corr = {"title": "c", "correlation": {"type": "value_count", "rules": ["ra", "rb"], "timespan": "5m", "group-by": ["al", "m2", "u3"], "aliases": {"al": {"ra": "m1", "rb": "u4"}},
                                               "condition": {"field": fr, "gte": 10}}}
            det = {"title": "d", "logsource": {"category": "c"}, "fields": ["m1", "u5"], "detection": {"sel": {"m2": 1, "u6": 2}, "condition": "sel"}}
            try:
                pl = hist_pipeline(neg, multi)
                cr = SigmaCorrelationRule.from_dict(copy.deepcopy(corr))
                pl.apply(cr)
                got = {"group_by": list(cr.group_by), "alias": {r.reference: f for r, f in cr.aliases.aliases["al"].mapping.items()}, "condition": cr.condition.fieldref}
                dr = SigmaRule.from_dict(copy.deepcopy(det))
                pl.apply(dr)
                got["fields"] = list(dr.fields)
                flat = lambda d: [x for di in d.detection_items for x in (flat(di) if hasattr(di, "detection_items") else [di.field])]
                got["detection"] = flat(dr.detection.detections["sel"])
            except Exception as e:
                got = f"{type(e).__name__}: {e}"
            want = {"group_by": ["al", exp_name("m2", neg), exp_name("u3", neg)], "alias": {"ra": exp_name("m1", neg), "rb": exp_name("u4", neg)},
                    "condition": [exp_name(x, neg) for x in fr] if isinstance(fr, list) else exp_name(fr, neg), "fields": [exp_name("m1", neg), exp_name("u5", neg)], "detection": [exp_name("m2", neg), exp_name("u6", neg)]}
            if got != want:
                bad = got if isinstance(got, str) else {k: (got[k], want[k]) for k in want if got[k] != want[k]}
                sig = [neg, multi, fr, sorted([k, v[0]] for k, v in bad.items()) if isinstance(bad, dict) else "error"]
                hist_failing.append(sig)
                fail("applied-history" + (":known" if sig in KNOWN_H else ""), ("KNOWN-C13H " if sig in KNOWN_H else "") + f"pipeline map(m1->M1, m2->M2) then prefix P_ on the fields {'NOT ' if neg else ''}handled by map, condition field {fr}: (got, expected) {bad}", [neg, multi, fr])
        if _os.environ.get("C13_DUMP_H"):
            _json.dump(hist_failing, open(_os.environ["C13_DUMP_H"], "w"))
        return {"evaluations": ev, "distinct_nontrivial": nontriv, "failures": fails, "failure_counts": seen, "bound": "processing_item_applied history over 5 places of field names x 16 configurations; rule_attribute: 10 attributes x 2..6 values x 8 operators; 23 other rule conditions, 15 detection-item and 11 field-name conditions, each plain and negated",
                "rule": "distinct (condition, negation); every one is non-trivial", "samples": samples, "exhaustive": True}
