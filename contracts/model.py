"""Shared abstract model of pySigma value types used by the contracts.

SigmaString.s is modelled as a z3 sequence of the datatype
    Part = PStr(str: String) | PWM | PWS | PPH(name: String)
An element taken out of such a sequence is a union value (forced on use): a Python-level `str`, a SpecialChars member
or a Placeholder object, exactly the three part types the real class stores.
"""
from __future__ import annotations
import z3
from pyvc.values import *
from pyvc import ops

_Part = None


def PartSort():
    global _Part
    if _Part is None:
        d = z3.Datatype("Part")
        d.declare("PStr", ("str", z3.StringSort()))
        d.declare("PWM")
        d.declare("PWS")
        d.declare("PPH", ("name", z3.StringSort()))
        _Part = d.create()
    return _Part


PART = ("adt", "Part")


def install_part_adt(E):
    P = PartSort()
    idx = E.index
    SpecialChars = idx.lookup("sigma.types:SpecialChars")
    Placeholder = idx.lookup("sigma.types:Placeholder")

    def wrap(t):
        return SUnion([
            (P.is_PStr(t), Sym(P.str(t), "str")),
            (t == P.PWM, EnumVal(SpecialChars, "WILDCARD_MULTI")),
            (t == P.PWS, EnumVal(SpecialChars, "WILDCARD_SINGLE")),
            (P.is_PPH(t), SObj(Placeholder, {"name": Sym(P.name(t), "str")})),
        ])

    def unwrap(I, v):
        if isinstance(v, SUnion):
            # rebuild the term from the alternatives
            t = None
            for cond, x in reversed(v.alts):
                xt = unwrap(I, x)
                t = xt if t is None else z3.If(cond, xt, t)
            return t
        v = I.force(v)
        if ops.kind_of(v) == "str":
            return P.PStr(mk_str(v))
        if isinstance(v, EnumVal) and v.ecls is SpecialChars:
            return P.PWM if v.name == "WILDCARD_MULTI" else P.PWS
        if isinstance(v, SObj) and v.cls is Placeholder:
            return P.PPH(mk_str(v.fields["name"]))
        raise OutsideSubset(f"{v!r} is not a SigmaString part")
    ops.ADTS["Part"] = (P, wrap, unwrap)
    return P


def mk_sigma_string(I, name, cls="SigmaString"):
    """symbolic SigmaString object with an arbitrary part list"""
    P = PartSort()
    cinfo = I.E.index.lookup(f"sigma.types:{cls}")
    s = Sym(z3.Const(I.ctx.fresh_name(name + ".s"), z3.SeqSort(P)), "seq", PART)
    orig = Sym(z3.String(I.ctx.fresh_name(name + ".original")), "str")
    return SObj(cinfo, {"s": s, "original": orig})


# ------------------------------------------------------------------ abstract functions over part sequences
def fn(name, *sorts):
    return z3.Function(name, *sorts)


def parts_sort():
    return z3.SeqSort(PartSort())


def has_special(s):
    """some part is a SpecialChars member"""
    P = PartSort()
    return z3.Or(z3.Contains(s, z3.Unit(P.PWM)), z3.Contains(s, z3.Unit(P.PWS)))


def text_of(s):
    """literal text of a part list: str parts verbatim, wildcards as * and ?, placeholders as %name%  (= plain(regex=True) of C05)"""
    return fn("parts.plain", z3.BoolSort(), parts_sort(), z3.StringSort())(z3.BoolVal(True), s)


# ------------------------------------------------------------------ native twins (replay)
def native_sigma_string(parts):
    """build a real SigmaString from a model value of Seq(Part) (list of {'ctor':..., 'args': [...]})"""
    from sigma.types import SigmaString, SpecialChars, Placeholder
    out = []
    for p in parts:
        c = p["ctor"]
        out.append(p["args"][0] if c == "PStr" else SpecialChars.WILDCARD_MULTI if c == "PWM" else SpecialChars.WILDCARD_SINGLE if c == "PWS" else Placeholder(p["args"][0]))
    s = SigmaString()
    s.s = out
    return s


def native_text(parts):
    from sigma.types import SpecialChars, Placeholder
    return "".join(p if isinstance(p, str) else "*" if p is SpecialChars.WILDCARD_MULTI else "?" if p is SpecialChars.WILDCARD_SINGLE else f"%{p.name}%" for p in parts)


def utf8(t):
    return fn("utf8", z3.StringSort(), bytes_sort())(t)


def natoms(s):
    return fn("parts.natoms", parts_sort(), z3.IntSort())(s)


def part_lists(alphabet=("a", "*", "?", "\\", "\\*", "ä", "%", ""), specials=("PWM", "PWS"), max_len=3, placeholders=()):
    """all part lists up to max_len over str parts from `alphabet`, special parts and placeholders (model-value form)"""
    import itertools
    atoms = [{"ctor": "PStr", "args": [a]} for a in alphabet] + [{"ctor": c, "args": []} for c in specials] + [{"ctor": "PPH", "args": [n]} for n in placeholders]
    for n in range(max_len + 1):
        for combo in itertools.product(atoms, repeat=n):
            yield list(combo)
