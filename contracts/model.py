"""Shared abstract model of pySigma value types used by the contracts.

SigmaString.s is modelled as a z3 sequence of the datatype
    Part = PStr(str: String) | PWM | PWS | PPH(name: String)
An element taken out of such a sequence is a union value (forced on use): a Python-level `str`, a SpecialChars member
or a Placeholder object, exactly the three part types the real class stores.
"""
from __future__ import annotations
import z3
from pyvc.values import *
from pyvc import ops

_Part = None


def PartSort():
    global _Part
    if _Part is None:
        d = z3.Datatype("Part")
        d.declare("PStr", ("str", z3.StringSort()))
        d.declare("PWM")
        d.declare("PWS")
        d.declare("PPH", ("name", z3.StringSort()))
        _Part = d.create()
    return _Part


PART = ("adt", "Part")


def install_part_adt(E):
    P = PartSort()
    idx = E.index
    SpecialChars = idx.lookup("sigma.types:SpecialChars")
    Placeholder = idx.lookup("sigma.types:Placeholder")

    def wrap(t):
        return SUnion([
            (P.is_PStr(t), Sym(P.str(t), "str")),
            (t == P.PWM, EnumVal(SpecialChars, "WILDCARD_MULTI")),
            (t == P.PWS, EnumVal(SpecialChars, "WILDCARD_SINGLE")),
            (P.is_PPH(t), SObj(Placeholder, {"name": Sym(P.name(t), "str")})),
        ])

    def unwrap(I, v):
        if isinstance(v, SUnion):
            # rebuild the term from the alternatives
            t = None
            for cond, x in reversed(v.alts):
                xt = unwrap(I, x)
                t = xt if t is None else z3.If(cond, xt, t)
            return t
        v = I.force(v)
        if ops.kind_of(v) == "str":
            return P.PStr(mk_str(v))
        if isinstance(v, EnumVal) and v.ecls is SpecialChars:
            return P.PWM if v.name == "WILDCARD_MULTI" else P.PWS
        if isinstance(v, SObj) and v.cls is Placeholder:
            return P.PPH(mk_str(v.fields["name"]))
        raise OutsideSubset(f"{v!r} is not a SigmaString part")
    ops.ADTS["Part"] = (P, wrap, unwrap)
    return P


def mk_sigma_string(I, name, cls="SigmaString"):
    """symbolic SigmaString object with an arbitrary part list"""
    P = PartSort()
    cinfo = I.E.index.lookup(f"sigma.types:{cls}")
    s = Sym(z3.Const(I.ctx.fresh_name(name + ".s"), z3.SeqSort(P)), "seq", PART)
    orig = Sym(z3.String(I.ctx.fresh_name(name + ".original")), "str")
    return SObj(cinfo, {"s": s, "original": orig})


# ------------------------------------------------------------------ abstract functions over part sequences
def fn(name, *sorts):
    return z3.Function(name, *sorts)


def parts_sort():
    return z3.SeqSort(PartSort())


def has_special(s):
    """some part is a SpecialChars member"""
    P = PartSort()
    return z3.Or(z3.Contains(s, z3.Unit(P.PWM)), z3.Contains(s, z3.Unit(P.PWS)))


def text_of(s):
    """literal text of a part list: str parts verbatim, wildcards as * and ?, placeholders as %name%  (= plain(regex=True) of C05)"""
    return fn("parts.plain", z3.BoolSort(), parts_sort(), z3.StringSort())(z3.BoolVal(True), s)


# ------------------------------------------------------------------ native twins (replay)
def native_sigma_string(parts):
    """build a real SigmaString from a model value of Seq(Part) (list of {'ctor':..., 'args': [...]})"""
    from sigma.types import SigmaString, SpecialChars, Placeholder
    out = []
    for p in parts:
        c = p["ctor"]
        out.append(p["args"][0] if c == "PStr" else SpecialChars.WILDCARD_MULTI if c == "PWM" else SpecialChars.WILDCARD_SINGLE if c == "PWS" else Placeholder(p["args"][0]))
    s = SigmaString()
    s.s = out
    return s


def native_text(parts):
    from sigma.types import SpecialChars, Placeholder
    return "".join(p if isinstance(p, str) else "*" if p is SpecialChars.WILDCARD_MULTI else "?" if p is SpecialChars.WILDCARD_SINGLE else f"%{p.name}%" for p in parts)


def utf8(t):
    return fn("utf8", z3.StringSort(), bytes_sort())(t)


def natoms(s):
    return fn("parts.natoms", parts_sort(), z3.IntSort())(s)


def part_lists(alphabet=("a", "*", "?", "\\", "\\*", "ä", "%", ""), specials=("PWM", "PWS"), max_len=3, placeholders=()):
    """all part lists up to max_len over str parts from `alphabet`, special parts and placeholders (model-value form)"""
    import itertools
    atoms = [{"ctor": "PStr", "args": [a]} for a in alphabet] + [{"ctor": c, "args": []} for c in specials] + [{"ctor": "PPH", "args": [n]} for n in placeholders]
    for n in range(max_len + 1):
        for combo in itertools.product(atoms, repeat=n):
            yield list(combo)


# ------------------------------------------------------------------ atoms: the meaning of a Sigma string (C05 spec A.1)
_Atom = None


def AtomSort():
    global _Atom
    if _Atom is None:
        d = z3.Datatype("Atom")
        d.declare("Lit", ("ch", z3.StringSort()))      # one literal character
        d.declare("WM")
        d.declare("WS")
        d.declare("PH", ("name", z3.StringSort()))
        _Atom = d.create()
    return _Atom


def atoms_sort():
    return z3.SeqSort(AtomSort())


def lits(s):
    """Lit atom per character of s"""
    return fn("lits", z3.StringSort(), atoms_sort())(s)


def lits_nil():
    return lits(z3.StringVal("")) == z3.Empty(atoms_sort())


def lits_snoc(x, c):
    """definition of lits from the right: for a one-character string c"""
    return lits(z3.Concat(x, c)) == z3.Concat(lits(x), z3.Unit(AtomSort().Lit(c)))


def lits_one(c):
    return lits(c) == z3.Unit(AtomSort().Lit(c))


def part_atoms(p):
    P, A = PartSort(), AtomSort()
    return z3.If(P.is_PStr(p), lits(P.str(p)), z3.If(p == P.PWM, z3.Unit(A.WM), z3.If(p == P.PWS, z3.Unit(A.WS), z3.Unit(A.PH(P.name(p))))))


def atoms(ps):
    """atoms of a part list (abstraction function)"""
    return fn("atoms", parts_sort(), atoms_sort())(ps)


def atoms_nil():
    return atoms(z3.Empty(parts_sort())) == z3.Empty(atoms_sort())


def atoms_snoc(ps, p):
    return atoms(z3.Concat(ps, z3.Unit(p))) == z3.Concat(atoms(ps), part_atoms(p))


def atoms_cons(p, ps):
    return atoms(z3.Concat(z3.Unit(p), ps)) == z3.Concat(part_atoms(p), atoms(ps))


def sp(esc, s, escape):
    """Sigma source semantics: atoms denoted by the unread text s, given the escape state (spec A.1)"""
    return fn("sp", z3.BoolSort(), z3.StringSort(), z3.BoolSort(), atoms_sort())(esc, s, escape)


def sp_nil(esc, escape):
    A = AtomSort()
    return sp(esc, z3.StringVal(""), escape) == z3.If(esc, z3.Unit(A.Lit(z3.StringVal("\\"))), z3.Empty(atoms_sort()))


def sp_cons(esc, c, rest, escape):
    """defining equation for a one-character string c followed by rest"""
    A = AtomSort()
    S = z3.StringVal
    special = z3.Or(c == S("*"), c == S("?"), c == S("\\"))
    tail = sp(z3.BoolVal(False), rest, escape)
    rhs = z3.If(esc,
                z3.If(special, z3.Concat(z3.Unit(A.Lit(c)), tail), z3.Concat(z3.Unit(A.Lit(S("\\"))), z3.Unit(A.Lit(c)), tail)),
                z3.If(z3.And(c == S("\\"), escape), sp(z3.BoolVal(True), rest, escape),
                      z3.If(c == S("*"), z3.Concat(z3.Unit(A.WM), tail), z3.If(c == S("?"), z3.Concat(z3.Unit(A.WS), tail), z3.Concat(z3.Unit(A.Lit(c)), tail)))))
    return sp(esc, z3.Concat(c, rest), escape) == rhs


def sp_native(s, escape=True):
    """native twin of sp(False, s, escape): list of ('L', ch) | 'WM' | 'WS'"""
    out, esc = [], False
    for c in s:
        if esc:
            out += [("L", c)] if c in "*?\\" else [("L", "\\"), ("L", c)]
            esc = False
        elif c == "\\" and escape:
            esc = True
        elif c == "*":
            out.append("WM")
        elif c == "?":
            out.append("WS")
        else:
            out.append(("L", c))
    if esc:
        out.append(("L", "\\"))
    return out


def atoms_native(parts):
    from sigma.types import SpecialChars
    out = []
    for p in parts:
        if isinstance(p, str):
            out += [("L", c) for c in p]
        elif p is SpecialChars.WILDCARD_MULTI:
            out.append("WM")
        elif p is SpecialChars.WILDCARD_SINGLE:
            out.append("WS")
        else:
            out.append(("PH", p.name))
    return out
