"""C17 - placeholders expand completely or conversion fails; never emitted as text."""
from __future__ import annotations
import itertools, z3
from pyvc.api import *
from pyvc.values import *
from pyvc import ops
from . import model as M


def rep(name_t, k):
    return z3.Function("replacement", z3.StringSort(), z3.IntSort(), z3.StringSort())(name_t, z3.IntVal(k))


def mk_concrete_string(I, shape, tag="v"):
    """SigmaString with a concrete spine: shape is a string over S (text), W (wildcard), P (placeholder)"""
    SC = I.E.index.lookup("sigma.types:SpecialChars")
    PH = I.E.index.lookup("sigma.types:Placeholder")
    parts, toks = [], []
    for i, k in enumerate(shape):
        if k == "S":
            t = I.fresh(f"{tag}.s{i}", "str")
            I.ctx.assume(z3.Length(t.t) > 0)
            parts.append(t)
            toks.append(("S", t.t))
        elif k == "W":
            parts.append(EnumVal(SC, "WILDCARD_MULTI"))
            toks.append(("W",))
        else:
            n = I.fresh(f"{tag}.ph{i}", "str")
            parts.append(SObj(PH, {"name": n}))
            toks.append(("P", n.t))
    return SObj(I.E.index.lookup("sigma.types:SigmaString"), {"s": parts, "original": ""}), toks


def tokens_of(I, sobj):
    out = []
    for p in sobj.fields["s"]:
        p = I.force(p)
        if ops.kind_of(p) == "str":
            out.append(("S", mk_str(p)))
        elif isinstance(p, EnumVal):
            out.append(("W",) if p.name == "WILDCARD_MULTI" else ("Q",))
        elif isinstance(p, SObj) and getattr(p.cls, "name", "") == "Placeholder":
            out.append(("P", mk_str(p.fields["name"])))
        else:
            raise OutsideSubset(f"unexpected part {p!r}")
    return out


def norm(toks):
    out = []
    for t in toks:
        if t[0] == "S" and out and out[-1][0] == "S":
            out[-1] = ("S", z3.Concat(out[-1][1], t[1]))
        else:
            out.append(t)
    return out


def expand_spec(toks, nrep=2):
    for i, t in enumerate(toks):
        if t[0] == "P":
            res = []
            for k in range(nrep):
                for suf in expand_spec(toks[i + 1:], nrep):
                    res.append(list(toks[:i]) + [("S", rep(t[1], k))] + suf)
            return res
    return [list(toks)]


def toks_equal(a, b):
    a, b = norm(a), norm(b)
    if len(a) != len(b) or any(x[0] != y[0] for x, y in zip(a, b)):
        return False
    conds = [x[1] == y[1] for x, y in zip(a, b) if len(x) > 1]
    return z3.And(*conds) if conds else True


SHAPES = tuple("".join(t) for n in range(0, 4) for t in itertools.product("SWP", repeat=n) if not any(a == b == "S" for a, b in zip(t, t[1:])))


@register
class ReplacePlaceholders(Contract):
    """the list of all combinations, first placeholder outermost, in callback order; nothing else changes"""
    id = "C17.SigmaString.replace_placeholders"
    target = "sigma.types:SigmaString.replace_placeholders"
    props = ("C17",)
    cases = SHAPES + tuple("cased:" + s for s in ("P", "SP", "PS", "SPS", "PWP"))
    assumed = ["part lists unrolled: all shapes of <= 3 parts over text / wildcard / placeholder with symbolic contents; two replacement values per placeholder",
               "replacement values are non-empty texts"]

    def args(self, I, case):
        cased = case.startswith("cased:")
        me, toks = mk_concrete_string(I, case.split(":")[-1])
        if cased:            # a case-sensitive string: every result is case-sensitive too
            me = SObj(I.E.index.lookup("sigma.types:SigmaCasedString"), dict(me.fields))

        def cb(I2, a, k):
            p = a[0]
            out = []
            for j in range(2):
                r = Sym(rep(mk_str(p.fields["name"]), j), "str")
                I2.ctx.assume(z3.Length(r.t) > 0)
                out.append(r)
            return out
        return {"self": me, "args": [NativeFn("callback", cb)], "toks": toks, "case": case}

    def post(self, I, inp, r):
        c = I.ctx
        want = expand_spec(inp["toks"])
        ok = isinstance(r, list) and len(r) == len(want)
        c.require(ok, f"number of results == product of the replacement counts ({len(want)})")
        if ok:
            for j, (got, w) in enumerate(zip(r, want)):
                c.require(ops.mk_bool_term(toks_equal(tokens_of(I, got), w)), f"result {j} == prefix + replacement + expanded suffix (combination order: first placeholder outermost)")
                c.require(not any(t[0] == "P" for t in tokens_of(I, got)), f"result {j} contains no placeholder that the callback replaced")
                c.require(isinstance(got, SObj) and getattr(got.cls, "name", None) == getattr(inp["self"].cls, "name", None), f"result {j} has the class of the string (a case-sensitive string stays case-sensitive)")

    def frame_ok(self, I, inp, obj, name):
        return obj is not inp["self"]


def mk_mixin(I, clsq, include, exclude, extra=None):
    f = {"include": include, "exclude": exclude}
    f.update(extra or {})
    return SObj(I.E.index.lookup(clsq), f, lazy=True)


def name_list(I, tag, n):
    return [I.fresh(f"{tag}{i}", "str") for i in range(n)]


@register
class IsHandledPlaceholder(Contract):
    id = "C17.PlaceholderIncludeExcludeMixin.is_handled_placeholder"
    target = "sigma.processing.transformations.placeholder:PlaceholderIncludeExcludeMixin.is_handled_placeholder"
    props = ("C17",)
    cases = tuple((i, e) for i in (None, 0, 1, 2) for e in (None, 0, 1, 2) if i is None or e is None)
    assumed = ["include / exclude lists unrolled to <= 2 names; not both given (check_exclusivity)"]

    def args(self, I, case):
        ni, ne = case
        inc = None if ni is None else name_list(I, "inc", ni)
        exc = None if ne is None else name_list(I, "exc", ne)
        p = SObj(I.E.index.lookup("sigma.types:Placeholder"), {"name": I.fresh("name", "str")})
        return {"self": mk_mixin(I, "sigma.processing.transformations.placeholder:PlaceholderIncludeExcludeMixin", inc, exc), "args": [p], "inc": inc, "exc": exc, "p": p}

    def post(self, I, inp, r):
        n = inp["p"].fields["name"].t
        if inp["inc"] is not None:
            spec = ops.mk_or([n == x.t for x in inp["inc"]])
        elif inp["exc"] is not None:
            spec = z3.Not(ops.mk_or([n == x.t for x in inp["exc"]]))
        else:
            spec = z3.BoolVal(True)
        I.ctx.require(ops.mk_bool_term(ops.truth(I, r)) == spec, "handled iff (no lists) or (name on the include list) or (name not on the exclude list)")

    def frame_ok(self, I, inp, obj, name):
        return False


@register
class ReplacementsBase(Contract):
    """handled placeholders are replaced by what the transformation configures NOW (the pipeline's current variables); unhandled ones
    are passed through unchanged"""
    id = "C17.BasePlaceholderTransformation.placeholder_replacements_base"
    target = "sigma.processing.transformations.placeholder:BasePlaceholderTransformation.placeholder_replacements_base"
    props = ("C17", "C15")
    cases = ("handled", "unhandled")

    def setup(self, E):
        E.summaries["sigma.processing.transformations.base:ValueTransformation.__post_init__"] = lambda I, so, a, k: None
        E.summaries["sigma.processing.transformations.placeholder:WildcardPlaceholderTransformation.placeholder_replacements"] = \
            lambda I, so, a, k: [Sym(z3.Function("configured", z3.IntSort(), z3.StringSort(), z3.StringSort())(z3.IntVal(so.ghost["vars_version"]), mk_str(a[0].fields["name"])), "str")]

    def args(self, I, case):
        T = I.E.index.lookup("sigma.processing.transformations.placeholder:WildcardPlaceholderTransformation")
        me = I.instantiate(T, [], {})
        me.born = None
        me.fields["include"] = None if case == "handled" else ["other"]
        me.ghost["vars_version"] = 1
        p = SObj(I.E.index.lookup("sigma.types:Placeholder"), {"name": "ph"})
        return {"self": me, "args": [p], "p": p, "case": case}

    def before(self, I, inp):
        # history: the same transformation object resolved the same placeholder name earlier, under another variable table
        me = inp["self"]
        me.ghost["vars_version"] = 0
        p0 = SObj(I.E.index.lookup("sigma.types:Placeholder"), {"name": "ph"})
        I.call_function(I.E.index.lookup(self.target), me, [p0], {})
        me.ghost["vars_version"] = 1

    def post(self, I, inp, r):
        c = I.ctx
        ok = isinstance(r, list) and len(r) == 1
        c.require(ok, "yields one sequence of replacements")
        if ok:
            if inp["case"] == "handled":
                c.require(isinstance(r[0], Sym) and z3.eq(r[0].t, z3.Function("configured", z3.IntSort(), z3.StringSort(), z3.StringSort())(z3.IntVal(1), z3.StringVal("ph"))),
                          "replacements are the ones configured for the current variable table")
            else:
                c.require(r[0] is inp["p"], "an unhandled placeholder is passed through unchanged")

    def frame_ok(self, I, inp, obj, name):
        return False


@register
class ValueListReplacements(Contract):
    id = "C17.ValueListPlaceholderTransformation.placeholder_replacements"
    target = "sigma.processing.transformations.placeholder:ValueListPlaceholderTransformation.placeholder_replacements"
    props = ("C17", "C14", "C15")
    cases = ("missing", "no_pipeline", "empty", "scalar", "list2", "bad_type", "scalar_after_history", "missing_after_history")
    assumed = ["history cases: the same item resolved the same placeholder before, while it belonged to another pipeline (p1 + p2 hands the items to the new pipeline) with another value of the variable"]

    def setup(self, E):
        E.summaries["sigma.types:SigmaString"] = lambda I, so, a, k: SObj("SigmaStringOf", {"src": a[0]})

    def args(self, I, case):
        T = I.E.index.lookup("sigma.processing.transformations.placeholder:ValueListPlaceholderTransformation")
        v0, v1 = I.fresh("v0", "str"), I.fresh("v1", "int")
        vars_ = {"missing": {}, "empty": {"ph": []}, "scalar": {"ph": v0}, "list2": {"ph": [v0, v1]}, "bad_type": {"ph": [v0, None]}, "scalar_after_history": {"ph": v0}, "missing_after_history": {}}.get(case, {})
        pipe = None if case == "no_pipeline" else SObj("Pipeline", {"vars": vars_})
        me = SObj(T, {"_pipeline": pipe, "include": None, "exclude": None}, lazy=True)
        p = SObj(I.E.index.lookup("sigma.types:Placeholder"), {"name": "ph"})
        return {"self": me, "args": [p], "case": case.replace("_after_history", ""), "v": [v0, v1], "history": case.endswith("_after_history"), "pipe": pipe}

    def before(self, I, inp):
        if inp["history"]:
            me = inp["self"]
            me.fields["_pipeline"] = SObj("Pipeline", {"vars": {"ph": [I.fresh("old_value", "str")]}})
            I.call_function(I.E.index.lookup(self.target), me, [SObj(I.E.index.lookup("sigma.types:Placeholder"), {"name": "ph"})], {})
            me.fields["_pipeline"] = inp["pipe"]

    def post(self, I, inp, r):
        c, case, v = I.ctx, inp["case"], inp["v"]
        c.require(case in ("scalar", "list2"), "replacements are produced only for a non-empty table of strings / numbers")
        want = [v[0]] if case == "scalar" else [v[0], v[1]]
        ok = isinstance(r, list) and len(r) == len(want)
        c.require(ok, "one replacement per configured value")
        if ok:
            for got, w in zip(r, want):
                src = got.fields.get("src") if isinstance(got, SObj) else None
                c.require(ops.mk_bool_term(ops.py_eq(I, src, ops.to_str(I, w))), "replacements are the configured values, in configuration order")

    def raises(self, I, inp, exc):
        I.ctx.require(exc_is(I, exc, "SigmaValueError") and inp["case"] in ("missing", "no_pipeline", "empty", "bad_type"),
                      f"SigmaValueError exactly for a missing variable, missing pipeline, empty table or a value that is not a string / number (got {exc_name(exc)} in case {inp['case']})", kind="SAFE")

    def frame_ok(self, I, inp, obj, name):
        return False


# ----------------------------------------------------------------------------------------------- rendering guard of regular expressions
def no_ph(ps):
    return z3.Function("no_placeholder", M.parts_sort(), z3.BoolSort())(ps)


class EscapeGuardLoop(LoopSpec):
    modifies = {}

    def inv(self, I, env, done, rest, total):
        return [("no placeholder among the parts inspected so far", no_ph(done))]

    def hints(self, I, env, phase, x, done, rest2, total):
        P = M.PartSort()
        if phase == "entry":
            return [no_ph(z3.Empty(M.parts_sort()))]
        if phase == "pre":
            return [no_ph(z3.Concat(done, z3.Unit(x))) == z3.And(no_ph(done), z3.Not(P.is_PPH(x)))]
        return []


@register
class RegexEscapeGuard(Contract):
    """the text-producing part of SigmaRegularExpression.escape is reached only for a regular expression without placeholder parts;
    otherwise SigmaPlaceholderError"""
    id = "C17.SigmaRegularExpression.escape.guard"
    target = "sigma.types:SigmaRegularExpression.escape"
    props = ("C17",)
    assumed = ["the rendering itself (re.escape / re.finditer / join) is not modelled: the path ends at the first of these calls (dominance obligation)"]

    def setup(self, E):
        M.install_part_adt(E)
        E.loop_invariants[(self.target, 0)] = EscapeGuardLoop()

        def first_text_call(I, a, k):
            I.ctx.require(no_ph(I.E._c17_parts), "rendering is dominated by the placeholder guard", kind="FRAME")
            raise PathEnd()
        E.externals["re.escape"] = first_text_call
        E.externals["re.finditer"] = first_text_call

    def args(self, I):
        rx = M.mk_sigma_string(I, "regexp")
        I.E._c17_parts = rx.fields["s"].t
        me = SObj(I.E.index.lookup("sigma.types:SigmaRegularExpression"), {"regexp": rx, "flags": set()}, lazy=True)
        return {"self": me, "args": [("x",)], "rx": rx}

    def post(self, I, inp, r):
        I.ctx.require(False, "escape() returns without passing the guard obligation")

    def raises(self, I, inp, exc):
        I.ctx.require(exc_is(I, exc, "SigmaPlaceholderError"), f"only SigmaPlaceholderError (got {exc_name(exc)})", kind="SAFE")

    def frame_ok(self, I, inp, obj, name):
        return False


@register
class QueryExpressionPlaceholder(Contract):
    """query_expression_placeholders: a value consisting of exactly one placeholder that this item handles (include / exclude list) becomes
    the query expression with the mapped identifier; an unhandled placeholder is left alone; a placeholder mixed with other parts is an
    error; values without placeholders are left alone"""
    id = "C17.QueryExpressionPlaceholderTransformation.apply_string_value"
    target = "sigma.processing.transformations.placeholder:QueryExpressionPlaceholderTransformation.apply_string_value"
    props = ("C17", "C12")
    cases = tuple((shape, flt) for shape in ("p", "ps", "sp", "s", "") for flt in ("none", "include", "exclude"))
    assumed = ["SigmaQueryExpression constructor abstract; include / exclude lists of one (symbolic) name, unrolled"]

    def setup(self, E):
        E.summaries["sigma.types:SigmaQueryExpression"] = lambda I, so, a, k: SObj("QE", {"a": list(a), "k": dict(k)})

    def args(self, I, case):
        shape, flt = case
        idx = I.E.index
        P = idx.lookup("sigma.types:Placeholder")
        name = I.fresh("placeholder_name", "str")
        parts = [SObj(P, {"name": name}) if ch == "p" else I.fresh(f"text{i}", "str") for i, ch in enumerate(shape)]
        val = SObj(idx.lookup("sigma.types:SigmaString"), {"s": parts}, lazy=True)
        listed = I.fresh("listed_name", "str")
        mapped = I.fresh("mapped_identifier", "str")
        I.ctx.assume(z3.Length(mapped.t) > 0)
        me = SObj(idx.lookup("sigma.processing.transformations.placeholder:QueryExpressionPlaceholderTransformation"),
                  {"include": [listed] if flt == "include" else None, "exclude": [listed] if flt == "exclude" else None, "expression": I.fresh("expression", "str"),
                   "mapping": {name: mapped} if flt != "none" else {}}, lazy=True)
        return {"self": me, "args": [I.fresh("field", "str"), val], "name": name, "listed": listed, "mapped": mapped, "case": case}

    def handled(self, inp):
        shape, flt = inp["case"]
        same = inp["name"].t == inp["listed"].t
        return z3.BoolVal(True) if flt == "none" else same if flt == "include" else z3.Not(same)

    def post(self, I, inp, r):
        shape, flt = inp["case"]
        c = I.ctx
        if shape in ("s", ""):
            c.require(r is None, "a value without placeholder is left alone")
        elif shape == "p":
            if r is None:
                c.require(z3.Not(self.handled(inp)), "a placeholder this item handles is replaced")
            else:
                ok = isinstance(r, SObj) and r.cls == "QE"
                c.require(ok, "a query expression (or None) is returned")
                if ok:
                    c.require(self.handled(inp), "a placeholder this item does not handle (include / exclude list) is left alone")
                    a = r.fields["a"]
                    c.require(len(a) == 2 and a[0] is inp["self"].fields["expression"], "the configured expression is used")
                    want = inp["mapped"] if flt != "none" else inp["name"]
                    c.require(len(a) == 2 and a[1] is want, "the identifier is the mapped one, or the placeholder name without mapping")
        elif r is None:
            c.require(z3.Not(self.handled(inp)), "a handled placeholder mixed with other parts is rejected, not skipped")
        else:
            c.require(False, "a placeholder mixed with other parts is never turned into a query expression")

    def raises(self, I, inp, exc):
        shape, flt = inp["case"]
        I.ctx.require(exc_is(I, exc, "SigmaValueError") and shape in ("ps", "sp"), f"SigmaValueError exactly for a placeholder mixed with other parts (got {exc_name(exc)})", kind="SAFE")

    def frame_ok(self, I, inp, obj, name):
        return False


@register
class RegexFlagModifierKeepsParts(Contract):
    """SigmaRegularExpressionFlagModifier.modify (i / m / s after re, possibly after expand): the result is a regular expression with the
    PARTS of the given one - placeholders inserted by an earlier expand are still placeholders - and with the flag added to its flags"""
    id = "C17.SigmaRegularExpressionFlagModifier.modify"
    target = "sigma.modifiers:SigmaRegularExpressionFlagModifier.modify"
    props = ("C17", "C03")
    cases = ("i", "m", "s")
    assumed = ["pattern of three parts text / placeholder / text; the set of flags it had before is symbolic-free (empty or one other flag)",
               "a SigmaString built from text is abstract (its parts are a function of that text: no Placeholder objects, C17 / C04 contracts); re.compile accepts the pattern"]

    def setup(self, E):
        E.summaries["sigma.types:SigmaString"] = lambda I, so, a, k: SObj("NewSigmaString", {"s": [("parsed", a[0] if a else "")], "__str__": NativeFn("__str__", lambda I2, a2, k2: a[0] if a else "")})
        E.summaries["sigma.types:SigmaRegularExpression.compile"] = lambda I, so, a, k: None

    def args(self, I, case):
        idx = I.E.index
        F = idx.lookup("sigma.types:SigmaRegularExpressionFlag")
        flag = ops.getattr_(I, ClassRef(F), {"i": "IGNORECASE", "m": "MULTILINE", "s": "DOTALL"}[case], None)
        other = ops.getattr_(I, ClassRef(F), {"i": "MULTILINE", "m": "DOTALL", "s": "IGNORECASE"}[case], None)
        ph = SObj(idx.lookup("sigma.types:Placeholder"), {"name": I.fresh("name", "str")})
        parts = [I.fresh("pre", "str"), ph, I.fresh("post", "str")]
        pat = SObj(idx.lookup("sigma.types:SigmaString"), {"s": list(parts), "original": I.fresh("orig", "str")}, lazy=True)
        pat.fields["__str__"] = NativeFn("__str__", lambda I2, a, k: I2.fresh("flattened text (placeholders become %name%)", "str"))
        val = SObj(idx.lookup("sigma.types:SigmaRegularExpression"), {"regexp": pat, "flags": {other}}, lazy=True)
        cname = {"i": "SigmaRegularExpressionIgnoreCaseFlagModifier", "m": "SigmaRegularExpressionMultilineFlagModifier", "s": "SigmaRegularExpressionDotAllFlagModifier"}[case]
        me = SObj(idx.lookup(f"sigma.modifiers:{cname}"), {}, lazy=True)
        return {"self": me, "args": [val], "val": val, "parts": parts, "flag": flag, "other": other, "pat": pat}

    def post(self, I, inp, r):
        c = I.ctx
        ok = isinstance(r, SObj) and getattr(r.cls, "name", None) == "SigmaRegularExpression"
        c.require(ok, "a regular expression is returned")
        if not ok:
            return
        rp = r.fields.get("regexp")
        got = rp.fields.get("s") if isinstance(rp, SObj) else None
        c.require(isinstance(got, list) and len(got) == 3 and all(a is b for a, b in zip(got, inp["parts"])), "the pattern keeps its parts: a placeholder stays a placeholder (it is not flattened to the text %name%)")
        fl = r.fields.get("flags")
        c.require(isinstance(fl, set) and fl == {inp["flag"], inp["other"]}, "flags: the ones it had plus the modifier's flag")

    def frame_ok(self, I, inp, obj, name):
        return obj is inp["val"] and name == "flags"

    def candidates(self):
        return ({"chain": f"re|expand|{fl}", "text": t} for fl in ("i", "m", "s", "i|m") for t in ("a%x%b", "%x%", "^%x%.*%y%$"))

    def replay(self, values):
        """the real modifier chain on a real detection item: the regular expression still holds Placeholder parts after the flag modifier"""
        if "chain" not in values:
            return None
        from sigma.rule import SigmaDetectionItem
        from sigma.types import Placeholder
        item = SigmaDetectionItem.from_mapping("f|" + values["chain"], values["text"])
        n = sum(isinstance(p, Placeholder) for v in item.value for p in v.regexp.s)
        want = values["text"].count("%") // 2
        return None if n == want else f"f|{values['chain']}: {values['text']!r} has {n} placeholder parts after the modifier chain, {want} expected (parts {[v.regexp.s for v in item.value]})"


@register
class RegexEscapePlaceholder(Contract):
    """SigmaRegularExpression.escape - the last step before a regular expression becomes query text: a regular expression that still holds
    a placeholder is never rendered, whatever the escaping configuration of the backend (nothing to escape, no escape of the escape
    character, flags or not) and wherever the placeholder sits"""
    id = "C17.SigmaRegularExpression.escape[placeholder]"
    target = "sigma.types:SigmaRegularExpression.escape"
    props = ("C17", "C05")
    cases = tuple((esc, eec, fp, pos, flags) for esc in ((), ("/",), ("/", "bar")) for eec in (False, True) for fp in (False, True) for pos in ("first", "middle", "last", "only") for flags in (False, True))
    assumed = ["str(SigmaString), re.escape, re.finditer are abstract (the error must come before any text is produced)"]

    def setup(self, E):
        E.summaries["sigma.types:SigmaString.__str__"] = lambda I, so, a, k: I.fresh("plain_text", "str")

    def args(self, I, case):
        esc, eec, fp, pos, flags = case
        idx = I.E.index
        ph = SObj(idx.lookup("sigma.types:Placeholder"), {"name": I.fresh("name", "str")})
        parts = {"first": [ph, "bar.*"], "middle": ["foo", ph, "bar.*"], "last": ["foo", ph], "only": [ph]}[pos]
        rx = SObj(idx.lookup("sigma.types:SigmaString"), {"s": parts}, lazy=True)
        me = SObj(idx.lookup("sigma.types:SigmaRegularExpression"), {"regexp": rx, "flags": ({EnumVal(idx.lookup("sigma.types:SigmaRegularExpressionFlag"), "IGNORECASE")} if flags else set())}, lazy=True)
        return {"self": me, "args": [list(esc), "\\", eec, fp]}

    def post(self, I, inp, r):
        I.ctx.require(False, "a regular expression with an unhandled placeholder is not rendered (SigmaPlaceholderError)")

    def raises(self, I, inp, exc):
        I.ctx.require(exc_is(I, exc, "SigmaPlaceholderError"), f"SigmaPlaceholderError (got {exc_name(exc)})")

    def frame_ok(self, I, inp, obj, name):
        return False

    def candidates(self):
        return iter(({"escaped": [], "escape_escape_char": False}, {"escaped": ["/"], "escape_escape_char": True}))

    def replay(self, values):
        if "escaped" not in values:
            return None
        from sigma.types import SigmaRegularExpression, SigmaString
        from sigma.exceptions import SigmaPlaceholderError
        rx = SigmaRegularExpression(SigmaString("foo%user%bar.*").insert_placeholders())
        try:
            out = rx.escape(values["escaped"], "\\", values["escape_escape_char"], True)
        except SigmaPlaceholderError:
            return None
        return f"regular expression foo%user%bar.* with the placeholder user unresolved, escape(escaped={values['escaped']}, escape_escape_char={values['escape_escape_char']}) renders {out!r}"


@register
class JqResultsToValues(Contract):
    """ExternalSourceBaseTransformation._jq_results_to_values (json / yaml sources of the file / http / command placeholder items): every
    scalar the expression selects becomes a replacement value - also 0, false and the empty text; only null is skipped; a container is a
    configuration error ("exactly the configured replacements")"""
    id = "C17.ExternalSourceBaseTransformation._jq_results_to_values"
    target = "sigma.processing.transformations.external:ExternalSourceBaseTransformation._jq_results_to_values"
    props = ("C17", "C12")
    cases = ("falsy scalars", "mixed", "only null", "empty", "container")
    DATA = {"falsy scalars": [0, False, "", 0.0], "mixed": ["a", 0, None, 22, "", 443, None, True, 1.5], "only null": [None, None], "empty": [], "container": ["a", {"k": 1}]}

    def args(self, I, case):
        return {"self": ClassRef(I.E.index.lookup("sigma.processing.transformations.external:ExternalSourceBaseTransformation")), "args": [list(self.DATA[case])], "case": case}

    def post(self, I, inp, r):
        case = inp["case"]
        I.ctx.require(case != "container", "a selected container is rejected")
        want = [str(v) for v in self.DATA[case] if v is not None]
        got = [I.force(x) for x in (r if isinstance(r, list) else I.force(r))]
        I.ctx.require(got == want, f"one value per selected scalar, in order, nothing but null skipped: {want} (got {got})")

    def raises(self, I, inp, exc):
        I.ctx.require(inp["case"] == "container" and exc_is(I, exc, "SigmaConfigurationError"), f"SigmaConfigurationError exactly for a container (got {exc_name(exc)})")

    def frame_ok(self, I, inp, obj, name):
        return False

    def replay(self, values):
        from sigma.processing.transformations.external import ExternalSourceBaseTransformation
        got = ExternalSourceBaseTransformation._jq_results_to_values(["a", 0, None, False, ""])
        return None if got == ["a", "0", "False", ""] else f"_jq_results_to_values(['a', 0, None, False, '']) == {got}, expected ['a', '0', 'False', '']"
