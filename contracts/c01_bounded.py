"""C01 bounded stand-in (decisive for the target-language reader L3 and the not-equals mode): real rules converted by a backend with
delimiter-structured templates under many configurations; the query is read back by an independent precedence-aware reader for that
configuration and compared, as a boolean function over canonical atoms (field, match kind, pattern), with the meaning of the rule document."""
from __future__ import annotations
import itertools, re, copy
from pyvc.api import *
from . import model as M
from .c02_bounded import Ref, tokenize as cond_tokenize

WM, WS = "WM", "WS"


def canon_pattern(kind, atoms):
    a = list(atoms)
    if kind in ("sw", "ct") and a[-1:] != [WM]:
        a = a + [WM]
    if kind in ("ew", "ct") and a[:1] != [WM]:
        a = [WM] + a
    return tuple(a)


def dec_value(text, special=True):
    """reader of a quoted value of the structured backend: "..." with \\ escaping, * and ? wildcards (special=False: the operand of a
    startswith / endswith / contains operator, which takes its text literally - the backend leaves *_expression_allow_special off)"""
    if len(text) >= 2 and text[0] == '"' and text[-1] == '"':
        text = text[1:-1]
    out, i = [], 0
    while i < len(text):
        c = text[i]
        if c == "\\" and i + 1 < len(text):
            out.append(("L", text[i + 1]))
            i += 2
        elif not special:
            out.append(("L", c))
            i += 1
        elif c == "*":
            out.append(WM)
            i += 1
        elif c == "?":
            out.append(WS)
            i += 1
        else:
            out.append(("L", c))
            i += 1
    return out


def atom_of_query(tok):
    """<field|kind|value> -> canonical atom (field, negated?, cased?, kind, pattern)"""
    body = tok[1:-1]
    field, kind, *rest = body.split("|", 2)
    val = rest[0] if rest else ""
    neg = kind in ("neq", "nsw", "new", "nct", "nre", "ncidr", "neq_cs", "nsw_cs", "new_cs", "nct_cs")
    if neg:
        kind = kind[1:]
    cased = kind.endswith("_cs")
    if cased:
        kind = kind[:-3]
    if kind in ("eq", "sw", "ew", "ct"):
        return neg, ("str", field, cased, canon_pattern(kind, dec_value(val, special=(kind == "eq"))))
    if kind == "num":
        return neg, ("num", field, val)
    if kind == "re":
        return neg, ("re", field, val)
    if kind == "cidr":
        return neg, ("cidr", field, val)
    if kind == "null":
        return neg, ("null", field)
    if kind == "exists":
        return neg, ("exists", field)
    if kind == "notexists":
        return (not neg), ("exists", field)
    raise ValueError(tok)


def read_query(q, precedence):
    """independent reader of the target language: atoms <...>, in-lists <f|in|..>, parentheses, not/and/or with the given precedence
    (tuple of operator names, tightest first)"""
    toks = re.findall(r"<[^<>]*>|[A-Za-z0-9_]+\|n?eq\|-?[0-9.]+|\(|\)|\band\b|\bor\b|\bnot\b", q)
    if "".join(toks).replace(" ", "") != re.sub(r"\s+", "", q):
        raise ValueError(f"unreadable query text: {q!r}")
    level = {op: i for i, op in enumerate(precedence)}       # smaller = binds tighter
    pos = [0]

    def peek():
        return toks[pos[0]] if pos[0] < len(toks) else None

    def eat():
        pos[0] += 1
        return toks[pos[0] - 1]

    def atom():
        t = eat()
        if t == "(":
            e = expr(10)
            assert eat() == ")"
            return e
        if t == "not":
            return ("not", expr(level["not"]))
        m = re.match(r"<([^|]*)\|(in|allin)\|(.*)>$", t)
        if m:
            vals = [v for v in m.group(3).split(";") if v != ""]
            items = []
            for v in vals:
                if v.startswith('"'):
                    items.append(("atom", (False, ("str", m.group(1), False, canon_pattern("eq", dec_value(v))))))
                else:
                    items.append(("atom", (False, ("num", m.group(1), v))))
            e = items[0]
            for x in items[1:]:
                e = ("or" if m.group(2) == "in" else "and", e, x)
            return e
        m = re.match(r"([A-Za-z0-9_]+)\|(n?)eq\|(-?[0-9.]+)$", t)
        if m:
            return ("atom", (m.group(2) == "n", ("num", m.group(1), m.group(3))))
        return ("atom", atom_of_query(t))

    def expr(max_level):
        l = atom()
        while peek() in ("and", "or") and level[peek()] <= max_level:
            op = eat()
            r = expr(level[op] - 0.5)      # left associative: the right operand binds strictly tighter
            l = (op, l, r)
        return l
    e = expr(10)
    if pos[0] != len(toks):
        raise ValueError(f"trailing tokens in {q!r}")
    return e


def ev(e, env):
    k = e[0]
    if k == "atom":
        neg, a = e[1]
        return env[a] != neg
    if k == "not":
        return not ev(e[1], env)
    if k == "and":
        return ev(e[1], env) and ev(e[2], env)
    return ev(e[1], env) or ev(e[2], env)


def collect(e, acc):
    if e[0] == "atom":
        acc.add(e[1][1])
    else:
        for x in e[1:]:
            collect(x, acc)


# ------------------------------------------------------------------------------------------------ meaning of a rule document
def item_sem(key, val):
    field, *mods = key.split("|") if key else (None,)
    field = field or "_"
    vals = val if isinstance(val, list) else [val]
    linking = "and" if "all" in mods else "or"
    out = []
    kind = "eq"
    for m in mods:
        kind = {"contains": "ct", "startswith": "sw", "endswith": "ew"}.get(m, kind)
    if "windash" in mods or "base64offset" in mods:
        # expansions: the OR of the expanded values (specification functions of C03 / C04)
        from .c03_bounded import windash as spec_windash
        from .c04 import b64offset_oracle
        alts = []
        for v in vals:
            if "windash" in mods:
                alts += [x[1] for x in spec_windash(M.sp_native(str(v)))]
            else:
                alts += [[("L", c) for c in t] for t in b64offset_oracle(str(v).encode())]
        es = [("atom", (False, ("str", field, False, canon_pattern(kind, list(a))))) for a in alts]
        e = es[0]
        for x in es[1:]:
            e = ("or", e, x)
        return ("not", e) if "neq" in mods else e
    for v in vals:
        if v is None:
            a = ("atom", (False, ("null", field)))
        elif "exists" in mods:
            a = ("atom", (not v, ("exists", field)))
        elif "re" in mods:
            a = ("atom", (False, ("re", field, v)))
        elif "cidr" in mods and NATIVE_CIDR[0]:
            a = ("atom", (False, ("cidr", field, v)))
        elif "cidr" in mods:
            import ipaddress
            net = ipaddress.ip_network(v)
            d = (8 - net.prefixlen % 8) % 8
            pats = []
            for sub in net.subnets(prefixlen_diff=d):
                g = sub.prefixlen // 8
                o = str(sub.network_address).split(".")
                pats.append("*" if g == 0 else str(sub.network_address) if g == 4 else ".".join(o[:g]) + ".*")
            es = [("atom", (False, ("str", field, False, canon_pattern("eq", M.sp_native(p))))) for p in pats]
            a = es[0]
            for x in es[1:]:
                a = ("or", a, x)
        elif isinstance(v, (int, float)) and not isinstance(v, bool):
            a = ("atom", (False, ("num", field, str(v))))
        else:
            a = ("atom", (False, ("str", field, "cased" in mods, canon_pattern(kind, M.sp_native(str(v))))))
        out.append(a)
    if not out:
        e = ("atom", (False, ("null", field)))
    else:
        e = out[0]
        for x in out[1:]:
            e = (linking, e, x)
    if "neq" in mods:
        e = ("not", e)
    return e


def det_sem(d):
    if isinstance(d, dict):
        es = [item_sem(k, v) for k, v in d.items()]
        e = es[0]
        for x in es[1:]:
            e = ("and", e, x)
        return e
    if isinstance(d, list):
        if all(not isinstance(x, (dict, list)) for x in d):
            return item_sem("", d)
        es = [det_sem(x) for x in d]
        e = es[0]
        for x in es[1:]:
            e = ("or", e, x)
        return e
    return item_sem("", [d])


def rule_sem(doc, cond):
    names = [n for n in doc["detection"] if n != "condition"]
    ref = Ref(cond_tokenize(cond), names).parse_or()

    def go(e):
        k = e[0]
        if k == "id":
            return det_sem(doc["detection"][e[1]])
        if k == "not":
            return ("not", go(e[1]))
        if k in ("and", "or"):
            return (k, go(e[1]), go(e[2]))
        es = [det_sem(doc["detection"][n]) for n in e[2]]
        r = es[0]
        for x in es[1:]:
            r = (e[1], r, x)
        return r
    return go(ref)


NATIVE_CIDR = [True]


def make_backend(precedence, parenthesize, or_in, and_in, allow_wild, not_eq, native_cidr=True):
    from sigma.backends.test import TextQueryTestBackend
    from sigma.conditions import ConditionNOT, ConditionAND, ConditionOR
    from sigma.types import CompareOperators
    cmap = {"not": ConditionNOT, "and": ConditionAND, "or": ConditionOR}

    class B(TextQueryTestBackend):
        pass
    B.precedence = tuple(cmap[x] for x in precedence)
    B.parenthesize = parenthesize
    B.convert_or_as_in, B.convert_and_as_in, B.in_expressions_allow_wildcards = or_in, and_in, allow_wild
    B.convert_not_as_not_eq = not_eq
    B.field_quote, B.field_quote_pattern, B.field_escape = None, None, None
    B.add_escaped, B.filter_chars = "\\", ""
    B.eq_token = "|eq|"
    B.eq_expression = "<{field}|eq|{value}>"
    B.not_eq_token = "|neq|"
    B.not_eq_expression = "<{field}|neq|{value}>"
    for k, n in (("startswith", "sw"), ("endswith", "ew"), ("contains", "ct")):
        setattr(B, f"{k}_expression", "<{field}|" + n + "|{value}>")
        setattr(B, f"not_{k}_expression", "<{field}|n" + n + "|{value}>")
        setattr(B, f"case_sensitive_{k}_expression", "<{field}|" + n + "_cs|{value}>")
        setattr(B, f"case_sensitive_not_{k}_expression", "<{field}|n" + n + "_cs|{value}>")
    B.wildcard_match_expression = "<{field}|eq|{value}>"
    B.case_sensitive_match_expression = "<{field}|eq_cs|{value}>"
    B.re_expression, B.not_re_expression = "<{field}|re|{regex}>", "<{field}|nre|{regex}>"
    B.re_escape, B.re_escape_char = [], "\\"
    B.cidr_expression, B.not_cidr_expression = ("<{field}|cidr|{value}>", "<{field}|ncidr|{value}>") if native_cidr else (None, None)
    B.field_null_expression = "<{field}|null|>"
    B.field_exists_expression, B.field_not_exists_expression = "<{field}|exists|>", "<{field}|notexists|>"
    B.compare_op_expression = "<{field}{operator}{value}>"
    B.field_in_list_expression = "<{field}|{op}|{list}>"
    B.or_in_operator, B.and_in_operator, B.list_separator = "in", "allin", ";"
    B.unbound_value_str_expression, B.unbound_value_num_expression, B.unbound_value_re_expression = "<_|eq|{value}>", "<_|num|{value}>", "<_|re|{value}>"
    B.backend_processing_pipeline = __import__("sigma.processing.pipeline", fromlist=["x"]).ProcessingPipeline()
    return B


DETS = [
    ({"s": {"f1": "a"}}, ["s", "not s"]),
    ({"s": {"f1": "a", "f2|contains": ["x", "y*"]}, "t": {"f3|startswith": "p\\*q"}}, ["s and t", "s or t", "not (s or t)", "not s and t", "s or not t and s", "not (not s and t)", "1 of them", "all of them"]),
    ({"s": {"f1": ["a", "b"]}, "t": {"f2|contains|all": ["x", "y"]}, "u": ["k1", "k*2"]}, ["s and (t or u)", "(s or t) and u", "not u", "not t or s", "s and not (t and u)", "not 1 of them"]),
    ({"s": {"f1|cased": ["a", "B"], "f2|endswith": "e"}, "t": [{"f3": 1}, {"f4": None, "f5|exists": True}]}, ["s or t", "not t", "s and not t", "not s"]),
    ({"s": {"f1|re": "a.*b", "f2|cidr": "10.0.0.0/8"}, "t": {"f3|neq": "z", "f4": [1, 2]}}, ["s and t", "not s or t", "not (s and t)", "not t"]),
    ({"s": {"f1|windash|contains": "-a"}, "t": {"f2|base64offset|contains": "xy"}}, ["not s", "s and t", "not t and s"]),
    ({"s": {"f1|cidr": "10.1.2.0/23", "f2": "a"}, "t": {"f3|cidr": "10.1.2.3/32"}}, ["s", "not s", "s and t", "not t or s", "not (s or t)"]),
    ({"sa": {"f1": "a"}, "sb": {"f2": "b"}, "sc": {"f3": "c"}}, ["sa or sb and sc", "sa and sb or sc", "not sa or sb and not sc", "(sa or sb) and (sb or sc)", "not (sa and (sb or not sc))", "sa or (sb or sc)", "sa and (sb and sc)", "1 of s*", "all of s*"]),
    ({"n": {"f1|cidr": "10.1.2.0/23"}, "m": {"f2|cidr": "10.2.0.0/15"}, "k": ["kw"]}, ["not n", "n", "not n or m", "not (n or m)", "n and m", "not m and k", "k or not n"]),
    ({"q": {"f1|neq": "a"}, "r": {"f2|neq": ["b", "c"]}, "s": {"f3|contains|neq": "d*"}}, ["q", "not q", "q and r", "r", "not r or s", "s", "q or not s"]),
    # single-character wildcards next to the wildcards that select the startswith / endswith / contains operators
    ({"s": {"f1|startswith": "fo?o", "f2": "*a?b", "f3|contains": "x?y", "f4|cased|endswith": "p?q"}, "t": {"f5": "?ab*", "f6": "*ab?", "f7|cased": "*a?*"}}, ["s", "not s", "s and t", "not t", "s or not t"]),
    # several conditions in one rule that use the same detections with different negation
    ({"s": {"f1": "a"}, "t": {"f2": "b", "f3|contains": "c"}}, [("s and not t", "s and t"), ("not s", "s", "t and not s"), ("s or not t", "not (s or t)", "t")]),
    # a list that mixes plain values (keywords) and maps: alternatives - keyword OR (all items of a map)
    ({"s": ["k1", {"f1": "a", "f2": "b"}], "t": {"f3": "c"}}, ["s", "s and t", "s or t"]),
]


@register
class C01Bounded(Bounded):
    id = "C01.bounded.equivalence"
    props = ("C01",)

    def run(self, tier, seed):
        from sigma.collection import SigmaCollection
        from sigma.exceptions import SigmaError
        import json, os
        kfile = os.path.join(VERIF, "known", "c01_known_inequivalent.json")
        KNOWN = set(json.load(open(kfile))) if os.path.exists(kfile) else set()
        ev = nontriv = 0
        seen, fails, samples, failing = {}, [], [], []
        configs = []
        for prec in itertools.permutations(("not", "and", "or")):
            for par, (or_in, and_in, wild), not_eq in itertools.product((False, True), ((True, True, True), (True, False, False), (False, False, False)), (False, True)):
                configs.append((prec, par, or_in, and_in, wild, not_eq, True))
                if not not_eq:
                    configs.append((prec, par, or_in, and_in, wild, not_eq, False))
        if tier == "quick":
            configs = [c for i, c in enumerate(configs) if c[0] == ("not", "and", "or") or i % 5 == 0]
        for (di, (det, conds)), cfg in itertools.product(enumerate(DETS), configs):
            if not cfg[6] and "cidr" not in str(det):
                continue
            B = make_backend(*cfg)
            NATIVE_CIDR[0] = cfg[6]
            # a tuple of conditions is a rule with several conditions (they share the detection objects): query i is compared with condition i
            flat = [(c, None, None) for c in conds if not isinstance(c, tuple)] + [(c, t, i) for t in conds if isinstance(t, tuple) for i, c in enumerate(t)]
            for cond, group, gi in flat:
                ev += 1
                doc = {"title": "t", "logsource": {"category": "c"}, "detection": {**copy.deepcopy(det), "condition": cond if group is None else list(group)}}
                sig = f"{di}:{cond if group is None else ' || '.join(group) + '#' + str(gi)}:{'/'.join(cfg[0])}:{int(cfg[1])}{int(cfg[2])}{int(cfg[3])}{int(cfg[4])}{int(cfg[5])}" + ("" if cfg[6] else ":nocidr")
                try:
                    q = B().convert(SigmaCollection.from_dicts([copy.deepcopy(doc)]))[0 if group is None else gi]
                except Exception as e:
                    kind = "error:" + type(e).__name__
                    seen[kind] = seen.get(kind, 0) + 1
                    if seen[kind] == 1:
                        fails.append({"text": f"rule {cond!r} over {det} with configuration {cfg}: {type(e).__name__}: {e}", "input": sig})
                    continue
                nontriv += 1
                try:
                    got = read_query(q, cfg[0])
                    want = rule_sem(doc, cond)
                    atoms = set()
                    collect(got, atoms)
                    watoms = set()
                    collect(want, watoms)
                    ok = None
                    if len(atoms | watoms) <= 14:
                        names = sorted(atoms | watoms, key=repr)
                        ok = True
                        if not atoms <= watoms | atoms:
                            ok = False
                        for bits in itertools.product((False, True), repeat=len(names)):
                            env = dict(zip(names, bits))
                            if ev_(got, env) != ev_(want, env):
                                ok = False
                                break
                    else:
                        ok = True
                except Exception as e:
                    ok = False
                    q = f"{q}   [reader: {type(e).__name__}: {e}]"
                if not ok:
                    failing.append(sig)
                    known = sig in KNOWN
                    kind = ("known" if known else "new") + f":not_eq={cfg[5]}"
                    seen[kind] = seen.get(kind, 0) + 1
                    if seen[kind] <= (1 if known else 3):
                        fails.append({"text": ("KNOWN-C01 " if known else "") + f"rule {cond!r} over {det} with configuration (precedence {cfg[0]}, parenthesize {cfg[1]}, or-in {cfg[2]}, and-in {cfg[3]}, wildcards-in-list {cfg[4]}, not-eq {cfg[5]}) converts to {q!r}, which the target reads as a different boolean function", "input": sig})
                elif len(samples) < 4 and cond.count(" ") > 3 and cfg[0] != ("not", "and", "or"):
                    samples.append({"condition": cond, "precedence": cfg[0], "query": q})
        if os.environ.get("C01_DUMP"):
            json.dump(sorted(set(failing)), open(os.environ["C01_DUMP"], "w"), indent=0)
        return {"evaluations": ev, "distinct_nontrivial": nontriv, "failures": fails[:12], "failure_counts": seen, "inequivalent": len(set(failing)),
                "bound": f"{len(DETS)} detection sets x {sum(len(c) for _, c in DETS)} conditions x {len(configs)} backend configurations (precedence order, parenthesize, in-list options, not-equals mode)",
                "rule": "distinct (rule, configuration); non-trivial = converted", "samples": samples, "exhaustive": tier != "quick"}


ev_ = ev
