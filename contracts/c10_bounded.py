"""C10 bounded stand-in: real correlation rules of every type, converted by the real test backend, compared with an expectation that is
built from the rule DOCUMENT and the documented meaning of the backend's templates - independently of the conversion code.  Extended
(boolean) conditions are compared as boolean functions of the referenced rules, read with the target's precedence."""
from __future__ import annotations
import copy, itertools, re
from pyvc.api import *

OPS = {"lt": "<", "lte": "<=", "gt": ">", "gte": ">=", "eq": "==", "neq": "!="}
AGG = {"event_count": "| aggregate window={ts} count() as event_count{gb}", "value_count": "| aggregate window={ts} value_count({field}) as value_count{gb}",
       "value_sum": "| aggregate window={ts} sum({field}) as value_sum{gb}", "value_avg": "| aggregate window={ts} avg({field}) as value_avg{gb}",
       "value_percentile": "| aggregate window={ts} percentile({field}, {pct}) as value_percentile{gb}", "value_median": "| aggregate window={ts} median({field}) as value_median{gb}",
       "temporal": "| temporal window={ts} eventtypes={refs}{gb}", "temporal_ordered": "| temporal ordered=true window={ts} eventtypes={refs}{gb}",
       "temporal_extended": "| temporal extended=true window={ts}{gb}", "temporal_ordered_extended": "| temporal ordered=true extended=true window={ts}{gb}"}
VAR = {"event_count": "event_count", "value_count": "value_count", "value_sum": "value_sum", "value_avg": "value_avg", "value_percentile": "value_percentile", "value_median": "value_median",
       "temporal": "eventtype_count", "temporal_ordered": "eventtype_count"}
BASE = {"n": {"title": "N", "name": "n", "id": "11111111-1111-4111-8111-111111111111", "logsource": {"category": "c"}, "detection": {"s": {"User": "n", "SrcIp": "1"}, "condition": "s"}},
        "m": {"title": "M", "name": "m", "id": "22222222-2222-4222-8222-222222222222", "logsource": {"category": "c"}, "detection": {"s1": {"Account": "m"}, "s2": {"x": "y"}, "condition": ["s1", "s2"]}},
        "p": {"title": "P", "id": "33333333-3333-4333-8333-333333333333", "logsource": {"category": "c"}, "detection": {"s": {"u": ["a", "b"]}, "condition": "s"}}}      # p has no name: referenced by id
BASE["q"] = {"title": "Q", "name": "q_3", "logsource": {"category": "c"}, "detection": {"s": {"w": 1}, "condition": "s"}}
REF = {"n": "n", "m": "m", "p": BASE["p"]["id"], "q": "q_3"}


def timespan(spec):
    return spec[:-1] + {"m": "min"}.get(spec[-1], spec[-1])


def tokenize(s):
    return re.findall(r'\(|\)|and\b|or\b|not\b|matched_rules="[^"]*"', s)


def parse(toks, prec):
    """boolean reader with the target's precedence order (tightest first)"""
    pos = [0]
    levels = list(reversed(prec))       # loosest first

    def level(k):
        if k == len(levels):
            return atom()
        op = levels[k]
        if op == "not":
            if pos[0] < len(toks) and toks[pos[0]] == "not":
                pos[0] += 1
                return ("not", level(k))
            return level(k + 1)
        l = level(k + 1)
        while pos[0] < len(toks) and toks[pos[0]] == op:
            pos[0] += 1
            l = (op, l, level(k + 1))
        return l

    def atom():
        t = toks[pos[0]]
        pos[0] += 1
        if t == "(":
            e = level(0)
            assert toks[pos[0]] == ")"
            pos[0] += 1
            return e
        if t == "not":       # a NOT below its own level (precedence orders where NOT is not tightest)
            return ("not", atom())
        return ("a", t)
    e = level(0)
    assert pos[0] == len(toks)
    return e


def ev(e, env):
    if e[0] == "a":
        return env[e[1]]
    if e[0] == "not":
        return not ev(e[1], env)
    return (ev(e[1], env) and ev(e[2], env)) if e[0] == "and" else (ev(e[1], env) or ev(e[2], env))


def ref_expr(text):
    """the Sigma reading of an extended condition: NOT > AND > OR over rule names"""
    toks = re.findall(r"\(|\)|[A-Za-z0-9_\-]+", text)
    return parse(['matched_rules="%s"' % t if t not in ("(", ")", "and", "or", "not") else t for t in toks], ("not", "and", "or"))


@register
class C10Bounded(Bounded):
    id = "C10.bounded.correlation_queries"
    props = ("C10",)

    def run(self, tier, seed):
        from sigma.collection import SigmaCollection
        from sigma.backends.test import TextQueryTestBackend
        from sigma.rule import SigmaRule
        from sigma.exceptions import SigmaError
        ev_n = nontriv = 0
        seen, fails, samples = {}, [], []

        def fail(kind, text, inp):
            seen[kind] = seen.get(kind, 0) + 1
            if seen[kind] == 1:
                fails.append({"text": text, "input": inp})
        base_q = {k: [str(q) for q in TextQueryTestBackend().convert_rule(SigmaRule.from_dict(copy.deepcopy(d)))] for k, d in BASE.items()}
        rule_sets = [["n"], ["m"], ["n", "m"], ["p", "n"], ["m", "p", "n"]]
        groupbys = [None, ["User"], ["User", "Host name"]]
        spans = ["5m", "30s", "2h", "1d"]
        conds = [("gte", 10), ("gt", 0), ("eq", 0), ("neq", 1), ("lt", 3), ("lte", 100)]
        docs = []
        k_all = 0
        for t in ("event_count", "value_count", "value_sum", "value_avg", "value_percentile", "value_median", "temporal", "temporal_ordered"):
            for (rs, gb, sp, (op, cnt)) in itertools.product(rule_sets, groupbys, spans, conds):
                k_all += 1
                c = {op: cnt}
                if t.startswith("value"):
                    c["field"] = "Val ue" if cnt % 2 else "val"
                if t == "value_percentile":
                    c["percentile"] = 0 if cnt == 0 else 75
                corr = {"type": t, "rules": [REF[r] for r in rs], "timespan": sp, "condition": c}
                if gb is not None:
                    corr["group-by"] = gb
                if gb and len(rs) > 1 and cnt in (0, 10):
                    corr["aliases"] = {gb[0]: {REF[r]: {"n": "User", "m": "Account", "p": "u"}[r] for r in rs}}
                docs.append((t, rs, corr))
        # extended conditions name rules by identifier (the grammar has no ids): rules n, m and q_3
        ext = ["n and m", "n or m and q", "not n and (m or q)", "n and not (m and q)", "(n or m) and q", "not (n or m)", "n or m or q", "not not n and m"]
        for t, text in itertools.product(("temporal", "temporal_ordered"), ext):
            names = [x for x in ("m", "q", "n") if re.search(r"\b%s\b" % x, text)]
            for gb in (None, ["User"]):
                docs.append((t + "_extended", names, {"type": t, "rules": [REF[r] for r in names], "timespan": "10m", "condition": re.sub(r"\bq\b", REF["q"], text), **({"group-by": gb} if gb else {})}))
        for t, rs, corr in docs:
            ev_n += 1
            doc = {"title": "C", "name": "corr", "correlation": corr}
            try:
                col = SigmaCollection.from_dicts([copy.deepcopy(BASE[k]) for k in ("n", "m", "p", "q")] + [copy.deepcopy(doc)])
                out = TextQueryTestBackend().convert(col)
            except SigmaError as e:
                fail("error:" + t, f"correlation {corr}: {type(e).__name__}: {e}", [corr])
                continue
            except Exception as e:
                fail("crash:" + t, f"correlation {corr}: non-Sigma {type(e).__name__}: {e}", [corr])
                continue
            nontriv += 1
            got = str(out[-1])
            gb = corr.get("group-by")
            al = corr.get("aliases", {})
            # search part
            pairs = [(r, q) for r in rs for q in base_q[r]]
            if len(rs) == 1 and len(base_q[rs[0]]) == 1:
                search = base_q[rs[0]][0]
            else:
                search = "\n".join('subsearch { %s | set event_type="%s"%s }' % (q, REF[r], "".join(" | set %s=%s" % (a, m[REF[r]]) for a, m in al.items() if REF[r] in m)) for r, q in pairs)
            gbs = "" if gb is None else " by " + ", ".join("'%s'" % g if not re.fullmatch(r"\w+", g) else g for g in gb)
            c = corr["condition"]
            fld = c.get("field") if isinstance(c, dict) else None
            agg = AGG[t].format(ts=timespan(corr["timespan"]), gb=gbs, field=fld, pct=c.get("percentile") if isinstance(c, dict) else "", refs=",".join(REF[r] for r in rs))
            sep = "\n\n" if t in ("temporal", "temporal_extended", "temporal_ordered_extended") else "\n"      # query templates of the test backend; the others use the default template
            if isinstance(c, dict):
                op = next(k for k in c if k in OPS)
                cond = f"| where {VAR[t]} {OPS[op]} {c[op]}" + (f" and eventtype_order={','.join(REF[r] for r in rs)}" if t == "temporal_ordered" else "")
                want = search + sep + agg + sep + cond
                if got != want:
                    part = "search" if not got.startswith(search + sep) else "aggregation" if not got.startswith(search + sep + agg + sep) else "condition"
                    fail(f"{part}:{t}", f"correlation {corr} over rules {rs} converts to {got!r}; its elements give {want!r} ({part} part differs)", [corr])
                elif len(samples) < 4 and len(rs) > 1 and gb:
                    samples.append({"correlation": str(corr), "query": got})
            else:
                head = search + sep + agg + sep + "| where "
                if not got.startswith(head):
                    fail(f"head:{t}", f"correlation {corr} converts to {got!r}; search / aggregation elements give the beginning {head!r}", [corr])
                    continue
                text = got[len(head):]
                try:
                    e1 = parse(tokenize(text), ("not", "and", "or"))
                except Exception as e:
                    fail(f"condition-syntax:{t}", f"extended condition {c!r} is rendered as {text!r}, which the target cannot read: {e}", [corr])
                    continue
                e2 = ref_expr(c)
                atoms = sorted(set(re.findall(r'matched_rules="[^"]*"', text)) | set('matched_rules="%s"' % REF[r] for r in rs))
                for bits in itertools.product((False, True), repeat=len(atoms)):
                    env = dict(zip(atoms, bits))
                    if ev(e1, env) != ev(e2, env):
                        fail(f"condition:{t}", f"extended condition {c!r} is rendered as {text!r}, which the target reads as a different boolean function (e.g. under {[a for a, b in env.items() if b]})", [corr])
                        break
        # several correlation rules on ONE backend object: each query is what the rule gives alone on a fresh backend (aliases, group-by and
        # conditions of one correlation rule do not leak into the next one that refers to the same rules)
        multi = [{"title": "A", "name": "ca", "correlation": {"type": "event_count", "rules": [REF["n"], REF["m"]], "timespan": "5m", "group-by": ["who"], "aliases": {"who": {REF["n"]: "User", REF["m"]: "Account"}}, "condition": {"gte": 2}}},
                 {"title": "B", "name": "cb", "correlation": {"type": "value_count", "rules": [REF["n"], REF["m"]], "timespan": "1h", "group-by": ["src"], "aliases": {"src": {REF["n"]: "SourceIp", REF["m"]: "ClientAddress"}}, "condition": {"gt": 5, "field": "val"}}},
                 {"title": "C", "name": "cc", "correlation": {"type": "temporal", "rules": [REF["m"], REF["n"]], "timespan": "30s", "group-by": ["who", "host"], "aliases": {"who": {REF["n"]: "u1", REF["m"]: "u2"}, "host": {REF["n"]: "h1", REF["m"]: "h2"}}}},
                 {"title": "D", "name": "cd", "correlation": {"type": "event_count", "rules": [REF["n"], REF["m"]], "timespan": "2h", "group-by": ["User"], "condition": {"lt": 3}}}]
        basedocs = [copy.deepcopy(BASE[k]) for k in ("n", "m", "p", "q")]
        for d in basedocs:
            d.pop("id", None) if False else None

        def corr_queries(cdocs, backend):
            col = SigmaCollection.from_dicts([copy.deepcopy(x) for x in basedocs] + [copy.deepcopy(x) for x in cdocs])
            out = backend.convert(col)
            return [str(q) for q in out[-len(cdocs):]]
        try:
            alone = {d["name"]: corr_queries([d], TextQueryTestBackend())[0] for d in multi}
            for perm in itertools.permutations(multi):
                ev_n += 1
                nontriv += 1
                b = TextQueryTestBackend()
                together = corr_queries(list(perm), b)
                again = [corr_queries([d], b)[0] for d in perm]          # and once more, one after the other, on the same backend object
                for d, q1, q2 in zip(perm, together, again):
                    for how, q in (("in one collection", q1), ("converted one after the other", q2)):
                        if q != alone[d["name"]]:
                            fail("history", f"correlation rule {d['title']} {how} on one backend in the order {[x['title'] for x in perm]} gives {q!r}, alone on a fresh backend {alone[d['name']]!r}", [[x["title"] for x in perm], d["title"], how])
            # ... temporal rules with and without an extended condition on one backend (the conversion method is chosen per rule)
            multi2 = [{"title": "E", "name": "ce", "correlation": {"type": "temporal", "timespan": "5m", "group-by": ["u"], "condition": "n and not m"}},
                      {"title": "F", "name": "cf", "correlation": {"type": "temporal", "rules": [REF["n"], REF["m"]], "timespan": "5m", "group-by": ["u"]}},
                      {"title": "G", "name": "cg", "correlation": {"type": "temporal_ordered", "rules": [REF["n"], REF["m"]], "timespan": "5m", "group-by": ["u"]}},
                      {"title": "H", "name": "ch", "correlation": {"type": "temporal_ordered", "timespan": "5m", "group-by": ["u"], "condition": "m or n"}}]
            alone2 = {d["name"]: corr_queries([d], TextQueryTestBackend())[0] for d in multi2}
            for perm in itertools.permutations(multi2):
                ev_n += 1
                nontriv += 1
                b = TextQueryTestBackend()
                try:
                    again = [corr_queries([d], b)[0] for d in perm]
                except Exception as e:
                    again = [f"{type(e).__name__}: {e}"] * len(perm)
                for d, q2 in zip(perm, again):
                    if q2 != alone2[d["name"]]:
                        fail("history-extended", f"correlation rule {d['title']} converted after {[x['title'] for x in perm[:perm.index(d)]]} on one backend gives {q2!r}, alone on a fresh backend {alone2[d['name']]!r}", [[x["title"] for x in perm], d["title"]])
        except SigmaError as e:
            fail("history-error", f"several correlation rules on one backend: {type(e).__name__}: {e}", ["multi"])
        # the timespan in seconds (rendered by backends that express windows in seconds): count x unit length, exact integers - the mean
        # Gregorian month is 2629746 s (30.436875 d), the year 31556952 s (365.2425 d)
        from sigma.correlations import SigmaCorrelationTimespan
        UNIT = {"s": 1, "m": 60, "h": 3600, "d": 86400, "w": 604800, "M": 2629746, "y": 31556952}

        class SecB(TextQueryTestBackend):
            timespan_seconds = True
        for unit, n in itertools.product(UNIT, list(range(0, 401)) + [999, 1000, 4096, 10 ** 6 + 1]):
            ev_n += 1
            nontriv += 1
            try:
                ts = SigmaCorrelationTimespan(f"{n}{unit}")
                got = (ts.seconds, ts.count, ts.unit, type(ts.seconds).__name__)
            except SigmaError as e:
                got = type(e).__name__
            if got != (n * UNIT[unit], n, unit, "int"):
                fail("timespan-seconds", f"timespan {n}{unit}: (seconds, count, unit, type) = {got}, expected {(n * UNIT[unit], n, unit, 'int')}", [f"{n}{unit}"])
        for spec in ("5M", "10M", "45y", "3w"):
            ev_n += 1
            nontriv += 1
            n, unit = int(spec[:-1]), spec[-1]
            try:
                q = SecB().convert(SigmaCollection.from_dicts([copy.deepcopy(BASE[next(iter(BASE))]), {"title": "c", "correlation": {"type": "event_count", "rules": [BASE[next(iter(BASE))]["name"]], "timespan": spec, "condition": {"gte": 2}}}]))
                if str(n * UNIT[unit]) not in str(q[-1]) or (unit in "My" and str(n * UNIT[unit] - 1) in str(q[-1])):
                    fail("timespan-seconds-query", f"backend rendering windows in seconds, timespan {spec}: query {q[-1]!r} does not carry {n * UNIT[unit]}", [spec])
            except Exception as e:
                fail("timespan-seconds-query", f"backend rendering windows in seconds, timespan {spec}: {type(e).__name__}: {e}", [spec])
        # temporal rules without a condition: the default is "every referenced rule occurred" = count >= number of referenced RULES, however
        # the references are written (a single reference may be given as text)
        import re as _re2
        for ctype, rules in itertools.product(("temporal", "temporal_ordered"), ("n", "q_3", ["n"], ["n", "m"], ["n", "m", "q_3"], [BASE["p"]["id"], "n"])):
            ev_n += 1
            nontriv += 1
            try:
                q = TextQueryTestBackend().convert(SigmaCollection.from_dicts([copy.deepcopy(d) for d in BASE.values()] + [{"title": "c", "correlation": {"type": ctype, "rules": rules, "timespan": "5m", "group-by": ["u"]}}]))[-1]
                m = _re2.search(r"eventtype_count >= (\d+)", str(q))
                got = int(m.group(1)) if m else None
            except Exception as e:
                got = f"{type(e).__name__}: {e}"
            want = 1 if isinstance(rules, str) else len(rules)
            if got != want:
                fail("default-temporal-condition", f"{ctype} correlation without condition over the rules {rules!r}: the query asks for a count >= {got}, the default is the number of referenced rules = {want}", [ctype, rules])
        return {"evaluations": ev_n, "distinct_nontrivial": nontriv, "failures": fails[:20], "failure_counts": seen,
                "bound": f"default conditions of temporal rules (12); timespans 0..400 (and four larger counts) x 7 units in seconds; all 24 orders of 4 correlation rules with different aliases over the same referenced rules on one backend object; {len(docs)} correlation rules: 8 types x rule lists (1..3 rules, referenced by name and by id, single and multi-query rules) x group-by (none, 1, 2 fields incl. one needing quotes) x 4 timespan units x 6 operators "
                         f"(counts incl. 0) x aliases; 16 extended conditions x 2 group-by settings compared as boolean functions",
                "rule": "distinct correlation rules; non-trivial = converted", "samples": samples, "exhaustive": True}
