"""C10 - correlation queries carry every element of the correlation rule faithfully (correlations.py, conversion/base.py)."""
from __future__ import annotations
import z3
from pyvc.api import *
from pyvc.values import *
from pyvc import ops

UNIT_SECONDS = {"s": 1, "m": 60, "h": 3600, "d": 86400, "w": 604800, "M": 2629746, "y": 31556952}   # Sigma correlation specification


def int_of(t):
    return z3.Function("int.of_str", z3.StringSort(), z3.IntSort())(t)


def parses(t):
    return z3.Function("int.parses", z3.StringSort(), z3.BoolSort())(t)


@register
class TimespanPostInit(Contract):
    id = "C10.SigmaCorrelationTimespan.__post_init__"
    target = "sigma.correlations:SigmaCorrelationTimespan.__post_init__"
    props = ("C10", "C07")
    assumed = ["int(str): ValueError or the integer value; raises for the empty string"]

    def args(self, I):
        spec = I.fresh("spec", "str")
        me = SObj(I.E.index.lookup("sigma.correlations:SigmaCorrelationTimespan"), {"spec": spec})
        return {"self": me, "args": [], "spec": spec}

    def post(self, I, inp, r):
        c, me, s = I.ctx, inp["self"], inp["spec"].t
        n = z3.Length(s)
        head, last = z3.SubString(s, 0, n - 1), z3.SubString(s, n - 1, 1)
        c.require(n >= 1, "a timespan that is accepted is not empty")
        c.require(mk_str(me.fields["unit"]) == last, "unit == last character of the timespan")
        c.require(mk_int(me.fields["count"]) == int_of(head), "count == integer value of everything before the unit")
        unit_len = z3.IntVal(0)
        for u, v in UNIT_SECONDS.items():
            unit_len = z3.If(last == z3.StringVal(u), z3.IntVal(v), unit_len)
        c.require(z3.Or(*[last == z3.StringVal(u) for u in UNIT_SECONDS]), "the unit is one of s m h d w M y")
        c.require(mk_int(me.fields["seconds"]) == int_of(head) * unit_len, "seconds == count x unit length")

    def raises(self, I, inp, exc):
        s = inp["spec"].t
        n = z3.Length(s)
        bad = z3.Or(z3.Not(parses(z3.SubString(s, 0, z3.If(n > 0, n - 1, 0)))), z3.Not(z3.Or(*[z3.SubString(s, n - 1, 1) == z3.StringVal(u) for u in UNIT_SECONDS])))
        I.ctx.require(z3.And(z3.BoolVal(exc_is(I, exc, "SigmaTimespanError")), bad), f"SigmaTimespanError, exactly for a malformed count or unknown unit (got {exc_name(exc)})", kind="SAFE")

    def frame_ok(self, I, inp, obj, name):
        return obj is inp["self"] and name in ("count", "unit", "seconds")

    def model_terms(self, inp):
        return {"spec": inp["spec"].t}

    def replay(self, values):
        from sigma.correlations import SigmaCorrelationTimespan
        from sigma.exceptions import SigmaTimespanError
        spec = values.get("spec", "")
        try:
            t = SigmaCorrelationTimespan(spec)
        except SigmaTimespanError:
            ok = not (spec[:-1].isdigit() and spec[-1:] in UNIT_SECONDS)
            return None if ok else f"timespan {spec!r} rejected although well-formed"
        except Exception as e:
            return f"timespan {spec!r}: {type(e).__name__} escapes instead of SigmaTimespanError"
        try:
            want = int(spec[:-1]) * UNIT_SECONDS[spec[-1]]
        except Exception:
            return f"timespan {spec!r} accepted although malformed: {t}"
        return None if (t.seconds, t.count, t.unit) == (want, int(spec[:-1]), spec[-1]) else f"timespan {spec!r}: seconds={t.seconds} count={t.count} unit={t.unit}, expected {want}"

    def candidates(self):
        return ({"spec": s} for s in ["", "5", "m", "5x", "10m", "1M", "2y", "-3h", " 4d", "1_0s", "٣s", "5 m", "0w"])


@register
class ConvertTimespan(Contract):
    id = "C10.TextQueryBackend.convert_timespan"
    target = "sigma.conversion.base:TextQueryBackend.convert_timespan"
    props = ("C10",)
    cases = ("seconds", "mapping_hit", "mapping_miss", "no_mapping")

    def args(self, I, case):
        ts = SObj(I.E.index.lookup("sigma.correlations:SigmaCorrelationTimespan"), {"spec": I.fresh("spec", "str"), "seconds": I.fresh("seconds", "int"), "count": I.fresh("count", "int"),
                                                                                   "unit": "m" if case != "mapping_miss" else "w"})
        mapped = I.fresh("mapped_unit", "str")          # any text - the empty text included (target languages that count in one unit only)
        me = SObj(I.E.index.lookup("sigma.conversion.base:TextQueryBackend"), {"timespan_seconds": case == "seconds", "timespan_mapping": None if case == "no_mapping" else {"m": mapped, "h": "hr"}}, lazy=True)
        I.ctx.assume(z3.And(ts.fields["seconds"].t >= 0, ts.fields["count"].t >= 0))
        return {"self": me, "args": [ts], "ts": ts, "case": case, "mapped": mapped}

    def post(self, I, inp, r):
        ts, case = inp["ts"], inp["case"]
        want = {"seconds": z3.IntToStr(ts.fields["seconds"].t), "mapping_hit": z3.Concat(z3.IntToStr(ts.fields["count"].t), inp["mapped"].t)}.get(case, ts.fields["spec"].t)
        I.ctx.require(mk_str(r) == want, {"seconds": "timespan in seconds", "mapping_hit": "count + the text the unit is mapped to (whatever it is, also the empty text)"}.get(case, "timespan as given"))

    def frame_ok(self, I, inp, obj, name):
        return False


@register
class CorrelationSearch(Contract):
    """single-rule form iff exactly one reference with exactly one query (and the template exists); otherwise one tagged sub-query per
    (referenced rule in reference order) x (each of its queries), joined, with the normalisation of that reference"""
    id = "C10.TextQueryBackend.convert_correlation_search"
    target = "sigma.conversion.base:TextQueryBackend.convert_correlation_search"
    props = ("C10",)
    cases = tuple((refs, single) for refs in ((1,), (2,), (1, 1), (2, 1), (1, 2), (0, 1)) for single in (True, False))
    assumed = ["templates are opaque (the contract is about which values are passed, in which order)", "1..2 referenced rules with 0..2 queries each (unrolled)"]

    def setup(self, E):
        E.summaries["sigma.conversion.base:TextQueryBackend.convert_correlation_search_field_normalization_expression"] = \
            lambda I, so, a, k: a[1].ghost["norm"]

    def args(self, I, case):
        refs, single = case
        calls = []

        def tmpl(name):
            def f(I2, a, k):
                r = I2.fresh(name + "_out", "str")
                calls.append((name, dict(k), r))
                return r
            return SObj("Template", {"format": NativeFn("format", f)})
        rr = []
        for i, nq in enumerate(refs):
            qs = [I.fresh(f"r{i}q{j}", "str") for j in range(nq)]
            rule = SObj("Rule", {"name": SOpt(z3.Bool(I.ctx.fresh_name(f"r{i}_noname")), I.fresh(f"r{i}_name", "str")), "id": I.fresh(f"r{i}_id", "opaque", "UUID"),
                                 "get_conversion_result": NativeFn("get_conversion_result", lambda I2, a, k, qs=qs: list(qs))})
            ref = SObj("RuleReference", {"rule": rule})
            ref.ghost.update(norm=I.fresh(f"norm{i}", "str"), qs=qs)
            rr.append(ref)
        rule = SObj("CorrelationRule", {"referenced_rules": rr, "aliases": I.fresh("aliases", "opaque", "Aliases")})
        me = SObj(I.E.index.lookup("sigma.conversion.base:TextQueryBackend"), {
            "correlation_search_single_rule_expression": tmpl("single") if single else None,
            "correlation_search_multi_rule_expression": tmpl("multi"), "correlation_search_multi_rule_query_expression": tmpl("sub"),
            "correlation_search_multi_rule_query_expression_joiner": "|JOIN|"}, lazy=True)
        extra = I.fresh("extra", "opaque", "Any")
        return {"self": me, "args": [rule], "kwargs": {"extra": extra}, "calls": calls, "rr": rr, "case": case, "extra": extra}

    def post(self, I, inp, r):
        c, calls, rr = I.ctx, inp["calls"], inp["rr"]
        refs, single = inp["case"]
        if len(rr) == 1 and refs[0] == 1 and single:
            ok = len(calls) == 1 and calls[0][0] == "single"
            c.require(ok, "exactly one reference with exactly one query: the single-rule template is used")
            if ok:
                k = calls[0][1]
                c.require(k.get("rule") is rr[0] and k.get("query") is rr[0].ghost["qs"][0] and k.get("normalization") is rr[0].ghost["norm"] and k.get("extra") is inp["extra"],
                          "single-rule template receives the reference, its query, its normalisation and the extra arguments")
                c.require(r is calls[0][2], "result is the rendered template")
            return
        subs = [x for x in calls if x[0] == "sub"]
        want = [(ref, q) for ref in rr for q in ref.ghost["qs"]]
        c.require(len(subs) == len(want) and all(s[1].get("rule") is ref.fields["rule"] and s[1].get("query") is q and s[1].get("normalization") is ref.ghost["norm"] for s, (ref, q) in zip(subs, want)),
                  "one sub-query per referenced rule (reference order) and per query of that rule, with that reference's normalisation")
        for s, (ref, q) in zip(subs, want):
            nm = I.force(ref.fields["rule"].fields["name"])
            c.require(s[1].get("ruleid") is (nm if nm is not None and not (isinstance(nm, str) and nm == "") else ref.fields["rule"].fields["id"]) if not isinstance(nm, Sym) else True, "each sub-query is tagged with the rule's name or id")
        multi = [x for x in calls if x[0] == "multi"]
        c.require(len(multi) == 1 and calls[-1][0] == "multi" and r is multi[0][2], "the multi-rule template is rendered once, last")
        if multi:
            parts = []
            for i, s in enumerate(subs):
                if i:
                    parts.append("|JOIN|")
                parts.append(s[2])
            c.require(ops.py_eq(I, multi[0][1].get("queries"), ops.concat_strs(I, parts)), "queries == the rendered sub-queries joined in order")
            c.require(multi[0][1].get("extra") is inp["extra"], "extra arguments passed on")

    def frame_ok(self, I, inp, obj, name):
        return False


# ----------------------------------------------------------------------------------------------- field mapping of correlation rules
def fmap(t):
    return z3.Function("field_mapping", z3.StringSort(), z3.StringSort())(t)


def mk_corr_rule(I, tag, alias_names, group_by, cond_fieldref, fields):
    C = I.E.index.lookup("sigma.correlations:SigmaCorrelationRule")
    CC = I.E.index.lookup("sigma.correlations:SigmaCorrelationCondition")
    aliases = []
    for n in alias_names:
        ref = SObj("RuleRef", {})
        aliases.append(SObj("Alias", {"alias": n, "mapping": {ref: I.fresh(f"{tag}.alias_{n}_field", "str")}}))
    cond = SObj(CC, {"fieldref": cond_fieldref}, lazy=True)
    return SObj(C, {"fields": list(fields), "group_by": None if group_by is None else list(group_by), "aliases": aliases, "condition": cond}, lazy=True)


@register
class FieldMappingApplyCorrelation(Contract):
    """field-name pipelines rename group-by fields, alias targets and condition fields of a correlation rule with the same mapping that
    is applied to detection fields; alias names themselves stay; the result depends on this rule only (an earlier rule processed by
    the same transformation object - symbolic history prefix - has no influence). The mapping is an uninterpreted function that only
    _apply_field_name can produce, so every renamed name provably went through that one gate - the place where the field-name conditions
    are asked and the application is recorded for processing_item_applied (C12._apply_field_name contract); a second route that maps
    without recording cannot meet the postcondition"""
    id = "C10.FieldMappingTransformationBase.apply[correlation]"
    target = "sigma.processing.transformations.base:FieldMappingTransformationBase.apply"
    props = ("C10", "C12", "C15", "C13")
    cases = ("aliases", "no_aliases", "no_group_by", "fieldref_list")
    assumed = ["_apply_field_name is abstract: a one-to-one mapping function (the one-to-many error paths are separate cases)", "rule shapes unrolled: <= 2 group-by fields, <= 1 alias"]

    def setup(self, E):
        E.summaries["sigma.processing.transformations.base:FieldMappingTransformationBase._apply_field_name"] = lambda I, so, a, k: [Sym(fmap(mk_str(I.force(a[0]))), "str")]

    def args(self, I, case):
        T = I.E.index.lookup("sigma.processing.transformations.fields:FieldMappingTransformation")
        me = I.instantiate(T, [{}], {})           # a real instance: every dataclass field (also ones added later) gets its default
        me.born = None
        g = I.fresh("g", "str")
        fr = [I.fresh("cf0", "str"), I.fresh("cf1", "str")] if case == "fieldref_list" else I.fresh("cf", "str")
        rule = mk_corr_rule(I, "r", ["user"] if case == "aliases" else [], None if case == "no_group_by" else ["user", g], fr, [I.fresh("f0", "str")])
        return {"self": me, "args": [rule], "rule": rule, "g": g, "case": case, "orig": {"fields": list(rule.fields["fields"]), "fr": fr,
                "alias_fields": [dict(a.fields["mapping"]) for a in rule.fields["aliases"]]}}

    def before(self, I, inp):
        # history: the same transformation object processed another correlation rule that defines the alias 'user' before
        r0 = mk_corr_rule(I, "r0", ["user", "host"], ["user", I.fresh("g0", "str")], I.fresh("cf_0", "str"), [])
        I.call_function(I.E.index.lookup(self.target), inp["self"], [r0], {})

    def post(self, I, inp, r):
        c, rule, case = I.ctx, inp["rule"], inp["case"]
        eq = lambda a, b: ops.mk_bool_term(ops.py_eq(I, a, b))
        c.require(eq(rule.fields["fields"], [Sym(fmap(x.t), "str") for x in inp["orig"]["fields"]]), "fields list is mapped")
        if case != "no_group_by":
            want_user = "user" if case == "aliases" else Sym(fmap(z3.StringVal("user")), "str")
            gb = rule.fields["group_by"]
            ok = isinstance(gb, list) and len(gb) == 2
            c.require(ok, "group-by keeps its length under a one-to-one mapping")
            if ok:
                c.require(eq(gb[0], want_user), "a group-by entry is left alone iff it is an alias of THIS rule; otherwise it is mapped like a detection field")
                c.require(z3.Implies(inp["g"].t != z3.StringVal("user"), eq(gb[1], Sym(fmap(inp["g"].t), "str"))), "plain group-by fields are mapped")
            for a, orig in zip(rule.fields["aliases"], inp["orig"]["alias_fields"]):
                for ref, f in orig.items():
                    c.require(eq(a.fields["mapping"][ref], Sym(fmap(f.t), "str")), "alias targets are mapped")
                c.require(a.fields["alias"] == "user", "alias names are untouched")
        fr = inp["orig"]["fr"]
        got = rule.fields["condition"].fields["fieldref"]
        c.require(eq(got, [Sym(fmap(x.t), "str") for x in fr] if isinstance(fr, list) else Sym(fmap(fr.t), "str")), "the condition's field reference(s) are mapped")

    def frame_ok(self, I, inp, obj, name):
        # writes to the rule (and objects reachable from it) only; the transformation object itself is not a per-rule store
        return obj is not inp["self"]
