"""C01 (part 2) - leaves of the converted query: dispatch on the value type and the leaf conversions of TextQueryBackend.  Templates are
opaque (format() records its keyword arguments): the contracts say which converter handles which kind of value, and which element of the
comparison goes into which slot."""
from __future__ import annotations
import z3
from pyvc.api import *
from pyvc.values import *
from pyvc import ops

CB = "sigma.conversion.base"
TY = "sigma.types"
ESC = lambda t: z3.Function("escape_and_quote_field", z3.StringSort(), z3.StringSort())(t)


def tmpl(I, calls, name):
    def f(I2, a, k):
        r = I2.fresh(name + "_out", "str")
        calls.append((name, dict(k), r))
        return r
    return SObj("Template", {"format": NativeFn("format", f)})


def esc_summary(E):
    E.summaries[f"{CB}:TextQueryBackend.escape_and_quote_field"] = lambda I, so, a, k: Sym(ESC(mk_str(I.force(a[0]))), "str") if a[0] is not None else "<no field>"


def is_esc_of(I, v, fld):
    return isinstance(v, Sym) and v.kind == "str" and ops.mk_bool_term(ops.py_eq(I, v, Sym(ESC(fld.t), "str")))


# ----------------------------------------------------------------------------------------------- dispatch on the value type
VALUE_KINDS = {"SigmaCasedString": "convert_condition_field_eq_val_str_case_sensitive", "SigmaString": "convert_condition_field_eq_val_str", "SigmaTimestampPart": "convert_condition_field_eq_val_timestamp_part",
               "SigmaNumber": "convert_condition_field_eq_val_num", "SigmaBool": "convert_condition_field_eq_val_bool", "SigmaRegularExpression": "convert_condition_field_eq_val_re",
               "SigmaCIDRExpression": "convert_condition_field_eq_val_cidr", "SigmaCompareExpression": "convert_condition_field_compare_op_val", "SigmaFieldReference": "convert_condition_field_eq_field",
               "SigmaNull": "convert_condition_field_eq_val_null", "SigmaQueryExpression": "convert_condition_field_eq_query_expr", "SigmaExists": "convert_condition_field_eq_val_exists",
               "SigmaExpansion": "convert_condition_field_eq_expansion"}


@register
class FieldEqValDispatch(Contract):
    """Backend.convert_condition_field_eq_val: a comparison is converted by the converter of ITS value's type - cased strings case
    sensitively (not by the case-insensitive string converter of the base class), timestamp parts not as plain numbers"""
    id = "C01.Backend.convert_condition_field_eq_val"
    target = f"{CB}:Backend.convert_condition_field_eq_val"
    props = ("C01", "C03")
    cases = tuple(VALUE_KINDS)

    def setup(self, E):
        for m in set(VALUE_KINDS.values()):
            E.summaries[f"{CB}:Backend.{m}"] = (lambda m: lambda I, so, a, k: SObj("Out", {"by": m, "cond": a[0], "state": a[1]}))(m)

    def args(self, I, case):
        idx = I.E.index
        val = SObj(idx.lookup(f"{TY}:{case}"), {}, lazy=True)
        cond = SObj(idx.lookup("sigma.conditions:ConditionFieldEqualsValueExpression"), {"field": I.fresh("field", "str"), "value": val}, lazy=True)
        st = I.fresh("state", "opaque", "State")
        return {"self": SObj(idx.lookup(f"{CB}:Backend"), {}, lazy=True), "args": [cond, st], "cond": cond, "st": st, "case": case}

    def post(self, I, inp, r):
        want = VALUE_KINDS[inp["case"]]
        I.ctx.require(isinstance(r, SObj) and r.cls == "Out" and r.fields["by"] == want and r.fields["cond"] is inp["cond"] and r.fields["state"] is inp["st"],
                      f"a {inp['case']} value is converted by {want} (got {r.fields.get('by') if isinstance(r, SObj) else r})")

    def frame_ok(self, I, inp, obj, name):
        return False


VAL_KINDS = {"SigmaString": "convert_condition_val_str", "SigmaCasedString": "convert_condition_val_str", "SigmaNumber": "convert_condition_val_num", "SigmaRegularExpression": "convert_condition_val_re",
             "SigmaQueryExpression": "convert_condition_query_expr", "SigmaBool": None, "SigmaCIDRExpression": None}


@register
class ValDispatch(Contract):
    """Backend.convert_condition_val: value-only conditions by value type; booleans and CIDR values cannot stand alone"""
    id = "C01.Backend.convert_condition_val"
    target = f"{CB}:Backend.convert_condition_val"
    props = ("C01",)
    cases = tuple(VAL_KINDS)

    def setup(self, E):
        for m in set(v for v in VAL_KINDS.values() if v):
            E.summaries[f"{CB}:Backend.{m}"] = (lambda m: lambda I, so, a, k: SObj("Out", {"by": m, "cond": a[0]}))(m)

    def args(self, I, case):
        idx = I.E.index
        cond = SObj(idx.lookup("sigma.conditions:ConditionValueExpression"), {"value": SObj(idx.lookup(f"{TY}:{case}"), {}, lazy=True)}, lazy=True)
        return {"self": SObj(idx.lookup(f"{CB}:Backend"), {}, lazy=True), "args": [cond, I.fresh("state", "opaque", "State")], "cond": cond, "case": case}

    def post(self, I, inp, r):
        want = VAL_KINDS[inp["case"]]
        I.ctx.require(want is not None and isinstance(r, SObj) and r.fields.get("by") == want and r.fields.get("cond") is inp["cond"], f"a stand-alone {inp['case']} is converted by {want}")

    def raises(self, I, inp, exc):
        I.ctx.require(exc_is(I, exc, "SigmaValueError") and VAL_KINDS[inp["case"]] is None, f"SigmaValueError exactly for values that cannot stand alone (got {exc_name(exc)})", kind="SAFE")

    def frame_ok(self, I, inp, obj, name):
        return False


@register
class ExistsDispatch(Contract):
    """exists: true -> the exists expression; false -> the not-exists expression if the backend has one, else NOT(exists)"""
    id = "C01.Backend.convert_condition_field_eq_val_exists"
    target = f"{CB}:Backend.convert_condition_field_eq_val_exists"
    props = ("C01", "C03")
    cases = tuple((explicit, val) for explicit in (False, True) for val in (False, True))

    def setup(self, E):
        for m in ("convert_condition_field_exists", "convert_condition_field_not_exists", "convert_condition_not"):
            E.summaries[f"{CB}:Backend.{m}"] = (lambda m: lambda I, so, a, k: SObj("Out", {"by": m, "cond": a[0]}))(m)

    def args(self, I, case):
        explicit, val = case
        idx = I.E.index
        ex = SObj(idx.lookup(f"{TY}:SigmaExists"), {"exists": val}, lazy=True)
        cond = SObj(idx.lookup("sigma.conditions:ConditionFieldEqualsValueExpression"), {"field": I.fresh("field", "str"), "value": ex, "source": None}, lazy=True)
        return {"self": SObj(idx.lookup(f"{CB}:Backend"), {"explicit_not_exists_expression": explicit}, lazy=True), "args": [cond, I.fresh("state", "opaque", "State")], "cond": cond, "case": case}

    def post(self, I, inp, r):
        explicit, val = inp["case"]
        c = I.ctx
        ok = isinstance(r, SObj) and r.cls == "Out"
        c.require(ok, "converted by one of the exists converters")
        if not ok:
            return
        if val:
            c.require(r.fields["by"] == "convert_condition_field_exists" and r.fields["cond"] is inp["cond"], "exists: true -> exists expression of this field")
        elif explicit:
            c.require(r.fields["by"] == "convert_condition_field_not_exists" and r.fields["cond"] is inp["cond"], "exists: false with an explicit not-exists expression -> that expression")
        else:
            n = r.fields["cond"]
            okn = r.fields["by"] == "convert_condition_not" and isinstance(n, SObj) and getattr(n.cls, "name", "") == "ConditionNOT" and isinstance(n.fields.get("args"), list) and len(n.fields["args"]) == 1
            c.require(okn, "exists: false without explicit expression -> NOT(...)")
            if okn:
                a = n.fields["args"][0]
                c.require(isinstance(a, SObj) and a.fields.get("field") is inp["cond"].fields["field"] and isinstance(a.fields.get("value"), SObj) and ops.truth(I, a.fields["value"].fields.get("exists")) is True,
                          "... of 'the same field exists'")

    def frame_ok(self, I, inp, obj, name):
        return False


@register
class ExpansionDispatch(Contract):
    """a comparison with an expansion (windash, base64offset, ...) is the OR of the comparisons of the same field with each expanded value, in order"""
    id = "C01.Backend.convert_condition_field_eq_expansion"
    target = f"{CB}:Backend.convert_condition_field_eq_expansion"
    props = ("C01", "C03", "C04")
    cases = (1, 2, 3)

    def setup(self, E):
        E.summaries[f"{CB}:Backend.convert_condition_or"] = lambda I, so, a, k: SObj("Out", {"cond": a[0], "state": a[1]})

    def args(self, I, case):
        idx = I.E.index
        vals = [SObj("Value", {}, ghost={"i": i}) for i in range(case)]
        cond = SObj(idx.lookup("sigma.conditions:ConditionFieldEqualsValueExpression"), {"field": I.fresh("field", "str"), "value": SObj(idx.lookup(f"{TY}:SigmaExpansion"), {"values": vals}, lazy=True), "source": None}, lazy=True)
        st = I.fresh("state", "opaque", "State")
        return {"self": SObj(idx.lookup(f"{CB}:Backend"), {}, lazy=True), "args": [cond, st], "cond": cond, "vals": vals, "st": st}

    def post(self, I, inp, r):
        c = I.ctx
        n = r.fields.get("cond") if isinstance(r, SObj) else None
        ok = isinstance(n, SObj) and getattr(n.cls, "name", "") == "ConditionOR" and isinstance(n.fields.get("args"), list) and len(n.fields["args"]) == len(inp["vals"])
        c.require(ok and r.fields.get("state") is inp["st"], "converted as one OR with one operand per expanded value")
        if ok:
            c.require(all(isinstance(a, SObj) and a.fields.get("field") is inp["cond"].fields["field"] and a.fields.get("value") is v for a, v in zip(n.fields["args"], inp["vals"])), "each operand compares the same field with one expanded value, in order")

    def frame_ok(self, I, inp, obj, name):
        return False


# ----------------------------------------------------------------------------------------------- negation context (not-equals mode)
@register
class FieldEqValNegationContext(Contract):
    """TextQueryBackend.convert_condition_field_eq_val: the negated templates are in force for this comparison iff the backend renders
    NOT as not-equals AND some ancestor of the comparison is a NOT"""
    id = "C01.TextQueryBackend.convert_condition_field_eq_val"
    target = f"{CB}:TextQueryBackend.convert_condition_field_eq_val"
    props = ("C01", "C15")
    cases = tuple((chain, mode) for chain in ("", "N", "A", "AN", "NA", "OAN", "AO") for mode in (False, True))
    assumed = ["the base-class dispatcher is abstract; not_equals_context_manager by its contract (C15)", "ancestor chains up to depth 3: N = NOT, A = AND, O = OR, nearest first"]

    def setup(self, E):
        E.summaries[f"{CB}:Backend.convert_condition_field_eq_val"] = lambda I, so, a, k: SObj("Out", {"cond": a[0], "negated_templates": so.ghost.get("in_ctx")})

        class _Handle:
            value = None

            def __init__(self, so):
                self.so = so

            def exit(self, I2, exc):
                self.so.ghost["in_ctx"] = "left"

        class _CM:
            def __init__(self, so, use):
                self.so, self.use = so, use

            def as_context(self, I2):
                self.so.ghost["in_ctx"] = self.use      # the templates are swapped while the block runs
                return _Handle(self.so)

        def cm(I, so, a, k):
            return _CM(so, a[0] if a else k.get("use_negated_expressions"))
        E.summaries[f"{CB}:TextQueryBackend.not_equals_context_manager"] = cm

    def args(self, I, case):
        chain, mode = case
        idx = I.E.index
        cls = {"N": "ConditionNOT", "A": "ConditionAND", "O": "ConditionOR"}
        parent = None
        for ch in reversed(chain):
            parent = SObj(idx.lookup(f"sigma.conditions:{cls[ch]}"), {"args": [], "parent": parent, "source": None})
        cond = SObj(idx.lookup("sigma.conditions:ConditionFieldEqualsValueExpression"), {"field": I.fresh("field", "str"), "value": SObj("V", {}), "parent": parent}, lazy=True)
        me = SObj(idx.lookup(f"{CB}:TextQueryBackend"), {"convert_not_as_not_eq": mode}, lazy=True)
        return {"self": me, "args": [cond, I.fresh("state", "opaque", "State")], "cond": cond, "case": case}

    def post(self, I, inp, r):
        chain, mode = inp["case"]
        ok = isinstance(r, SObj) and r.cls == "Out" and r.fields["cond"] is inp["cond"]
        I.ctx.require(ok, "the comparison is converted by the dispatcher")
        if ok:
            want = bool(mode and "N" in chain)
            got = r.fields["negated_templates"]
            I.ctx.require(got is not None and got != "left" and ops.truth(I, got) is want, f"negated templates in force during the conversion iff not-equals mode and a NOT among the ancestors ({want})")

    def frame_ok(self, I, inp, obj, name):
        return True


# ----------------------------------------------------------------------------------------------- leaf conversions
class _Leaf(Contract):
    props = ("C01", "C05")
    target_fn = ""
    assumed = ["templates opaque; escape_and_quote_field uninterpreted (bounded stand-in C05.bounded.renderings)"]

    def setup(self, E):
        esc_summary(E)
        E.summaries[f"{CB}:TextQueryBackend.convert_value_str"] = lambda I, so, a, k: SObj("ConvertedStr", {"of": a[0]})
        E.summaries[f"{CB}:TextQueryBackend.convert_value_re"] = lambda I, so, a, k: SObj("ConvertedRe", {"of": a[0]})
        E.summaries[f"{CB}:TextQueryBackend.get_flag_template"] = lambda I, so, a, k: {"flag_i": SObj("Flag", {"of": a[0], "n": "i"}), "flag_m": SObj("Flag", {"of": a[0], "n": "m"}), "flag_s": SObj("Flag", {"of": a[0], "n": "s"})}

    def frame_ok(self, I, inp, obj, name):
        return False


def _simple_field_template(meth, attr, what):
    class C(_Leaf):
        __doc__ = f"{meth}: the {what} template receives the escaped / quoted field of the comparison; without template: NotImplementedError"
        id = f"C01.TextQueryBackend.{meth}"
        target = f"{CB}:TextQueryBackend.{meth}"
        cases = (True, False)

        def args(self, I, case):
            calls = []
            idx = I.E.index
            fld = I.fresh("field", "str")
            cond = SObj(idx.lookup("sigma.conditions:ConditionFieldEqualsValueExpression"), {"field": fld, "value": SObj("V", {})}, lazy=True)
            me = SObj(idx.lookup(f"{CB}:TextQueryBackend"), {attr: tmpl(I, calls, attr) if case else None}, lazy=True)
            return {"self": me, "args": [cond, I.fresh("state", "opaque", "State")], "calls": calls, "fld": fld, "case": case}

        def post(self, I, inp, r):
            calls = inp["calls"]
            I.ctx.require(inp["case"] and len(calls) == 1 and r is calls[0][2] and set(calls[0][1]) == {"field"} and is_esc_of(I, calls[0][1]["field"], inp["fld"]), f"the {what} template is rendered with field == the escaped field, and returned")

        def raises(self, I, inp, exc):
            I.ctx.require(exc_is(I, exc, "NotImplementedError") and not inp["case"], f"NotImplementedError exactly without template (got {exc_name(exc)})", kind="SAFE")
    C.__name__ = "Leaf_" + meth
    return C


for _m, _a, _w in (("convert_condition_field_eq_val_null", "field_null_expression", "is-null"), ("convert_condition_field_exists", "field_exists_expression", "exists"),
                   ("convert_condition_field_not_exists", "field_not_exists_expression", "not-exists")):
    register(_simple_field_template(_m, _a, _w))


@register
class LeafNum(_Leaf):
    """field = number: escaped field, the equality token, the number's text"""
    id = "C01.TextQueryBackend.convert_condition_field_eq_val_num"
    target = f"{CB}:TextQueryBackend.convert_condition_field_eq_val_num"

    def args(self, I):
        idx = I.E.index
        fld, num = I.fresh("field", "str"), I.fresh("number_text", "str")
        val = SObj("Num", {"__str__": NativeFn("__str__", lambda I2, a, k: num)})
        cond = SObj(idx.lookup("sigma.conditions:ConditionFieldEqualsValueExpression"), {"field": fld, "value": val}, lazy=True)
        eq = I.fresh("eq_token", "str")
        return {"self": SObj(idx.lookup(f"{CB}:TextQueryBackend"), {"eq_token": eq}, lazy=True), "args": [cond, I.fresh("state", "opaque", "State")], "fld": fld, "eq": eq, "val": val, "num": num}

    def post(self, I, inp, r):
        strof = z3.Function("strof", z3.IntSort(), z3.StringSort())
        ok = ops.kind_of(r) == "str"
        I.ctx.require(ok, "a string is returned")
        if ok:
            t = mk_str(r)
            I.ctx.require(t == z3.Concat(ESC(inp["fld"].t), inp["eq"].t, inp["num"].t), "escaped field, then the equality token, then the number's text")


@register
class LeafBool(_Leaf):
    """field = boolean: escaped field, equality token, the backend's token for THAT truth value; no token: NotImplementedError"""
    id = "C01.TextQueryBackend.convert_condition_field_eq_val_bool"
    target = f"{CB}:TextQueryBackend.convert_condition_field_eq_val_bool"
    cases = ((True, True), (False, True), (True, False), (False, False))

    def args(self, I, case):
        b, has = case
        idx = I.E.index
        fld = I.fresh("field", "str")
        toks = {True: I.fresh("true_token", "str") if (has or not b) else None, False: I.fresh("false_token", "str") if (has or b) else None}
        cond = SObj(idx.lookup("sigma.conditions:ConditionFieldEqualsValueExpression"), {"field": fld, "value": SObj(idx.lookup(f"{TY}:SigmaBool"), {"boolean": b}, lazy=True)}, lazy=True)
        eq = I.fresh("eq_token", "str")
        return {"self": SObj(idx.lookup(f"{CB}:TextQueryBackend"), {"eq_token": eq, "bool_values": toks}, lazy=True), "args": [cond, I.fresh("state", "opaque", "State")], "fld": fld, "eq": eq, "toks": toks, "case": case}

    def post(self, I, inp, r):
        b, has = inp["case"]
        I.ctx.require(has and ops.kind_of(r) == "str" and mk_str(r) == z3.Concat(ESC(inp["fld"].t), inp["eq"].t, inp["toks"][b].t), f"escaped field + equality token + the token for {b}")

    def raises(self, I, inp, exc):
        I.ctx.require(exc_is(I, exc, "NotImplementedError") and not inp["case"][1], f"NotImplementedError exactly when the backend has no token for the value (got {exc_name(exc)})", kind="SAFE")


def _mk_re(meth, attr, with_field):
    class C(_Leaf):
        __doc__ = f"{meth}: the regular-expression template receives {'the escaped field, ' if with_field else ''}the converted regular expression of THIS value and its flag slots"
        id = f"C01.TextQueryBackend.{meth}"
        target = f"{CB}:TextQueryBackend.{meth}"
        cases = ("ok", "no_template")

        def args(self, I, case):
            calls = []
            idx = I.E.index
            fld = I.fresh("field", "str")
            rx = SObj(idx.lookup(f"{TY}:SigmaRegularExpression"), {}, lazy=True)
            cond = SObj(idx.lookup("sigma.conditions:ConditionFieldEqualsValueExpression" if with_field else "sigma.conditions:ConditionValueExpression"), {"field": fld, "value": rx}, lazy=True)
            t = I.fresh("template", "str")
            me = SObj(idx.lookup(f"{CB}:TextQueryBackend"), {attr: t if case == "ok" else None}, lazy=True)
            got = {}

            def fmt(I2, a, k):
                got.update(k)
                got["$self"] = a
                return I2.fresh("rendered", "str")
            I.E.str_format_hook = fmt
            return {"self": me, "args": [cond, I.fresh("state", "opaque", "State")], "fld": fld, "rx": rx, "got": got, "t": t, "case": case}

        def setup(self, E):
            _Leaf.setup(self, E)
            E.externals["str.format"] = lambda I, a, k: I.E.str_format_hook(I, a, k)

        def post(self, I, inp, r):
            got = inp["got"]
            c = I.ctx
            c.require(inp["case"] == "ok" and "$self" in got, "the template is rendered")
            if "$self" in got:
                key = "regex" if with_field else "value"
                v = got.get(key)
                c.require(isinstance(v, SObj) and v.cls == "ConvertedRe" and v.fields["of"] is inp["rx"], f"{key} == convert_value_re(this regular expression)")
                if with_field:
                    c.require(is_esc_of(I, got.get("field"), inp["fld"]), "field == the escaped field")
                c.require(all(isinstance(got.get(f"flag_{n}"), SObj) and got[f"flag_{n}"].fields["of"] is inp["rx"] and got[f"flag_{n}"].fields["n"] == n for n in "ims"), "flag slots of this regular expression")

        def raises(self, I, inp, exc):
            I.ctx.require(exc_is(I, exc, "NotImplementedError") and inp["case"] == "no_template", f"NotImplementedError exactly without template (got {exc_name(exc)})", kind="SAFE")
    C.__name__ = "Leaf_" + meth
    return C


@register
class LeafFieldEqField(_Leaf):
    """field = other field: the template is chosen by the reference's starts_with / ends_with flags (contains / startswith / endswith / plain);
    field1, field2 come from the escape/quote pair function in this order"""
    id = "C01.TextQueryBackend.convert_condition_field_eq_field"
    target = f"{CB}:TextQueryBackend.convert_condition_field_eq_field"
    props = ("C01", "C05", "C03")
    cases = tuple((sw, ew, has) for sw in (False, True) for ew in (False, True) for has in (True, False))

    def setup(self, E):
        E.summaries[f"{CB}:TextQueryBackend.convert_condition_field_eq_field_escape_and_quote"] = lambda I, so, a, k: (SObj("Q", {"of": a[0], "pos": 1}), SObj("Q", {"of": a[1], "pos": 2}))

    def args(self, I, case):
        sw, ew, has = case
        calls = []
        idx = I.E.index
        f1, f2 = I.fresh("field", "str"), I.fresh("referenced_field", "str")
        ref = SObj(idx.lookup(f"{TY}:SigmaFieldReference"), {"field": f2, "starts_with": sw, "ends_with": ew}, lazy=True)
        cond = SObj(idx.lookup("sigma.conditions:ConditionFieldEqualsValueExpression"), {"field": f1, "value": ref}, lazy=True)
        names = {"contains": "field_equals_field_contains_expression", "startswith": "field_equals_field_startswith_expression", "endswith": "field_equals_field_endswith_expression", "plain": "field_equals_field_expression"}
        want = "contains" if sw and ew else "startswith" if sw else "endswith" if ew else "plain"
        me = SObj(idx.lookup(f"{CB}:TextQueryBackend"), {a: (tmpl(I, calls, n) if (has or n != want) else None) for n, a in names.items()}, lazy=True)
        return {"self": me, "args": [cond, I.fresh("state", "opaque", "State")], "calls": calls, "f": (f1, f2), "want": want, "case": case}

    def post(self, I, inp, r):
        calls, want = inp["calls"], inp["want"]
        ok = inp["case"][2] and len(calls) == 1 and calls[0][0] == want and r is calls[0][2]
        I.ctx.require(ok, f"the {want} template is rendered and returned")
        if ok:
            k = calls[0][1]
            I.ctx.require(set(k) == {"field1", "field2"} and all(isinstance(k[n], SObj) and k[n].cls == "Q" for n in k) and k["field1"].fields["of"] is inp["f"][0] and k["field1"].fields["pos"] == 1
                          and k["field2"].fields["of"] is inp["f"][1] and k["field2"].fields["pos"] == 2, "field1 = the comparison's field, field2 = the referenced field, each from its position of the escape/quote pair")

    def raises(self, I, inp, exc):
        I.ctx.require(exc_is(I, exc, "NotImplementedError") and not inp["case"][2], f"NotImplementedError exactly when the needed template is missing (got {exc_name(exc)})", kind="SAFE")


@register
class LeafValStr(_Leaf):
    """stand-alone string: the unbound-value template receives the converted value and the regular expression of the same value"""
    id = "C01.TextQueryBackend.convert_condition_val_str"
    target = f"{CB}:TextQueryBackend.convert_condition_val_str"
    cases = ("ok", "no_template")

    def setup(self, E):
        _Leaf.setup(self, E)
        E.externals["str.format"] = lambda I, a, k: I.E.str_format_hook(I, a, k)

    def args(self, I, case):
        idx = I.E.index
        val = SObj(idx.lookup(f"{TY}:SigmaString"), {}, lazy=True)
        val.fields["to_regex"] = NativeFn("to_regex", lambda I2, a, k: SObj("Regex", {}, ghost={"of": val, "add": a[0] if a else None}))
        cond = SObj(idx.lookup("sigma.conditions:ConditionValueExpression"), {"value": val}, lazy=True)
        add = I.fresh("add_escaped_re", "str")
        me = SObj(idx.lookup(f"{CB}:TextQueryBackend"), {"unbound_value_str_expression": I.fresh("template", "str") if case == "ok" else None, "add_escaped_re": add}, lazy=True)
        got = {}

        def fmt(I2, a, k):
            got.update(k)
            got["$self"] = a
            return I2.fresh("rendered", "str")
        I.E.str_format_hook = fmt
        return {"self": me, "args": [cond, I.fresh("state", "opaque", "State")], "val": val, "got": got, "add": add, "case": case}

    def post(self, I, inp, r):
        got = inp["got"]
        I.ctx.require(inp["case"] == "ok" and "$self" in got, "the template is rendered")
        if "$self" in got:
            v, rx = got.get("value"), got.get("regex")
            I.ctx.require(isinstance(v, SObj) and v.cls == "ConvertedStr" and v.fields["of"] is inp["val"], "value == convert_value_str(this value)")
            I.ctx.require(isinstance(rx, SObj) and rx.cls == "ConvertedRe" and isinstance(rx.fields["of"], SObj) and rx.fields["of"].ghost.get("of") is inp["val"] and rx.fields["of"].ghost.get("add") is inp["add"],
                          "regex == convert_value_re(to_regex of this value with the backend's additionally escaped characters)")

    def raises(self, I, inp, exc):
        I.ctx.require(exc_is(I, exc, "NotImplementedError") and inp["case"] == "no_template", f"NotImplementedError exactly without template (got {exc_name(exc)})", kind="SAFE")


register(_mk_re("convert_condition_field_eq_val_re", "re_expression", True))
register(_mk_re("convert_condition_val_re", "unbound_value_re_expression", False))


@register
class LeafQueryExpr(_Leaf):
    """field = query expression (e.g. list lookups): the expression is finalized with the escaped field"""
    id = "C01.TextQueryBackend.convert_condition_field_eq_query_expr"
    target = f"{CB}:TextQueryBackend.convert_condition_field_eq_query_expr"

    def args(self, I):
        idx = I.E.index
        got = {}
        fld = I.fresh("field", "str")

        def fin(I2, a, k):
            got["a"], got["k"] = list(a), dict(k)
            got["r"] = I2.fresh("finalized", "str")
            return got["r"]
        qe = SObj(idx.lookup(f"{TY}:SigmaQueryExpression"), {"finalize": NativeFn("finalize", fin)}, lazy=True)
        cond = SObj(idx.lookup("sigma.conditions:ConditionFieldEqualsValueExpression"), {"field": fld, "value": qe}, lazy=True)
        return {"self": SObj(idx.lookup(f"{CB}:TextQueryBackend"), {}, lazy=True), "args": [cond, I.fresh("state", "opaque", "State")], "got": got, "fld": fld}

    def post(self, I, inp, r):
        got = inp["got"]
        I.ctx.require("r" in got and r is got["r"] and not got["a"] and set(got["k"]) == {"field"} and is_esc_of(I, got["k"]["field"], inp["fld"]), "finalize(field = the escaped field) of the expression, returned unchanged")


@register
class GetFlagTemplate(Contract):
    """get_flag_template: slot flag_x is the backend's text for flag x iff the regular expression has flag x, else empty - for each of i, m, s"""
    id = "C01.TextQueryBackend.get_flag_template"
    target = f"{CB}:TextQueryBackend.get_flag_template"
    props = ("C01", "C03")
    cases = tuple(frozenset(s) for s in ((), ("IGNORECASE",), ("MULTILINE",), ("DOTALL",), ("IGNORECASE", "DOTALL"), ("IGNORECASE", "MULTILINE", "DOTALL")))

    def args(self, I, case):
        idx = I.E.index
        F = idx.lookup(f"{TY}:SigmaRegularExpressionFlag")
        flags = {EnumVal(F, n) for n in case}
        texts = {EnumVal(F, n): I.fresh(f"text_{n}", "str") for n in ("IGNORECASE", "MULTILINE", "DOTALL")}
        rx = SObj(idx.lookup(f"{TY}:SigmaRegularExpression"), {"flags": flags}, lazy=True)
        return {"self": SObj(idx.lookup(f"{CB}:TextQueryBackend"), {"re_flags": texts}, lazy=True), "args": [rx], "texts": texts, "F": F, "case": case}

    def post(self, I, inp, r):
        r = I.force(r) if not isinstance(r, dict) else r
        ok = isinstance(r, dict) and set(r) == {"flag_i", "flag_m", "flag_s"}
        I.ctx.require(ok, "slots flag_i, flag_m, flag_s")
        if ok:
            for n, c in (("IGNORECASE", "i"), ("MULTILINE", "m"), ("DOTALL", "s")):
                want = inp["texts"][EnumVal(inp["F"], n)] if n in inp["case"] else ""
                I.ctx.require(r[f"flag_{c}"] is want or r[f"flag_{c}"] == want, f"flag_{c} is the backend's text iff the expression has {n}")

    def frame_ok(self, I, inp, obj, name):
        return False


# ----------------------------------------------------------------------------------------------- in-list expression, comparisons, detections
@register
class AsInExpression(Contract):
    """convert_condition_as_in_expression: the in-list template receives the escaped field shared by all comparisons, the OR-in operator
    for an OR and the AND-in operator for an AND, and the values in order - strings converted like every other string literal, numbers as
    their text - joined by the list separator"""
    id = "C01.TextQueryBackend.convert_condition_as_in_expression"
    target = f"{CB}:TextQueryBackend.convert_condition_as_in_expression"
    props = ("C01", "C05")
    cases = tuple((cls, shape) for cls in ("ConditionOR", "ConditionAND") for shape in ("s", "ss", "sn", "ns", "nsn")) + (("ConditionOR", "off"), ("ConditionOR", "fields_differ"))

    def setup(self, E):
        esc_summary(E)
        E.summaries[f"{CB}:TextQueryBackend.convert_value_str"] = lambda I, so, a, k: Sym(z3.Function("convert_value_str", z3.StringSort(), z3.StringSort())(a[0].ghost["id"].t), "str")

    def args(self, I, case):
        cls, shape = case
        calls = []
        idx = I.E.index
        fld = I.fresh("field", "str")
        F = idx.lookup("sigma.conditions:ConditionFieldEqualsValueExpression")
        args_, vals = [], []
        for i, ch in enumerate(shape if shape not in ("off", "fields_differ") else "ss"):
            if ch == "s":
                v = SObj(idx.lookup(f"{TY}:SigmaString"), {}, lazy=True)
                v.ghost["id"] = I.fresh(f"sid{i}", "str")
            else:
                txt = I.fresh(f"num{i}", "str")
                v = SObj(idx.lookup(f"{TY}:SigmaNumber"), {"__str__": NativeFn("__str__", lambda I2, a, k, txt=txt: txt)}, lazy=True)
                v.ghost["txt"] = txt
            vals.append(v)
            f_i = I.fresh("other_field", "str") if (shape == "fields_differ" and i == 1) else fld
            args_.append(SObj(F, {"field": f_i, "value": v}, lazy=True))
        if shape == "fields_differ":
            I.ctx.assume(args_[1].fields["field"].t != fld.t)
        cond = SObj(idx.lookup(f"sigma.conditions:{cls}"), {"args": args_}, lazy=True)
        me = SObj(idx.lookup(f"{CB}:TextQueryBackend"), {"field_in_list_expression": None if shape == "off" else tmpl(I, calls, "in"), "list_separator": I.fresh("list_separator", "str"),
                                                        "or_in_operator": I.fresh("or_in", "str"), "and_in_operator": I.fresh("and_in", "str")}, lazy=True)
        return {"self": me, "args": [cond, I.fresh("state", "opaque", "State")], "calls": calls, "fld": fld, "vals": vals, "case": case}

    def post(self, I, inp, r):
        cls, shape = inp["case"]
        c, calls, me = I.ctx, inp["calls"], inp["self"]
        c.require(shape not in ("off", "fields_differ"), "no template / differing fields are rejected")
        ok = len(calls) == 1 and r is calls[0][2]
        c.require(ok, "the in-list template is rendered once and returned")
        if ok:
            k = calls[0][1]
            c.require(is_esc_of(I, k.get("field"), inp["fld"]), "field == the escaped field of the comparisons")
            c.require(k.get("op") is me.fields["or_in_operator" if cls == "ConditionOR" else "and_in_operator"], "op == the in-operator of the connective (OR -> or-in, AND -> and-in)")
            cvs = z3.Function("convert_value_str", z3.StringSort(), z3.StringSort())
            parts = []
            for i, v in enumerate(inp["vals"]):
                if i:
                    parts.append(me.fields["list_separator"].t)
                parts.append(cvs(v.ghost["id"].t) if "id" in v.ghost else v.ghost["txt"].t)
            want = parts[0] if len(parts) == 1 else z3.Concat(*parts)
            c.require(ops.kind_of(k.get("list")) == "str" and mk_str(k.get("list")) == want, "list == the values in order (strings converted as literals, numbers as text), joined by the list separator")

    def raises(self, I, inp, exc):
        shape = inp["case"][1]
        I.ctx.require((shape == "off" and exc_is(I, exc, "NotImplementedError")) or (shape == "fields_differ" and exc_is(I, exc, "ValueError")), f"NotImplementedError without template, ValueError for differing fields (got {exc_name(exc)})", kind="SAFE")

    def frame_ok(self, I, inp, obj, name):
        return False


@register
class CompareOp(Contract):
    """field <op> number: the comparison template receives the escaped field, the backend's token for THIS operator and the number"""
    id = "C01.TextQueryBackend.convert_condition_field_compare_op_val"
    target = f"{CB}:TextQueryBackend.convert_condition_field_compare_op_val"
    props = ("C01", "C03")
    cases = ("LT", "LTE", "GT", "GTE", "off", "GT on a timestamp part", "LTE on a timestamp part")

    def setup(self, E):
        esc_summary(E)
        E.externals["str.format"] = lambda I, a, k: I.E.str_format_hook(I, a, k)
        E.summaries[f"{TY}:SigmaNumber.__str__"] = lambda I, so, a, k: I.fresh("number_text", "str")

    def args(self, I, case):
        idx = I.E.index
        OPc = idx.lookup(f"{TY}:SigmaCompareExpression.CompareOperators") if False else None
        CE = idx.lookup(f"{TY}:SigmaCompareExpression")
        ops_cls = None
        for n in ("CompareOperators",):
            try:
                ops_cls = idx.lookup(f"{TY}:{n}")
            except Exception:
                ops_cls = None
        if ops_cls is None:
            raise OutsideSubset("compare operator enum not found")
        toks = {EnumVal(ops_cls, o): I.fresh(f"token_{o}", "str") for o in ("LT", "LTE", "GT", "GTE")}
        tsp = case.endswith("timestamp part")
        TP = idx.lookup(f"{TY}:TimestampPart")
        # a timestamp part carries ANY number - zero included: the part expression is chosen by the type of the value, not by its magnitude
        num = SObj(idx.lookup(f"{TY}:SigmaTimestampPart"), {"number": I.fresh("n", "int"), "timestamp_part": EnumVal(TP, "MINUTE")}, lazy=True) if tsp else SObj(idx.lookup(f"{TY}:SigmaNumber"), {}, lazy=True)
        fld = I.fresh("field", "str")
        opname = case.split()[0] if tsp else (case if case != "off" else "GT")
        val = SObj(CE, {"number": num, "op": EnumVal(ops_cls, opname)}, lazy=True)
        cond = SObj(idx.lookup("sigma.conditions:ConditionFieldEqualsValueExpression"), {"field": fld, "value": val}, lazy=True)
        got = {}

        t = I.fresh("template", "str")
        tpt = I.fresh("timestamp_part_template", "str")
        I.ctx.assume(z3.Length(tpt.t) > 0)          # (a backend that defines the expression)

        def fmt(I2, a, k):
            if a and a[0] is tpt:
                got["part_call"] = dict(k)
                got["part_text"] = I2.fresh("rendered_part", "str")
                return got["part_text"]
            got.update(k)
            got["$self"] = a
            return I2.fresh("rendered", "str")
        I.E.str_format_hook = fmt
        me = SObj(idx.lookup(f"{CB}:TextQueryBackend"), {"compare_op_expression": None if case == "off" else t, "compare_operators": toks, "field_timestamp_part_expression": tpt if tsp else None,
                                                        "timestamp_part_mapping": {EnumVal(TP, "MINUTE"): "%M", EnumVal(TP, "HOUR"): "%H"} if tsp else None}, lazy=True)
        return {"self": me, "args": [cond, I.fresh("state", "opaque", "State")], "got": got, "toks": toks, "num": num, "fld": fld, "val": val, "case": case, "tsp": tsp, "opname": opname}

    def post(self, I, inp, r):
        got = inp["got"]
        if inp["tsp"]:
            pc = got.get("part_call")
            I.ctx.require(pc is not None and "$self" not in got, "a comparison on a timestamp part is rendered with the timestamp-part expression of the field, whatever the number (0 included)")
            if pc is not None:
                I.ctx.require(is_esc_of(I, pc.get("field"), inp["fld"]) and pc.get("timestamp_part") == "%M", "the part expression receives the escaped field and the backend's token of THIS part")
            return
        I.ctx.require(inp["case"] != "off" and "$self" in got, "the comparison template is rendered")
        if "$self" in got:
            I.ctx.require(is_esc_of(I, got.get("field"), inp["fld"]), "field == the escaped field")
            I.ctx.require(got.get("operator") is inp["toks"][inp["val"].fields["op"]], f"operator == the backend's token for {inp['opname']}")
            I.ctx.require(got.get("value") is inp["num"], "value == the number of the comparison")

    def raises(self, I, inp, exc):
        I.ctx.require(exc_is(I, exc, "NotImplementedError") and inp["case"] == "off", f"NotImplementedError exactly without template (got {exc_name(exc)})", kind="SAFE")

    def frame_ok(self, I, inp, obj, name):
        return False


@register
class DetectionPostprocess(Contract):
    """SigmaDetection.postprocess: one item -> that item's condition; several -> the detection's linking (AND for a map, OR for a list) over
    the items' conditions in order, hanging under the parent; none (everything dropped) -> no condition"""
    id = "C01.SigmaDetection.postprocess"
    target = "sigma.rule.detection:SigmaDetection.postprocess"
    props = ("C01", "C02")
    cases = tuple((n, link) for n in (0, 1, 2, 3) for link in ("ConditionAND", "ConditionOR"))
    assumed = ["the items' own postprocess is abstract (returns their condition)"]

    def args(self, I, case):
        n, link = case
        idx = I.E.index
        conds = [SObj(idx.lookup("sigma.conditions:ConditionFieldEqualsValueExpression"), {"field": f"f{i}", "value": SObj("V", {}), "parent": None}) for i in range(n)]
        seen = []

        def pp(i):
            def f(I2, a, k):
                seen.append((i, a[1] if len(a) > 1 else k.get("parent")))
                return conds[i]
            return f
        items = [SObj("Item", {"postprocess": NativeFn("postprocess", pp(i))}) for i in range(n)]
        me = SObj(idx.lookup("sigma.rule.detection:SigmaDetection"), {"detection_items": items, "item_linking": ClassRef(idx.lookup(f"sigma.conditions:{link}")), "source": None, "parent": None}, lazy=True)
        parent = SObj("Parent", {})
        return {"self": me, "args": [I.fresh("detections", "opaque", "Detections"), parent], "conds": conds, "seen": seen, "parent": parent, "case": case}

    def post(self, I, inp, r):
        n, link = inp["case"]
        c, me = I.ctx, inp["self"]
        c.require([i for i, _ in inp["seen"]] == list(range(n)) and all(p is me for _, p in inp["seen"]), "every item is postprocessed once, in order, with this detection as parent")
        if n == 0:
            c.require(r is None, "an empty detection is no condition")
        elif n == 1:
            c.require(r is inp["conds"][0], "a single item: its condition")
        else:
            ok = isinstance(r, SObj) and getattr(r.cls, "name", "") == link and isinstance(r.fields.get("args"), list) and len(r.fields["args"]) == n and all(a is b for a, b in zip(r.fields["args"], inp["conds"]))
            c.require(ok, f"{link} over the items' conditions, in order")
            if ok:
                c.require(r.fields.get("parent") is inp["parent"], "the linking node hangs under the detection's parent")
                c.require(all(x.fields.get("parent") is r for x in inp["conds"]), "every item condition's parent is the linking node")

    def frame_ok(self, I, inp, obj, name):
        return name in ("parent", "source")


@register
class ConditionGroup(Contract):
    """convert_condition_group: the converted condition inside the group template - ALWAYS (whatever the text of the converted condition
    looks like: `(A) or (B)` begins and ends with parentheses and is not grouped); deferred parts and vanished conditions pass through;
    without a group template the backend cannot group"""
    id = "C01.TextQueryBackend.convert_condition_group"
    target = f"{CB}:TextQueryBackend.convert_condition_group"
    props = ("C01", "C18")
    cases = ("text", "text-that-looks-grouped", "plain-text", "deferred", "vanished", "no-template")

    def args(self, I, case):
        idx = I.E.index
        calls = []

        def fmt(I2, a, k):
            out = I2.fresh("grouped", "str")
            calls.append((dict(k), out))
            return out
        if case == "deferred":
            conv = SObj(idx.lookup("sigma.conversion.deferred:DeferredQueryExpression"), {}, lazy=True)
        elif case == "vanished":
            conv = None
        elif case == "text-that-looks-grouped":
            conv = "(a=1 or a=2) or (b=3 or b=4)"
        elif case == "plain-text":
            conv = "a=1 or b=2"
        else:
            conv = I.fresh("converted", "str")
        I.E.summaries[f"{CB}:TextQueryBackend.convert_condition"] = lambda I2, so, a, k: conv
        concrete = case in ("text-that-looks-grouped", "plain-text")        # a real template text and a real converted text: evaluated as Python does
        ge = None if case == "no-template" else "<{expr}>" if case == "plain-text" else "({expr})" if concrete else SObj("Template", {"format": NativeFn("format", fmt)})
        me = SObj(idx.lookup(f"{CB}:TextQueryBackend"), {"group_expression": ge}, lazy=True)
        return {"self": me, "args": [SObj("Cond", {}), SObj("State", {})], "conv": conv, "calls": calls, "case": case}

    def post(self, I, inp, r):
        case, calls = inp["case"], inp["calls"]
        c = I.ctx
        c.require(case != "no-template", "without group template: not supported")
        if case in ("deferred", "vanished"):
            c.require(r is inp["conv"] and calls == [], "deferred parts / vanished conditions pass through ungrouped")
        elif case in ("text-that-looks-grouped", "plain-text"):
            want = ("(" + inp["conv"] + ")") if case == "text-that-looks-grouped" else ("<" + inp["conv"] + ">")
            c.require(r == want, f"the converted text inside the group template, always - also when it begins and ends like a group itself: {want!r} (got {r!r})")
        else:
            c.require(len(calls) == 1 and set(calls[0][0]) == {"expr"} and (calls[0][0]["expr"] is inp["conv"] or calls[0][0]["expr"] == inp["conv"]) and r is calls[0][1], "the converted text inside the group template, always")

    def raises(self, I, inp, exc):
        I.ctx.require(inp["case"] == "no-template" and exc_name(exc) == "NotImplementedError", f"NotImplementedError without template only (got {exc_name(exc)})", kind="SAFE")

    def frame_ok(self, I, inp, obj, name):
        return False
