"""C15 - converting a rule gives the same result whatever was converted before: reset / restore / cache-transparency contracts."""
from __future__ import annotations
import ast, os, z3
from pyvc.api import *
from pyvc.values import *
from pyvc import ops

SWAPPED = ("eq_expression", "re_expression", "cidr_expression", "startswith_expression", "case_sensitive_startswith_expression", "endswith_expression",
           "case_sensitive_endswith_expression", "contains_expression", "case_sensitive_contains_expression")


def negated_name(n):
    return n.replace("case_sensitive_", "case_sensitive_not_") if n.startswith("case_sensitive_") else "not_" + n


@register
class NotEqualsContextManager(Contract):
    """on every exit of the `with` body - normal or exceptional - each class-level template equals its value on entry; inside the body
    the negated templates are in force (when requested)"""
    id = "C15.TextQueryBackend.not_equals_context_manager"
    target = "sigma.conversion.base:TextQueryBackend.not_equals_context_manager"
    props = ("C15", "C08", "C01")
    cases = ((True, "normal"), (True, "raises"), (False, "normal"), (False, "raises"))
    assumed = ["the with-body is abstract: it returns or raises an arbitrary exception at the yield point (contextlib.contextmanager semantics)"]

    def args(self, I, case):
        use_neg, body = case
        T = I.E.index.lookup("sigma.conversion.base:TextQueryBackend")
        I.ctx.class_attrs = {}
        orig = {}
        for n in SWAPPED:
            orig[n] = I.fresh("orig_" + n, "opaque", "Template")
            I.ctx.class_attrs[(T.qualname, n)] = orig[n]
            I.ctx.class_attrs[(T.qualname, negated_name(n))] = I.fresh("neg_" + n, "opaque", "Template")
        me = SObj(T, {}, lazy=True)
        seen = {}

        def hook(I2, val):
            seen["inside"] = {n: I2.class_attr(T, n) for n in SWAPPED}
            if body == "raises":
                from pyvc.interp import PyRaise
                raise PyRaise(ExcValue("RuntimeError", ("anything the body raises",)))
        I.yield_hooks = [hook]
        return {"self": me, "args": [use_neg], "orig": orig, "seen": seen, "T": T, "case": case}

    def check_restored(self, I, inp):
        T = inp["T"]
        for n in SWAPPED:
            I.ctx.require(I.class_attr(T, n) is inp["orig"][n], f"class attribute {n} has its entry value again")

    def post(self, I, inp, r):
        use_neg, body = inp["case"]
        I.ctx.require(body == "normal", "an exception raised by the body is not swallowed")
        inside = inp["seen"].get("inside")
        I.ctx.require(inside is not None, "the body runs")
        if inside is not None:
            T = inp["T"]
            for n in SWAPPED:
                want = I.ctx.class_attrs[(T.qualname, negated_name(n))] if use_neg else inp["orig"][n]
                I.ctx.require(inside[n] is want, f"inside the body {n} is the {'negated' if use_neg else 'original'} template")
        self.check_restored(I, inp)

    def raises(self, I, inp, exc):
        use_neg, body = inp["case"]
        I.ctx.require(body == "raises" and isinstance(exc, ExcValue) and exc.cname == "RuntimeError", f"only the body's own exception propagates (got {exc_name(exc)})", kind="SAFE")
        self.check_restored(I, inp)

    def frame_ok(self, I, inp, obj, name):
        return isinstance(obj, ClassRef) and name in SWAPPED

    def replay(self, values):
        from sigma.backends.test import TextQueryTestBackend

        class B(TextQueryTestBackend):
            convert_not_as_not_eq = True
        b = B()
        before = {n: getattr(B, n) for n in SWAPPED}
        try:
            with b.not_equals_context_manager(True):
                raise RuntimeError("body fails")
        except RuntimeError:
            pass
        after = {n: getattr(B, n) for n in SWAPPED}
        bad = [n for n in SWAPPED if before[n] != after[n]]
        return f"after an exception inside not_equals_context_manager the class templates {bad} stay negated" if bad else None


# ----------------------------------------------------------------------------------------------- cached condition parses
def reachable(v, seen=None):
    seen = seen if seen is not None else {}
    if id(v) in seen:
        return seen
    if isinstance(v, SObj):
        seen[id(v)] = v
        for x in v.fields.values():
            reachable(x, seen)
    elif isinstance(v, (list, tuple)):
        for x in v:
            reachable(x, seen)
    elif isinstance(v, dict):
        for x in v.values():
            reachable(x, seen)
    return seen


@register
class ConditionParseCache(Contract):
    """the parse tree returned by the lru_cached parser is SHARED between all conditions with the same text: no node of it may reach
    postprocess (which rewrites the tree in place) or the caller - only a deep copy may"""
    id = "C15.SigmaCondition.parse"
    target = "sigma.conditions:SigmaCondition.parse"
    props = ("C15", "C01", "C02")
    cases = (True, False)
    assumed = ["functools.lru_cache returns the same object for equal arguments (that is what makes the value shared)", "copy.deepcopy yields a structurally equal tree of fresh objects",
               "the pyparsing grammar is external: the cached tree is an arbitrary nested condition tree (one representative shape with nested operators)"]

    def setup(self, E):
        idx = E.index

        def s_cached(I, so, a, k):
            C = lambda n: idx.lookup(f"sigma.conditions:{n}")
            leaf1 = SObj(C("ConditionIdentifier"), {"args": ["sel"]})
            leaf2 = SObj(C("ConditionSelector"), {"args": ["1", "filter_*"]})
            inner = SObj(C("ConditionNOT"), {"args": [leaf2]})
            root = SObj(C("ConditionAND"), {"args": [leaf1, inner]})
            for n in (leaf1, leaf2, inner, root):
                n.ghost["shared"] = True
            I.E._c15_cached = root
            return root
        E.summaries["sigma.conditions:_parse_condition_string"] = s_cached

        def s_post(I, so, a, k):
            bad = [n for n in reachable(so).values() if n.ghost.get("shared")]
            I.ctx.require(not bad, "postprocess (which rewrites the tree in place) only ever sees a private copy of the cached parse tree", kind="FRAME")
            so.ghost["postprocessed"] = True
            return so
        for cname in ("ConditionItem", "ConditionIdentifier", "ConditionSelector"):
            E.summaries[f"sigma.conditions:{cname}.postprocess"] = s_post

    def args(self, I, case):
        me = SObj(I.E.index.lookup("sigma.conditions:SigmaCondition"), {"condition": "sel and not 1 of filter_*", "detections": I.fresh("detections", "opaque", "Detections"), "source": None})
        return {"self": me, "args": [case], "case": case}

    def post(self, I, inp, r):
        c = I.ctx
        c.require(isinstance(r, SObj), "returns a tree")
        if isinstance(r, SObj):
            c.require(not [n for n in reachable(r).values() if n.ghost.get("shared")], "no node of the cached tree is handed to the caller")
            c.require(bool(r.ghost.get("postprocessed")) == bool(inp["case"]), "postprocessed iff requested")
            cached = reachable(I.E._c15_cached)
            c.require(not any(n.ghost.get("postprocessed") for n in cached.values()), "the cached tree is unchanged")

    def frame_ok(self, I, inp, obj, name):
        return False

    def replay(self, values):
        from sigma.rule import SigmaRule
        from sigma.backends.test import TextQueryTestBackend
        mk = lambda v: SigmaRule.from_yaml(f"title: t\nlogsource:\n  category: c\ndetection:\n  sel:\n    a: 1\n  filter_x:\n    b: {v}\n  condition: sel and not 1 of filter_*\n")
        q1 = TextQueryTestBackend().convert_rule(mk("first"))
        q2 = TextQueryTestBackend().convert_rule(mk("second"))
        return None if "second" in q2[0] and "first" not in q2[0] else f"a second rule with the same condition text converts to {q2} (first rule gave {q1}): the cached parse tree leaked"
