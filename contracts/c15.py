"""C15 - converting a rule gives the same result whatever was converted before: reset / restore / cache-transparency contracts."""
from __future__ import annotations
import ast, os, z3
from pyvc.api import *
from pyvc.values import *
from pyvc import ops

SWAPPED = ("eq_expression", "re_expression", "cidr_expression", "startswith_expression", "case_sensitive_startswith_expression", "endswith_expression",
           "case_sensitive_endswith_expression", "contains_expression", "case_sensitive_contains_expression")


def negated_name(n):
    return n.replace("case_sensitive_", "case_sensitive_not_") if n.startswith("case_sensitive_") else "not_" + n


@register
class NotEqualsContextManager(Contract):
    """on every exit of the `with` body - normal or exceptional - each class-level template equals its value on entry; inside the body
    the negated templates are in force (when requested)"""
    id = "C15.TextQueryBackend.not_equals_context_manager"
    target = "sigma.conversion.base:TextQueryBackend.not_equals_context_manager"
    props = ("C15", "C08", "C01", "C05", "C17")
    cases = ((True, "normal"), (True, "raises"), (False, "normal"), (False, "raises"))
    assumed = ["the with-body is abstract: it returns or raises an arbitrary exception at the yield point (contextlib.contextmanager semantics)"]

    def args(self, I, case):
        use_neg, body = case
        T = I.E.index.lookup("sigma.conversion.base:TextQueryBackend")
        I.ctx.class_attrs = {}
        orig = {}
        for n in SWAPPED:
            orig[n] = I.fresh("orig_" + n, "opaque", "Template")
            I.ctx.class_attrs[(T.qualname, n)] = orig[n]
            I.ctx.class_attrs[(T.qualname, negated_name(n))] = I.fresh("neg_" + n, "opaque", "Template")
        me = SObj(T, {}, lazy=True)
        seen = {}

        def hook(I2, val):
            seen["inside"] = {n: I2.class_attr(T, n) for n in SWAPPED}
            if body == "raises":
                from pyvc.interp import PyRaise
                raise PyRaise(ExcValue("RuntimeError", ("anything the body raises",)))
        I.yield_hooks = [hook]
        return {"self": me, "args": [use_neg], "orig": orig, "seen": seen, "T": T, "case": case}

    def check_restored(self, I, inp):
        T = inp["T"]
        for n in SWAPPED:
            I.ctx.require(I.class_attr(T, n) is inp["orig"][n], f"class attribute {n} has its entry value again")

    def post(self, I, inp, r):
        use_neg, body = inp["case"]
        I.ctx.require(body == "normal", "an exception raised by the body is not swallowed")
        inside = inp["seen"].get("inside")
        I.ctx.require(inside is not None, "the body runs")
        if inside is not None:
            T = inp["T"]
            for n in SWAPPED:
                want = I.ctx.class_attrs[(T.qualname, negated_name(n))] if use_neg else inp["orig"][n]
                I.ctx.require(inside[n] is want, f"inside the body {n} is the {'negated' if use_neg else 'original'} template")
        self.check_restored(I, inp)

    def raises(self, I, inp, exc):
        use_neg, body = inp["case"]
        I.ctx.require(body == "raises" and isinstance(exc, ExcValue) and exc.cname == "RuntimeError", f"only the body's own exception propagates (got {exc_name(exc)})", kind="SAFE")
        self.check_restored(I, inp)

    def frame_ok(self, I, inp, obj, name):
        return isinstance(obj, ClassRef) and name in SWAPPED

    def replay(self, values):
        from sigma.backends.test import TextQueryTestBackend

        class B(TextQueryTestBackend):
            convert_not_as_not_eq = True
        b = B()
        before = {n: getattr(B, n) for n in SWAPPED}
        try:
            with b.not_equals_context_manager(True):
                raise RuntimeError("body fails")
        except RuntimeError:
            pass
        after = {n: getattr(B, n) for n in SWAPPED}
        bad = [n for n in SWAPPED if before[n] != after[n]]
        return f"after an exception inside not_equals_context_manager the class templates {bad} stay negated" if bad else None


# ----------------------------------------------------------------------------------------------- cached condition parses
def reachable(v, seen=None):
    seen = seen if seen is not None else {}
    if id(v) in seen:
        return seen
    if isinstance(v, SObj):
        seen[id(v)] = v
        for x in v.fields.values():
            reachable(x, seen)
    elif isinstance(v, (list, tuple)):
        for x in v:
            reachable(x, seen)
    elif isinstance(v, dict):
        for x in v.values():
            reachable(x, seen)
    return seen


@register
class ConditionParseCache(Contract):
    """the parse tree returned by the lru_cached parser is SHARED between all conditions with the same text: no node of it may reach
    postprocess (which rewrites the tree in place) or the caller - only a deep copy may"""
    id = "C15.SigmaCondition.parse"
    target = "sigma.conditions:SigmaCondition.parse"
    props = ("C15", "C01", "C02")
    cases = (True, False)
    assumed = ["functools.lru_cache returns the same object for equal arguments (that is what makes the value shared)", "copy.deepcopy yields a structurally equal tree of fresh objects",
               "the pyparsing grammar is external: the cached tree is an arbitrary nested condition tree (one representative shape with nested operators)"]

    def setup(self, E):
        idx = E.index

        def s_cached(I, so, a, k):
            C = lambda n: idx.lookup(f"sigma.conditions:{n}")
            leaf1 = SObj(C("ConditionIdentifier"), {"args": ["sel"]})
            leaf2 = SObj(C("ConditionSelector"), {"args": ["1", "filter_*"]})
            inner = SObj(C("ConditionNOT"), {"args": [leaf2]})
            root = SObj(C("ConditionAND"), {"args": [leaf1, inner]})
            for n in (leaf1, leaf2, inner, root):
                n.ghost["shared"] = True
            I.E._c15_cached = root
            return root
        E.summaries["sigma.conditions:_parse_condition_string"] = s_cached

        def s_post(I, so, a, k):
            bad = [n for n in reachable(so).values() if n.ghost.get("shared")]
            I.ctx.require(not bad, "postprocess (which rewrites the tree in place) only ever sees a private copy of the cached parse tree", kind="FRAME")
            so.ghost["postprocessed"] = True
            return so
        for cname in ("ConditionItem", "ConditionIdentifier", "ConditionSelector"):
            E.summaries[f"sigma.conditions:{cname}.postprocess"] = s_post

    def args(self, I, case):
        me = SObj(I.E.index.lookup("sigma.conditions:SigmaCondition"), {"condition": "sel and not 1 of filter_*", "detections": I.fresh("detections", "opaque", "Detections"), "source": None})
        return {"self": me, "args": [case], "case": case}

    def post(self, I, inp, r):
        c = I.ctx
        c.require(isinstance(r, SObj), "returns a tree")
        if isinstance(r, SObj):
            c.require(not [n for n in reachable(r).values() if n.ghost.get("shared")], "no node of the cached tree is handed to the caller")
            c.require(bool(r.ghost.get("postprocessed")) == bool(inp["case"]), "postprocessed iff requested")
            cached = reachable(I.E._c15_cached)
            c.require(not any(n.ghost.get("postprocessed") for n in cached.values()), "the cached tree is unchanged")

    def frame_ok(self, I, inp, obj, name):
        return False

    def replay(self, values):
        from sigma.rule import SigmaRule
        from sigma.backends.test import TextQueryTestBackend
        mk = lambda v: SigmaRule.from_yaml(f"title: t\nlogsource:\n  category: c\ndetection:\n  sel:\n    a: 1\n  filter_x:\n    b: {v}\n  condition: sel and not 1 of filter_*\n")
        q1 = TextQueryTestBackend().convert_rule(mk("first"))
        q2 = TextQueryTestBackend().convert_rule(mk("second"))
        return None if "second" in q2[0] and "first" not in q2[0] else f"a second rule with the same condition text converts to {q2} (first rule gave {q1}): the cached parse tree leaked"


@register
class ConditionParseAfterRewrite(Contract):
    """a condition object whose text was rewritten after an earlier parse (pipelines rewrite conditions in place; validators parse before
    the pipeline runs) parses its CURRENT text: nothing of the earlier parse is kept on the object"""
    id = "C15.SigmaCondition.parse[after rewrite]"
    target = "sigma.conditions:SigmaCondition.parse"
    props = ("C15", "C19", "C12")
    cases = (True, False)
    assumed = ["the grammar is external: the tree of a text is one identifier leaf carrying that text"]

    def setup(self, E):
        idx = E.index

        def s_cached(I, so, a, k):
            return SObj(idx.lookup("sigma.conditions:ConditionIdentifier"), {"args": [I.force(a[0])]})
        E.summaries["sigma.conditions:_parse_condition_string"] = s_cached
        for cname in ("ConditionItem", "ConditionIdentifier", "ConditionSelector"):
            E.summaries[f"sigma.conditions:{cname}.postprocess"] = lambda I, so, a, k: so

    def args(self, I, case):
        me = SObj(I.E.index.lookup("sigma.conditions:SigmaCondition"), {"condition": "before", "detections": I.fresh("detections", "opaque", "Detections"), "source": None}, lazy=True)
        return {"self": me, "args": [case], "case": case}

    def before(self, I, inp):
        me = inp["self"]
        I.call_function(I.E.index.lookup(self.target), me, [False], {})       # e.g. a validator looks at the condition
        me.fields["condition"] = "c and (before)"                             # e.g. add_condition rewrites it

    def post(self, I, inp, r):
        ok = isinstance(r, SObj) and isinstance(r.fields.get("args"), list) and len(r.fields["args"]) == 1
        I.ctx.require(ok, "returns a tree")
        if ok:
            I.ctx.require(r.fields["args"][0] == "c and (before)", f"the tree is the parse of the current condition text (got the parse of {r.fields['args'][0]!r})")

    def frame_ok(self, I, inp, obj, name):
        return True       # what the object may cache is not restricted - only what a later parse returns

    def replay(self, values):
        from sigma.rule import SigmaRule
        from sigma.backends.test import TextQueryTestBackend
        from sigma.processing.pipeline import ProcessingPipeline
        from sigma.validation import SigmaValidator
        from sigma.validators.core import validators
        mk = lambda: SigmaRule.from_yaml("title: t\nlogsource:\n  category: c\ndetection:\n  sel:\n    a: 1\n  condition: sel\n")
        pl = lambda: ProcessingPipeline.from_dict({"name": "p", "priority": 10, "transformations": [{"type": "add_condition", "conditions": {"idx": "main"}}]})
        fresh = TextQueryTestBackend(pl()).convert_rule(mk())
        r = mk()
        SigmaValidator([validators["dangling_detection"], validators["dangling_condition"]]).validate_rules(iter([r]))
        after = TextQueryTestBackend(pl()).convert_rule(r)
        return None if fresh == after else f"a rule converts to {fresh}, the same rule validated first converts to {after}"


@register
class FinishQueryFrame(Contract):
    """TextQueryBackend.finish_query gives the query template a VIEW of the conversion state (pipeline state over backend defaults) and
    changes neither: the backend's state_defaults (one dict per class, shared by every rule and every instance) and the rule's
    processing_state hold exactly what they held before the call"""
    id = "C15.TextQueryBackend.finish_query"
    target = "sigma.conversion.base:TextQueryBackend.finish_query"
    props = ("C15", "C08", "C05", "C01")
    cases = tuple((nd, ns, dfr) for nd in (0, 1, 2) for ns in (0, 1) for dfr in (False, True))
    assumed = ["str.format of the query template is abstract (receives the arguments, returns a string)", "collections.ChainMap modelled as an object holding its maps (first hit wins)",
               "sizes of state_defaults (0..2) and of the pipeline state (0..1) unrolled; the pipeline key is also a defaults key when both are non-empty"]

    def setup(self, E):
        E.externals["collections.ChainMap"] = lambda I, a, k: SObj("ChainMap", {"maps": list(a)})
        E.summaries["sigma.conversion.base:Backend.finish_query"] = lambda I, so, a, k: a[1]

    def args(self, I, case):
        nd, ns, dfr = case
        cap = {}

        def fmt(I2, a, k):
            cap.update(k)
            cap["state_items"] = None
            st = k.get("state")
            if isinstance(st, dict):
                cap["state_items"] = dict(st)
            cap["r"] = I2.fresh("rendered", "str")
            return cap["r"]

        def extend(I2, a, k):
            # template + text: still a template, but one that now contains text that was meant literally
            def fmt_ext(I3, a3, k3):
                cap["extended"] = True
                return fmt(I3, a3, k3)
            return SObj("Template", {"format": NativeFn("format", fmt_ext), "__add__": NativeFn("__add__", extend)})
        defaults = {f"k{i}": I.fresh(f"default{i}", "str") for i in range(nd)}
        pstate = {"k0": I.fresh("set_by_pipeline", "str")} if ns else {}
        dtexts = []
        deferred = [SObj("Deferred", {"finalize_expression": NativeFn("finalize_expression", lambda I2, a, k: (dtexts.append(I2.fresh("deferred_text", "str")), dtexts[-1])[1])})] if dfr else []
        state = SObj(I.E.index.lookup("sigma.conversion.state:ConversionState"), {"deferred": deferred, "processing_state": pstate})
        me = SObj(I.E.index.lookup("sigma.conversion.base:TextQueryBackend"),
                  {"state_defaults": defaults, "query_expression": SObj("Template", {"format": NativeFn("format", fmt), "__add__": NativeFn("__add__", extend)}), "deferred_start": I.fresh("dstart", "str"), "deferred_separator": I.fresh("dsep", "str"),
                   "deferred_only_query": I.fresh("donly", "str")}, lazy=True)
        return {"self": me, "args": [SObj("Rule", {}), I.fresh("query", "str"), state], "cap": cap, "defaults": defaults, "pstate": pstate, "snap_d": dict(defaults), "snap_p": dict(pstate), "dtexts": dtexts, "case": case}

    def post(self, I, inp, r):
        c, cap = I.ctx, inp["cap"]
        d, p = inp["defaults"], inp["pstate"]
        # rendering: only the backend's query expression is a format template; the deferred parts are text that follows the rendered query
        c.require(not cap.get("extended"), "the deferred parts are not made part of the format template (a brace of a value inside them is literal text, not a replacement field)")
        if "r" in cap and not cap.get("extended"):
            me = inp["self"].fields
            want = ops.concat_strs(I, [cap["r"]] + ([me["deferred_start"]] + inp["dtexts"] if inp["case"][2] else []))
            c.require(len(inp["dtexts"]) == (1 if inp["case"][2] else 0) and ops.mk_bool_term(ops.py_eq(I, r, want)), "the query is the rendered query expression, followed by the deferred start and the deferred parts when there are any")
        c.require(set(d) == set(inp["snap_d"]) and all(d[k] is v for k, v in inp["snap_d"].items()), "state_defaults of the backend class is unchanged (no key added, no value replaced)", kind="FRAME")
        c.require(set(p) == set(inp["snap_p"]) and all(p[k] is v for k, v in inp["snap_p"].items()), "processing_state of the rule is unchanged", kind="FRAME")
        st = cap.get("state")
        want = {**inp["snap_d"], **inp["snap_p"]}
        if isinstance(st, SObj) and st.cls == "ChainMap":
            maps = st.fields["maps"]
            c.require(len(maps) == 2 and maps[0] is p and maps[1] is d, "the template sees the pipeline state first, then the backend defaults")
        else:
            items = cap.get("state_items")
            c.require(isinstance(items, dict) and set(items) == set(want) and all(items[k] is v for k, v in want.items()), "the template sees the pipeline state first, then the backend defaults")
            c.require(st is not d or not p, "the view is not the defaults dict itself (it would be written to)", kind="FRAME")

    def replay(self, values):
        """the scenario of the property on the real code: a rule for which the pipeline sets a state key, then one for which it does not"""
        from sigma.backends.test import TextQueryTestBackend
        from sigma.collection import SigmaCollection
        from sigma.processing.pipeline import ProcessingPipeline

        def backend():
            class B(TextQueryTestBackend):
                state_defaults = {"index": "main"}
                query_expression = "index={state[index]} {query}"
            return B(ProcessingPipeline.from_dict({"name": "p", "priority": 10, "transformations": [
                {"id": "s", "type": "set_state", "key": "index", "val": "windows", "rule_conditions": [{"type": "logsource", "product": "windows"}]}]}))
        rule = lambda t, prod: {"title": t, "logsource": {"product": prod}, "detection": {"s": {"f": t}, "condition": "s"}}
        alone = backend().convert(SigmaCollection.from_dicts([rule("b", "linux")]))
        after = backend().convert(SigmaCollection.from_dicts([rule("a", "windows"), rule("b", "linux")]))[1:]
        if alone != after:
            return f"rule b converts to {alone} alone and to {after} after a rule for which the pipeline set state key 'index'"
        # a backend that defers wildcard matches, and a value with braces
        from sigma.conversion.deferred import DeferredTextQueryExpression

        class Like(DeferredTextQueryExpression):
            template = "where {field} {op} {value}"
            operators = {True: "not like", False: "like"}
            default_field = "_raw"

        class D(TextQueryTestBackend):
            def convert_condition_field_eq_val_str(self, cond, state):
                if cond.value.contains_special():
                    return Like(state, self.escape_and_quote_field(cond.field), self.convert_value_str(cond.value, state))
                return super().convert_condition_field_eq_val_str(cond, state)
        for v in ("*{4D36E965}*", "*{query}*", "a{0}b*"):
            try:
                got = D().convert(SigmaCollection.from_dicts([{"title": "t", "logsource": {"category": "c"}, "detection": {"s": {"g": "plain", "f": v}, "condition": "s"}}]))
            except Exception as e:
                got = [f"{type(e).__name__}: {e}"]
            want = [f'g="plain" | where f like "{v}"']
            if got != want:
                return f"a backend that defers wildcard matches converts the value {v!r} to {got}, expected {want} (braces of a value are literal text)"
        return None

    def frame_ok(self, I, inp, obj, name):
        return False


@register
class TextBackendNew(Contract):
    """TextQueryBackend.__new__: the flag explicit_not_exists_expression is derived from, and stored on, the class that is being
    instantiated - no other backend class (in particular not the shared base class) is written to"""
    id = "C15.TextQueryBackend.__new__"
    target = "sigma.conversion.base:TextQueryBackend.__new__"
    props = ("C15", "C01")
    cases = ("with-not-exists-template", "without")
    assumed = ["object.__new__ is external: a fresh instance of the class"]

    def setup(self, E):
        E.summaries["object.__new__"] = lambda I, so, a, k: SObj(a[0].info if isinstance(a[0], ClassRef) else "Instance", {}, lazy=True)

    def args(self, I, case):
        sub = I.E.index.lookup("sigma.backends.test.backend:TextQueryTestBackend")
        cref = ClassRef(sub)
        if not hasattr(I.ctx, "class_attrs") or I.ctx.class_attrs is None:
            I.ctx.class_attrs = {}
        tmpl = I.fresh("not_exists_template", "str") if case.startswith("with-") else None
        I.ctx.class_attrs[(sub.qualname, "field_not_exists_expression")] = tmpl
        return {"self": cref, "args": [], "sub": sub, "case": case}

    def post(self, I, inp, r):
        c = I.ctx
        ca = getattr(I.ctx, "class_attrs", None) or {}
        written = {k: v for k, v in ca.items() if k[1] == "explicit_not_exists_expression"}
        c.require(set(written) == {(inp["sub"].qualname, "explicit_not_exists_expression")}, f"the flag is stored on the class being instantiated and on no other class (written: {sorted(k[0] for k in written)})", kind="FRAME")
        v = written.get((inp["sub"].qualname, "explicit_not_exists_expression"))
        c.require(v is (inp["case"] == "with-not-exists-template") or (isinstance(v, Sym) and False), "the flag says whether THIS class has a not-exists template")

    def frame_ok(self, I, inp, obj, name):
        return isinstance(obj, ClassRef) and name == "explicit_not_exists_expression"


# ----------------------------------------------------------------------------------------------- modifier type information
@register
class ModifierTypeHint(Contract):
    """SigmaModifier._get_modify_type_hint: the accepted value type of a modifier is the annotation of ITS class's modify(), whatever
    modifiers were asked before - a parent class, a sibling, the class itself (cache hit), or none (history prefix). A class that derives
    from a used modifier and overrides modify() must not see the parent's cached answer."""
    id = "C15.SigmaModifier._get_modify_type_hint"
    target = "sigma.modifiers:SigmaModifier._get_modify_type_hint"
    props = ("C15", "C03")
    cases = ("fresh", "parent before", "sibling before", "self before", "parent, sibling and self before", "child before")
    assumed = ["typing.get_type_hints(self.modify) is abstract: a function of the class of self (every class may override modify(); the built-in classes are stand-ins for any derived modifier)"]
    KIDS = {"me": "SigmaLessThanModifier", "parent": "SigmaCompareModifier", "sibling": "SigmaGreaterThanModifier", "child": "SigmaLessThanModifier"}

    def setup(self, E):
        self.hints, self.asked = {}, []

        def gth(I, a, k):
            bm = I.force(a[0])
            cls = bm.self_obj.cls
            self.asked.append(cls.qualname)
            if cls.qualname not in self.hints:
                self.hints[cls.qualname] = SObj("TypeHint", {"of": cls.qualname})
            return {"val": self.hints[cls.qualname], "return": SObj("TypeHint", {"of": "return"})}
        E.externals["typing.get_type_hints"] = gth

    def mk(self, I, name):
        return SObj(I.E.index.lookup("sigma.modifiers:" + name), {}, lazy=True)

    def args(self, I, case):
        self.hints.clear()
        del self.asked[:]
        me = self.mk(I, "SigmaCompareModifier" if case == "child before" else "SigmaLessThanModifier")
        return {"self": me, "args": [], "case": case}

    def before(self, I, inp):
        case, fn = inp["case"], I.E.index.lookup(self.target)
        prefix = {"fresh": [], "parent before": ["SigmaCompareModifier"], "sibling before": ["SigmaGreaterThanModifier"], "self before": ["SigmaLessThanModifier"],
                  "parent, sibling and self before": ["SigmaCompareModifier", "SigmaGreaterThanModifier", "SigmaLessThanModifier", "SigmaValueModifier"], "child before": ["SigmaLessThanModifier"]}[case]
        for n in prefix:
            I.call_function(fn, self.mk(I, n), [], {})

    def post(self, I, inp, r):
        own = inp["self"].cls.qualname
        I.ctx.require(isinstance(r, SObj) and r.cls == "TypeHint" and r.fields["of"] == own, f"the hint is the one of the modifier's own class {own.split('.')[-1]} (got the one of {r.fields.get('of') if isinstance(r, SObj) else r!r})")

    def frame_ok(self, I, inp, obj, name):
        return True          # a cache may be written anywhere; what is decided is that the answer does not depend on it

    def replay(self, values):
        from sigma.modifiers import SigmaStartswithModifier, SigmaModifier
        from sigma.types import SigmaString, SigmaNumber

        class Loose(SigmaStartswithModifier):
            def modify(self, val: SigmaString | SigmaNumber) -> SigmaString:
                return SigmaString(str(val))
        SigmaStartswithModifier(None, [])._get_modify_type_hint()
        th = Loose(None, [])._get_modify_type_hint()
        return None if th == (SigmaString | SigmaNumber) else f"after the parent modifier was used, a derived modifier with modify(val: SigmaString | SigmaNumber) reports the accepted type {th}"
