"""C07 bounded stand-in: mutation of valid rule / correlation / filter documents (replace any value at any path by a wrong-typed
value, delete any key, out-of-range values), loaded strictly and with error collection."""
from __future__ import annotations
import copy, datetime, json, os
from pyvc.api import *

RULE = {"title": "T", "id": "929a690e-bef0-4204-a928-ef5e620d6fcc", "name": "n", "taxonomy": "sigma", "status": "test", "description": "d", "license": "MIT",
        "references": ["http://x"], "author": "a", "date": "2024-01-02", "modified": "2024/1/3", "tags": ["attack.t1000"], "level": "low", "falsepositives": ["x"],
        "fields": ["f"], "scope": ["s"], "related": [{"id": "929a690e-bef0-4204-a928-ef5e620d6fcd", "type": "similar"}],
        "logsource": {"category": "c", "product": "p", "service": "s"},
        "detection": {"sel": {"f|contains": ["a", 1], "g": None}, "kw": ["x", "y"], "lst": [{"h": "v"}, {"i|re": "x.*"}], "condition": ["sel and not kw", "1 of l*"]},
        "custom": {"k": "v"}}
CORR = {"title": "C", "id": "0e95725d-7320-415d-80f7-004da920fc11", "name": "cn", "status": "test", "level": "high",
        "correlation": {"type": "event_count", "rules": ["n"], "group-by": ["u"], "timespan": "5m", "condition": {"gte": 10}, "aliases": {"u": {"n": "User"}}, "generate": True}}
CORR2 = {"title": "C2", "correlation": {"type": "value_count", "rules": ["n", "m"], "timespan": "1h", "condition": {"lt": 3, "field": "x"}}}
CORR3 = {"title": "C3", "correlation": {"type": "temporal", "rules": ["n", "m"], "timespan": "1d", "condition": "n and not m"}}
CORR4 = {"title": "C4", "correlation": {"type": "temporal_ordered", "rules": ["n", "m"], "timespan": "1d", "group-by": ["u"]}}          # no condition: the default one is derived from the rules
CORR5 = {"title": "C5", "correlation": {"type": "temporal", "rules": "n", "timespan": "1d"}}                                          # a single reference given as text
FILT = {"title": "F", "id": "0e95725d-7320-415d-80f7-004da920fc12", "logsource": {"category": "c"}, "filter": {"rules": ["n"], "sel": {"u|startswith": "adm"}, "condition": "not sel"}}
def lab(w):
    r = repr(w)
    return r if len(r) <= 40 else f"<{type(w).__name__} of {len(r)} digits>"


WRONG = [None, True, 0, -1, 1.5, "", "x", "2024-13-45", "not-a-uuid", [], ["x"], [1], [None], [[]], {}, {"a": "b"}, {1: 2}, datetime.date(2024, 1, 2), "5x", "10", "m", "and", "1 of", "a|b", "f|nope", "2023-02-30", "2021/6/31", 10 ** 400, float("inf"), float("nan")]


def _norm(s):
    import re
    return re.sub(r"0x[0-9a-f]+", "0x..", s)


def paths(d, pre=()):
    for k, v in (d.items() if isinstance(d, dict) else enumerate(d)):
        yield pre + (k,)
        if isinstance(v, (dict, list)):
            yield from paths(v, pre + (k,))


def setp(d, path, val, delete=False):
    d = copy.deepcopy(d)
    cur = d
    for k in path[:-1]:
        cur = cur[k]
    if delete:
        del cur[path[-1]]
    else:
        cur[path[-1]] = val
    return d


@register
class C07Bounded(Bounded):
    id = "C07.bounded.mutated_documents"
    props = ("C07",)

    def run(self, tier, seed):
        from sigma.rule import SigmaRule
        from sigma.correlations import SigmaCorrelationRule
        from sigma.filters import SigmaFilter
        from sigma.collection import SigmaCollection
        from sigma.exceptions import SigmaError
        kfile = os.path.join(VERIF, "known", "c07_known_escapes.json")
        KNOWN = set(json.load(open(kfile))) if os.path.exists(kfile) else set()
        loaders = [("rule", RULE, SigmaRule.from_dict), ("correlation", CORR, SigmaCorrelationRule.from_dict), ("correlation", CORR2, SigmaCorrelationRule.from_dict),
                   ("correlation", CORR3, SigmaCorrelationRule.from_dict), ("correlation", CORR4, SigmaCorrelationRule.from_dict), ("correlation", CORR5, SigmaCorrelationRule.from_dict),
                   ("filter", FILT, SigmaFilter.from_dict)]
        ev = nontriv = 0
        seen, fails, samples, escapes = {}, [], [], []

        def fail(kind, text, inp):
            seen[kind] = seen.get(kind, 0) + 1
            if seen[kind] == 1 or (kind.startswith("escape") and seen[kind] <= 3):
                fails.append({"text": text, "input": inp})

        def check(kind, doc, fn, label):
            nonlocal ev, nontriv
            ev += 1
            strict = None
            given = copy.deepcopy(doc)
            try:
                fn(given)
            except SigmaError as e:
                strict = e
            except Exception:
                given = None
            if given is not None and given != doc and "input" not in seen:      # loading reads the document, it does not consume it (a caller may load the same parsed documents again)
                fail("input", f"loading of {kind} with {label} modified the document it was given: {str(doc)[:150]} -> {str(given)[:150]}", [kind, label, "input modified"])
            strict = None
            try:
                fn(copy.deepcopy(doc))
            except SigmaError as e:
                strict = e
            except Exception as e:
                sig = f"{kind}:{label}:{type(e).__name__}"
                escapes.append(sig)
                fail("escape-known" if sig in KNOWN else "escape-new", ("KNOWN-D8 " if sig in KNOWN else "") + f"strict loading of {kind} with {label} raises {type(e).__name__}: {e}", [kind, label])
                return
            try:
                obj = fn(copy.deepcopy(doc), collect_errors=True)
            except Exception as e:
                sig = f"{kind}:{label}:collect:{type(e).__name__}"
                escapes.append(sig)
                fail("escape-known" if sig in KNOWN else "escape-new", ("KNOWN-D8 " if sig in KNOWN else "") + f"collecting loading of {kind} with {label} raises {type(e).__name__}: {e}", [kind, label])
                return
            errs = list(getattr(obj, "errors", []))
            if strict is not None:
                nontriv += 1
            if (strict is not None) != bool(errs):
                fail("mode-mismatch", f"{kind} with {label}: strict raises {strict!r} but collecting returns errors {errs}", [kind, label])
            elif strict is not None and (type(errs[0]) is not type(strict) or _norm(str(errs[0])) != _norm(str(strict))):
                fail("first-error", f"{kind} with {label}: strict raises {strict!r}, first collected error is {errs[0]!r}", [kind, label])
        for kind, base, fn in loaders:
            check(kind, base, fn, "unchanged document")
            for p in paths(base):
                check(kind, setp(base, p, None, delete=True), fn, f"key {'/'.join(map(str, p))} deleted")
                for w in (WRONG if tier != "quick" else WRONG[:-5:2] + ["not-a-uuid", "5x", "2023-02-30", "2021/6/31", 10 ** 400, float("inf"), float("nan")]):
                    check(kind, setp(base, p, w), fn, f"{'/'.join(map(str, p))} = {lab(w)}")
        # keys of the log source map that are named like attributes of the log source OBJECT (not of the specification)
        for extra in ({"source": "x"}, {"custom_attributes": {"a": 1}}, {"source": None, "custom_attributes": "y"}, {"definition": "d", "source": ["l"]}):
            for kind, base, fn in (("rule", RULE, SigmaRule.from_dict), ("filter", FILT, SigmaFilter.from_dict)):
                check(kind, setp(base, ("logsource",), {**base["logsource"], **extra}), fn, f"logsource with the extra keys {sorted(extra)}")
        # the verdict on a document does not depend on documents loaded before: an invalid regular expression is an error every time
        for key, val in (("f|re", "a(b"), ("f|re|contains", "a(?i)b"), ("f|re|i", "[z-a]")):
            for _ in range(3):
                check("rule", setp(RULE, ("detection", "sel"), {key: val}), SigmaRule.from_dict, f"detection/sel = {{{key!r}: {val!r}}} (repeated)")
            ev += 1
            try:
                SigmaRule.from_dict(setp(RULE, ("detection", "sel"), {key: val}))
                fail("repeat", f"the invalid regular expression {val!r} under {key} is accepted when the same document is loaded again", [key, val])
            except SigmaError:
                pass
        # modifier chains whose later modifier cannot take what the earlier one produces (incl. behind an expanding modifier)
        for key in ("f|windash|i", "f|base64offset|hour", "f|windash|m", "f|base64offset|gt", "f|windash|base64offset|i", "f|contains|re", "f|re|contains", "f|cidr|contains", "f|wide|cidr", "f|exists|windash",
                    "f|re|startswith", "f|re|endswith", "f|re|i|contains", "f|re|expand|startswith", "f|contains", "f|startswith|endswith", "f|base64offset|contains", "f|windash", "f|expand"):
            for val in ("-a b", ["-a", "x"], 5, "", [""], ["", "a"], "*", "?", "\\"):
                check("rule", setp(RULE, ("detection", "sel"), {key: val}), SigmaRule.from_dict, f"detection/sel = {{{key!r}: {val!r}}}")
        for w in WRONG:
            for kind, fn in (("rule", SigmaRule.from_dict), ("correlation", SigmaCorrelationRule.from_dict), ("filter", SigmaFilter.from_dict)):
                if isinstance(w, dict):
                    check(kind, w, fn, f"whole document = {w!r}")
        # collections: order of collected errors == order strict loading meets them
        docs_sets = [[setp(RULE, ("level",), "bogus"), {"action": "nope"}], [{"action": "nope"}, setp(RULE, ("status",), 5)], [setp(CORR, ("correlation", "timespan"), ""), RULE],
                     [{"action": "global", "level": "bogus"}, RULE], [setp(FILT, ("filter", "rules"), 5)],
                     # a filter that applies to a rule whose detection section is malformed (collecting mode keeps a placeholder detection)
                     [setp(RULE, ("detection", "sel"), {"f|nope": 1}), FILT], [FILT, setp(RULE, ("detection", "condition"), None, delete=True)], [setp(RULE, ("detection",), "x"), setp(FILT, ("filter", "rules"), "any")],
                     [setp(RULE, ("detection",), None, delete=True), FILT, RULE],
                     # log source attributes of unhashable types (empty containers pass the type checks) together with a filter
                     [setp(RULE, ("logsource", "category"), []), FILT], [FILT, setp(RULE, ("logsource", "definition"), {})], [setp(RULE, ("logsource", "service"), []), setp(FILT, ("filter", "rules"), "any")]]
        # rule references of a filter that YAML does not read as text (an unquoted numeric rule name, null, a date ...) next to a rule the filter's log source covers
        import datetime as _dt
        for ref in (4625, None, 1.5, True, ["n"], _dt.date(2024, 1, 2), {"a": 1}):
            docs_sets.append([RULE, setp(FILT, ("filter", "rules"), [ref])])
            docs_sets.append([setp(FILT, ("filter", "rules"), ["zz", ref]), RULE])
        # reference cycles between correlation rules (two rules naming each other, a rule naming itself)
        cyc = lambda title, refs: {"title": title, "name": title, "correlation": {"type": "temporal", "rules": refs, "timespan": "1m", "group-by": ["u"]}}
        docs_sets.append([RULE, cyc("ca", ["cb"]), cyc("cb", ["ca"])])
        docs_sets.append([cyc("self", ["self"]), RULE])
        docs_sets.append([cyc("c1", ["c2"]), cyc("c2", ["c3"]), cyc("c3", ["c1"]), RULE])
        for di, ds in enumerate(docs_sets):
            ev += 1
            nontriv += 1
            strict = None
            try:
                SigmaCollection.from_dicts(copy.deepcopy(ds))
            except SigmaError as e:
                strict = e
            except Exception as e:
                sig = f"collection:{di}:{type(e).__name__}"
                escapes.append(sig)
                fail("escape-known" if sig in KNOWN else "escape-new", ("KNOWN-D8 " if sig in KNOWN else "") + f"strict SigmaCollection.from_dicts({str(ds)[:150]}) raises {type(e).__name__}: {e}", ["collection", di])
                continue
            try:
                col = SigmaCollection.from_dicts(copy.deepcopy(ds), collect_errors=True)
            except Exception as e:
                sig = f"collection:{di}:collect:{type(e).__name__}"
                escapes.append(sig)
                fail("escape-known" if sig in KNOWN else "escape-new", ("KNOWN-D8 " if sig in KNOWN else "") + f"collecting SigmaCollection.from_dicts({str(ds)[:150]}) raises {type(e).__name__}: {e}", ["collection", di])
                continue
            errs = list(col.errors) + [e for r in col.rules for e in getattr(r, "errors", [])] if not col.errors else list(col.errors)
            if (strict is not None) != bool(errs):
                fail("mode-mismatch", f"collection {str(ds)[:120]}: strict raises {strict!r}, collecting has errors {errs}", ["collection"])
            elif strict is not None and (type(errs[0]) is not type(strict) or str(errs[0]) != str(strict)):
                fail("first-error", f"collection {str(ds)[:160]}: strict raises {strict!r}, first collected error is {errs[0]!r}", ["collection"])
        if os.environ.get("C07_DUMP"):
            json.dump(sorted(set(escapes)), open(os.environ["C07_DUMP"], "w"), indent=0)
        # the same through load_ruleset (files): the first error collected for a file equals the error strict loading raises (type, text, location)
        import tempfile, shutil, yaml as _yaml
        from sigma.collection import SigmaCollection
        broken = {"tag without namespace": {"tags": ["nonamespace"]}, "unknown related type": {"related": [{"id": RULE["id"], "type": "nope"}]}, "invalid regular expression": {"detection": {"sel": {"f|re": "(a"}, "condition": "sel"}},
                  "infinite number": {"detection": {"sel": {"f|gt": float("inf")}, "condition": "sel"}}, "unknown level": {"level": "bogus"}, "unknown modifier": {"detection": {"sel": {"f|nope": "x"}, "condition": "sel"}},
                  "bad date": {"date": "2024-13-45"}, "bad id": {"id": "not-a-uuid"}}
        for label, patch in broken.items():
            ev += 1
            nontriv += 1
            tmpd = tempfile.mkdtemp(prefix="c07_files_")
            try:
                doc = {**{k: v for k, v in RULE.items() if k not in ("custom",)}, **patch}
                open(os.path.join(tmpd, "r.yml"), "w").write(_yaml.safe_dump(doc))
                try:
                    SigmaCollection.load_ruleset([tmpd])
                    strict = None
                except SigmaError as e:
                    strict = e
                except Exception as e:
                    strict = e
                try:
                    col = SigmaCollection.load_ruleset([tmpd], collect_errors=True)
                    collected = list(col.errors)
                except Exception as e:
                    collected = [e]
                if strict is None and collected or strict is not None and (not collected or not (type(collected[0]) is type(strict) and collected[0] == strict)):
                    fail("files", f"load_ruleset of a file with {label}: strict loading raises {strict!r}, collecting mode collects {collected[:1]!r} first (must be equal: type, text and location)", [label, "load_ruleset"])
            finally:
                shutil.rmtree(tmpd, ignore_errors=True)
        return {"evaluations": ev, "distinct_nontrivial": nontriv, "failures": fails[:30], "failure_counts": seen, "escaping_signatures": len(set(escapes)),
                "bound": f"5 valid documents x every path x (delete + {len(WRONG)} wrong-typed / out-of-range values); {len(docs_sets)} collection streams", "rule": "distinct (document, path, value); non-trivial = strict loading raises",
                "samples": samples or [{"document": "RULE", "mutation": "level = 'bogus'"}], "exhaustive": tier != "quick"}
