"""C05 / C01 bounded stand-in for field names: whatever the escaping / quoting configuration, decoding the rendered field name by the
target's rules (the escape character takes the next character literally, the quote character delimits) returns the original name."""
from __future__ import annotations
import itertools, re
from pyvc.api import *


@register
class C05FieldNames(Bounded):
    id = "C05.bounded.field_names"
    props = ("C05", "C01")

    def run(self, tier, seed):
        from sigma.backends.test import TextQueryTestBackend
        ev = 0
        fails, seen = [], {}

        def fail(kind, text, inp):
            seen[kind] = seen.get(kind, 0) + 1
            if seen[kind] <= 2:
                fails.append({"text": text, "input": inp})

        class FB(TextQueryTestBackend):
            pass
        quotes = ["'", "\"", "`", None]
        patterns = [None, "\\s", "['\\\\]", "[\\\\]", "[`\\\\]", "[ \\\\\"]", "[`'\"\\\\ ]"]       # patterns that do / do not match the quote character as well
        qpatterns = [None, "^\\w+$", "^[a-z]+$"]
        cfgs = [dict(field_quote=q, field_quote_pattern=re.compile(qp) if qp else None, field_quote_pattern_negation=neg, field_escape="\\", field_escape_quote=feq,
                     field_escape_pattern=re.compile(p) if p else None)
                for q in quotes for p in patterns for qp in qpatterns for neg in (True, False) for feq in (True, False)]
        names = ["".join(t) for n in range(1, 4 if tier == "quick" else 5) for t in itertools.product("a '\\\"`", repeat=n)]
        for ci, cfg in enumerate(cfgs):
            b = FB()
            for k, v in cfg.items():
                setattr(b, k, v)
            q = cfg["field_quote"]
            pat = cfg["field_escape_pattern"]
            escapes_backslash = bool(pat and pat.search("\\"))
            for nm in names:
                ev += 1
                out = b.escape_and_quote_field(nm)
                # the documented rendering, computed independently: ONE escape string in front of every character that the escape pattern matches
                # or that is the quote character (when field_escape_quote is set and a quote character is configured); then quoted iff the
                # quote pattern (does not) match the escaped name, always if there is no pattern
                esc = "".join(("\\" if ((pat is not None and pat.match(ch)) or (cfg["field_escape_quote"] and q is not None and ch == q)) else "") + ch for ch in nm)
                qp = cfg["field_quote_pattern"]
                quoted = q is not None and (qp is None or (bool(qp.match(esc)) != cfg["field_quote_pattern_negation"]))
                want = (q + esc + q) if quoted else esc
                if out != want:
                    fail("render", f"field name {nm!r} rendered as {out!r} under {self.show(cfg)}; escaping each matched / quote character once and quoting by the pattern gives {want!r}", [nm, ci])
                    continue
                # where the configuration escapes the escape character itself and (when it quotes) the quote character, reading the rendering by the
                # target's rules gives the name back
                escapes_quote = q is None or cfg["field_escape_quote"] or bool(pat and pat.search(q))
                if escapes_backslash and escapes_quote and quoted:
                    body, d, i = out[1:-1], "", 0
                    while i < len(body):
                        if body[i] == "\\" and i + 1 < len(body):
                            d += body[i + 1]
                            i += 2
                        else:
                            d += body[i]
                            i += 1
                    if d != nm:
                        fail("decode", f"field name {nm!r} rendered as {out!r} under {self.show(cfg)}, which decodes to {d!r}", [nm, ci])
        return {"evaluations": ev, "distinct_nontrivial": ev, "failures": fails, "failure_counts": seen,
                "bound": f"{len(cfgs)} escaping / quoting configurations (4 quote characters x 7 escape patterns incl. ones that also match the quote character x 3 quote patterns x negation x field_escape_quote) x {len(names)} names over a, blank, quotes, backslash",
                "rule": "distinct (configuration, name)", "samples": [{"name": "a'b", "config": self.show(cfgs[5])}], "exhaustive": True}

    @staticmethod
    def show(cfg):
        return {k: (v.pattern if hasattr(v, "pattern") else v) for k, v in cfg.items()}


@register
class C05Operators(Bounded):
    """the comparison a string value is rendered as - equality / match with wildcards in the operand, or startswith / endswith / contains
    whose operand is taken LITERALLY by the target - read back by the target's rules, denotes the wildcard pattern of the rule value"""
    id = "C05.bounded.operators"
    props = ("C05", "C01")

    def run(self, tier, seed):
        import re
        from sigma.backends.test import TextQueryTestBackend
        from sigma.collection import SigmaCollection
        from sigma.types import SigmaString, SpecialChars
        pieces = ["a", "b", "*", "?", "\\*", "\\?"]            # (values with a literal backslash are the recorded finding D20 and are left to the main stand-in)
        maxlen = 4 if tier == "quick" else 5
        ev = 0
        fails, seen = [], {}

        def fail(kind, text, inp):
            seen[kind] = seen.get(kind, 0) + 1
            if seen[kind] <= 2:
                fails.append({"text": text, "input": inp})

        def atoms_of_value(v):
            out = []
            for p in SigmaString(v).s:
                if isinstance(p, str):
                    out += [("L", ch) for ch in p]
                else:
                    out.append("WM" if p == SpecialChars.WILDCARD_MULTI else "WS")
            return out

        def norm(a):            # adjacent multi-character wildcards denote the same pattern as one
            out = []
            for x in a:
                if x == "WM" and out and out[-1] == "WM":
                    continue
                out.append(x)
            return out

        def read(operand, special):
            out, i = [], 0
            while i < len(operand):
                ch = operand[i]
                if ch == "\\" and i + 1 < len(operand):
                    out.append(("L", operand[i + 1]))
                    i += 2
                elif special and ch == "*":
                    out.append("WM")
                    i += 1
                elif special and ch == "?":
                    out.append("WS")
                    i += 1
                else:
                    out.append(("L", ch))
                    i += 1
            return out
        rx = re.compile(r'^f(=| (?:match|casematch|startswith|endswith|contains|startswith_cased|endswith_cased|contains_cased) )"(.*)"$', re.S)
        b = TextQueryTestBackend()
        for n in range(1, maxlen + 1):
            import itertools
            for combo in itertools.product(pieces, repeat=n):
                v = "".join(combo)
                for cased in (False, True):
                    ev += 1
                    d = {"title": "t", "logsource": {"category": "c"}, "detection": {"s": {"f" + ("|cased" if cased else ""): v}, "condition": "s"}}
                    try:
                        q = b.convert(SigmaCollection.from_dicts([d]))[0]
                    except Exception as e:
                        fail("error", f"value {v!r}{' (cased)' if cased else ''}: {type(e).__name__}: {e}", [v, cased])
                        continue
                    m = rx.match(q)
                    if not m:
                        fail("shape", f"value {v!r}{' (cased)' if cased else ''} is rendered as {q!r}, which is none of the comparisons of the test backend", [v, cased])
                        continue
                    op, operand = m.group(1).strip(), m.group(2)
                    kind = op.replace("_cased", "")
                    if (op in ("casematch",) or op.endswith("_cased")) != cased:
                        fail("case", f"value {v!r} cased={cased} is rendered with the operator {op!r}", [v, cased])
                    pat = read(operand, special=kind in ("=", "match", "casematch"))
                    if kind in ("startswith", "contains"):
                        pat = pat + ["WM"]
                    if kind in ("endswith", "contains"):
                        pat = ["WM"] + pat
                    if norm(pat) != norm(atoms_of_value(v)):
                        fail("pattern", f"value {v!r}{' (cased)' if cased else ''} is rendered as {q!r}: the target reads the pattern {norm(pat)} (operands of startswith / endswith / contains are literal), the rule value is {norm(atoms_of_value(v))}", [v, cased])
        # a string is rendered the same way as a member of an in-list and on its own (escaping, quoting, filtered characters, wildcards)
        for v in ("a&b", "x&", "&y", "a b", 'q"uote', "w*ild", "e\\*sc", "p:q", "plain"):
            ev += 1
            try:
                single = TextQueryTestBackend().convert(SigmaCollection.from_dicts([{"title": "t", "logsource": {"category": "c"}, "detection": {"s": {"f": v}, "condition": "s"}}]))[0]
                inlist = TextQueryTestBackend().convert(SigmaCollection.from_dicts([{"title": "t", "logsource": {"category": "c"}, "detection": {"s": {"f": [v, "zz"]}, "condition": "s"}}]))[0]
                lit = re.sub(r"^f ?(=|match|startswith|endswith|contains) ?", "", single)
                ok = inlist.startswith("f in (") and lit in inlist
            except Exception as e:
                single, inlist, ok = f"{type(e).__name__}: {e}", "", False
            if not ok:
                seen["in-list"] = seen.get("in-list", 0) + 1
                if seen["in-list"] <= 2:
                    fails.append({"text": f"the value {v!r} is rendered {single!r} on its own but {inlist!r} as member of a list: the list does not contain the same literal", "input": [v]})
        # numbers are rendered with their full value (read back from the query, they are the number of the rule), alone, in lists and compared
        for num in (0, 5, -3, 1.5, 0.5, 1e-05, 2.5e-07, 1234.0000005, 1700000000.5, 123456789012, 1e21, -0.000001):
            for shape, det in (("f", {"f": num}), ("f (list)", {"f": [num, 7]}), ("f|gte", {"f|gte": num})):
                ev += 1
                try:
                    q = TextQueryTestBackend().convert(SigmaCollection.from_dicts([{"title": "t", "logsource": {"category": "c"}, "detection": {"s": det, "condition": "s"}}]))[0]
                    toks = re.findall(r"(?<![\w.])-?\d+(?:\.\d+)?(?:[eE][-+]?\d+)?", q)
                    ok = any(float(t) == float(num) for t in toks)
                except Exception as e:
                    q, ok = f"{type(e).__name__}: {e}", False
                if not ok:
                    seen["number"] = seen.get("number", 0) + 1
                    if seen["number"] <= 2:
                        fails.append({"text": f"the number {num!r} of the rule ({shape}) is rendered as {q!r}: read back, no number of the query equals it", "input": [repr(num), shape]})
        return {"evaluations": ev, "distinct_nontrivial": ev, "failures": fails, "failure_counts": seen,
                "bound": f"all values of <= {maxlen} pieces over {pieces}, plain and case-sensitive, on the test backend (operators with literal operands)",
                "rule": "distinct (value, cased)", "samples": [{"value": "a?c*", "query": 'f match "a?c*"'}], "exhaustive": True}
