"""C05 / C01 bounded stand-in for field names: whatever the escaping / quoting configuration, decoding the rendered field name by the
target's rules (the escape character takes the next character literally, the quote character delimits) returns the original name."""
from __future__ import annotations
import itertools, re
from pyvc.api import *


@register
class C05FieldNames(Bounded):
    id = "C05.bounded.field_names"
    props = ("C05", "C01")

    def run(self, tier, seed):
        from sigma.backends.test import TextQueryTestBackend
        ev = 0
        fails, seen = [], {}

        def fail(kind, text, inp):
            seen[kind] = seen.get(kind, 0) + 1
            if seen[kind] <= 2:
                fails.append({"text": text, "input": inp})

        class FB(TextQueryTestBackend):
            pass
        quotes = ["'", "\"", "`", None]
        patterns = [None, "\\s", "['\\\\]", "[\\\\]", "[`\\\\]", "[ \\\\\"]", "[`'\"\\\\ ]"]       # patterns that do / do not match the quote character as well
        qpatterns = [None, "^\\w+$", "^[a-z]+$"]
        cfgs = [dict(field_quote=q, field_quote_pattern=re.compile(qp) if qp else None, field_quote_pattern_negation=neg, field_escape="\\", field_escape_quote=feq,
                     field_escape_pattern=re.compile(p) if p else None)
                for q in quotes for p in patterns for qp in qpatterns for neg in (True, False) for feq in (True, False)]
        names = ["".join(t) for n in range(1, 4 if tier == "quick" else 5) for t in itertools.product("a '\\\"`", repeat=n)]
        for ci, cfg in enumerate(cfgs):
            b = FB()
            for k, v in cfg.items():
                setattr(b, k, v)
            q = cfg["field_quote"]
            pat = cfg["field_escape_pattern"]
            escapes_backslash = bool(pat and pat.search("\\"))
            for nm in names:
                ev += 1
                out = b.escape_and_quote_field(nm)
                # the documented rendering, computed independently: ONE escape string in front of every character that the escape pattern matches
                # or that is the quote character (when field_escape_quote is set and a quote character is configured); then quoted iff the
                # quote pattern (does not) match the escaped name, always if there is no pattern
                esc = "".join(("\\" if ((pat is not None and pat.match(ch)) or (cfg["field_escape_quote"] and q is not None and ch == q)) else "") + ch for ch in nm)
                qp = cfg["field_quote_pattern"]
                quoted = q is not None and (qp is None or (bool(qp.match(esc)) != cfg["field_quote_pattern_negation"]))
                want = (q + esc + q) if quoted else esc
                if out != want:
                    fail("render", f"field name {nm!r} rendered as {out!r} under {self.show(cfg)}; escaping each matched / quote character once and quoting by the pattern gives {want!r}", [nm, ci])
                    continue
                # where the configuration escapes the escape character itself and (when it quotes) the quote character, reading the rendering by the
                # target's rules gives the name back
                escapes_quote = q is None or cfg["field_escape_quote"] or bool(pat and pat.search(q))
                if escapes_backslash and escapes_quote and quoted:
                    body, d, i = out[1:-1], "", 0
                    while i < len(body):
                        if body[i] == "\\" and i + 1 < len(body):
                            d += body[i + 1]
                            i += 2
                        else:
                            d += body[i]
                            i += 1
                    if d != nm:
                        fail("decode", f"field name {nm!r} rendered as {out!r} under {self.show(cfg)}, which decodes to {d!r}", [nm, ci])
        return {"evaluations": ev, "distinct_nontrivial": ev, "failures": fails, "failure_counts": seen,
                "bound": f"{len(cfgs)} escaping / quoting configurations (4 quote characters x 7 escape patterns incl. ones that also match the quote character x 3 quote patterns x negation x field_escape_quote) x {len(names)} names over a, blank, quotes, backslash",
                "rule": "distinct (configuration, name)", "samples": [{"name": "a'b", "config": self.show(cfgs[5])}], "exhaustive": True}

    @staticmethod
    def show(cfg):
        return {k: (v.pattern if hasattr(v, "pattern") else v) for k, v in cfg.items()}
