"""C13 (part 2) - the condition classes a pipeline item can be gated by (sigma/processing/conditions/*.py) and the tracking mixin."""
from __future__ import annotations
import z3
from pyvc.api import *
from pyvc.values import *
from pyvc import ops

ST = "sigma.processing.conditions.state"
VA = "sigma.processing.conditions.values"
CBASE = "sigma.processing.conditions.base"
TR = "sigma.processing.tracking"
OPS = {"eq": lambda a, b: a == b, "ne": lambda a, b: a != b, "gte": lambda a, b: a >= b, "gt": lambda a, b: a > b, "lte": lambda a, b: a <= b, "lt": lambda a, b: a < b}


# ----------------------------------------------------------------------------------------------- pipeline state conditions
@register
class MatchState(Contract):
    """ProcessingStateConditionBase.match_state: false if the key is not in the pipeline state; otherwise the configured relation between
    the state value and the configured value (state value on the LEFT); an unknown relation is a configuration error"""
    id = "C13.ProcessingStateConditionBase.match_state"
    target = f"{ST}:ProcessingStateConditionBase.match_state"
    props = ("C13",)
    cases = tuple((op, present) for op in ("eq", "ne", "gte", "gt", "lte", "lt", "bogus") for present in (True, False))
    assumed = ["integer-valued state in this contract (the relations are Python's)"]

    def args(self, I, case):
        op, present = case
        sv_, cv = I.fresh("state_value", "int"), I.fresh("configured_value", "int")
        pipe = SObj("Pipeline", {"state": {"k": sv_, "other": 0} if present else {"other": 0}})
        me = SObj(I.E.index.lookup(f"{ST}:ProcessingStateConditionBase"), {"key": "k", "val": cv, "op": op}, lazy=True)
        return {"self": me, "args": [pipe], "sv": sv_, "cv": cv, "case": case}

    def post(self, I, inp, r):
        op, present = inp["case"]
        if not present:
            I.ctx.require(ops.truth(I, r) is False, "a key that is not in the state never matches")
            return
        I.ctx.require(op in OPS, "an unknown relation is rejected")
        if op in OPS:
            I.ctx.require(ops.mk_bool_term(ops.truth(I, r)) == OPS[op](inp["sv"].t, inp["cv"].t), f"state value {op} configured value")

    def raises(self, I, inp, exc):
        I.ctx.require(exc_is(I, exc, "SigmaConfigurationError") and inp["case"] == ("bogus", True), f"SigmaConfigurationError exactly for an unknown relation on a present key (got {exc_name(exc)})", kind="SAFE")

    def frame_ok(self, I, inp, obj, name):
        return False


def _mk_state_cond(clsname, method, argkind):
    class C(Contract):
        __doc__ = f"{clsname}.{method}: the state of the pipeline the condition belongs to decides (match_state), whatever the item / field is; without pipeline: processing item error"
        id = f"C13.{clsname}.{method}"
        target = f"{ST}:{clsname}.{method}"
        props = ("C13",)
        cases = (True, False)

        def setup(self, E):
            E.summaries[f"{ST}:ProcessingStateConditionBase.match_state"] = lambda I, so, a, k: SObj("StateVerdict", {"of": a[0]})

        def args(self, I, case):
            pipe = SObj("Pipeline", {}) if case else None
            me = SObj(I.E.index.lookup(f"{ST}:{clsname}"), {"_pipeline": pipe, "key": "k", "val": 1, "op": "eq"}, lazy=True)
            arg = I.fresh("field", "str") if argkind == "field" else SObj(I.E.index.lookup("sigma.rule.rule:SigmaRule" if argkind == "rule" else "sigma.rule.detection:SigmaDetectionItem"), {}, lazy=True)
            return {"self": me, "args": [arg], "pipe": pipe, "case": case}

        def post(self, I, inp, r):
            I.ctx.require(inp["case"] and isinstance(r, SObj) and r.cls == "StateVerdict" and r.fields["of"] is inp["pipe"], "the verdict of match_state on the condition's own pipeline")

        def raises(self, I, inp, exc):
            I.ctx.require(exc_is(I, exc, "SigmaProcessingItemError") and not inp["case"], f"SigmaProcessingItemError exactly without pipeline (got {exc_name(exc)})", kind="SAFE")

        def frame_ok(self, I, inp, obj, name):
            return False
    C.__name__ = f"State_{clsname}"
    return C


for _c, _m, _k in (("RuleProcessingStateCondition", "match", "rule"), ("FieldNameProcessingStateCondition", "match_field_name", "field"), ("DetectionItemProcessingStateCondition", "match", "item")):
    register(_mk_state_cond(_c, _m, _k))


# ----------------------------------------------------------------------------------------------- "processing item applied" conditions
def _mk_applied(clsname, method, on):
    class C(Contract):
        __doc__ = f"{clsname}.{method}: true iff the {on} was processed by the item with the configured identifier"
        id = f"C13.{clsname}.{method}"
        target = f"{ST}:{clsname}.{method}"
        props = ("C13", "C08", "C15")
        cases = ("no-pipeline", "pipeline-applied-it-to-something", "pipeline-did-not")

        def args(self, I, case):
            got = {}

            def wpb(I2, a, k):
                got["a"] = list(a)
                got["r"] = I2.fresh("was_processed", "bool")
                return got["r"]
            pid = I.fresh("processing_item_id", "str")
            obj = SObj(I.E.index.lookup("sigma.rule.rule:SigmaRule" if on == "rule" else "sigma.rule.detection:SigmaDetectionItem"), {"was_processed_by": NativeFn("was_processed_by", wpb)}, lazy=True)
            # the pipeline's own book-keeping (identifiers applied to whatever it processed last, incl. what nested pipelines copied into it) says
            # nothing about THIS object
            pipe = None if case == "no-pipeline" else SObj("Pipeline", {"applied_ids": {pid} if case.startswith("pipeline-applied") else set(), "applied": [True], "field_name_applied_ids": {}})
            me = SObj(I.E.index.lookup(f"{ST}:{clsname}"), {"processing_item_id": pid, "_pipeline": pipe}, lazy=True)
            return {"self": me, "args": [obj], "got": got, "pid": pid}

        def post(self, I, inp, r):
            g = inp["got"]
            I.ctx.require("r" in g and r is g["r"] and len(g["a"]) == 1 and g["a"][0] is inp["pid"], f"was_processed_by(configured identifier) of this {on}")

        def frame_ok(self, I, inp, obj, name):
            return False
    C.__name__ = f"Applied_{clsname}_{method}"
    return C


register(_mk_applied("RuleProcessingItemAppliedCondition", "match", "rule"))
register(_mk_applied("DetectionItemProcessingItemAppliedCondition", "match", "detection item"))
register(_mk_applied("FieldNameProcessingItemAppliedCondition", "match_detection_item", "detection item"))


@register
class FieldNameApplied(Contract):
    """FieldNameProcessingItemAppliedCondition.match_field_name: what the pipeline's field tracking says about THIS field and the configured item"""
    id = "C13.FieldNameProcessingItemAppliedCondition.match_field_name"
    target = f"{ST}:FieldNameProcessingItemAppliedCondition.match_field_name"
    props = ("C13",)
    cases = (True, False)

    def args(self, I, case):
        got = {}

        def fwp(I2, a, k):
            got["a"] = list(a)
            got["r"] = I2.fresh("field_was_processed", "bool")
            return got["r"]
        pid, fld = I.fresh("processing_item_id", "str"), I.fresh("field", "str")
        pipe = SObj("Pipeline", {"field_was_processed_by": NativeFn("field_was_processed_by", fwp)}) if case else None
        me = SObj(I.E.index.lookup(f"{ST}:FieldNameProcessingItemAppliedCondition"), {"processing_item_id": pid, "_pipeline": pipe}, lazy=True)
        return {"self": me, "args": [fld], "got": got, "pid": pid, "fld": fld, "case": case}

    def post(self, I, inp, r):
        g = inp["got"]
        I.ctx.require(inp["case"] and "r" in g and r is g["r"] and g["a"][0] is inp["fld"] and g["a"][1] is inp["pid"], "field_was_processed_by(this field, configured identifier) of the condition's pipeline")

    def raises(self, I, inp, exc):
        I.ctx.require(exc_is(I, exc, "SigmaProcessingItemError") and not inp["case"], f"SigmaProcessingItemError exactly without pipeline (got {exc_name(exc)})", kind="SAFE")

    def frame_ok(self, I, inp, obj, name):
        return False


@register
class TrackingMixin(Contract):
    """ProcessingItemTrackingMixin: add_applied_processing_item records the item's identifier (items without identifier and None are
    ignored), was_processed_by is membership - for this object only"""
    id = "C13.ProcessingItemTrackingMixin.add_applied_processing_item"
    target = f"{TR}:ProcessingItemTrackingMixin.add_applied_processing_item"
    props = ("C13", "C15")
    cases = ("id", "no_id", "none")

    def args(self, I, case):
        ident = I.fresh("identifier", "str")
        item = None if case == "none" else SObj("ProcessingItem", {"identifier": ident if case == "id" else None})
        applied = {"earlier"}
        me = SObj(I.E.index.lookup(f"{TR}:ProcessingItemTrackingMixin"), {"applied_processing_items": applied})
        other = SObj(I.E.index.lookup(f"{TR}:ProcessingItemTrackingMixin"), {"applied_processing_items": {"x"}})
        return {"self": me, "args": [item], "applied": applied, "ident": ident, "other": other, "case": case}

    def post(self, I, inp, r):
        a = inp["self"].fields["applied_processing_items"]
        c = I.ctx
        c.require(a is inp["applied"], "the object keeps its own set")
        if inp["case"] == "id":
            c.require(len(a) == 2 and "earlier" in a and any(x is inp["ident"] for x in a), "the identifier is added to what was recorded before")
        else:
            c.require(a == {"earlier"}, "None / an item without identifier records nothing")
        c.require(inp["other"].fields["applied_processing_items"] == {"x"}, "other objects are untouched")

    def frame_ok(self, I, inp, obj, name):
        return False


# ----------------------------------------------------------------------------------------------- value conditions
@register
class ValueConditionMatch(Contract):
    """ValueProcessingCondition.match: any / all (as configured) of the per-value verdicts over ALL values of the detection item"""
    id = "C13.ValueProcessingCondition.match"
    target = f"{CBASE}:ValueProcessingCondition.match"
    props = ("C13",)
    cases = tuple((cond, n) for cond in ("any", "all") for n in (0, 1, 2, 3))
    assumed = ["match_value of the concrete condition is abstract (one symbolic verdict per value)"]

    def args(self, I, case):
        cond, n = case
        vals = [SObj("Value", {}, ghost={"v": I.fresh(f"verdict{i}", "bool")}) for i in range(n)]
        me = SObj(I.E.index.lookup(f"{CBASE}:ValueProcessingCondition"), {"cond": cond, "match_value": NativeFn("match_value", lambda I2, a, k: a[0].ghost["v"])}, lazy=True)
        me.fields["match_func"] = I.E.builtins["any" if cond == "any" else "all"]
        item = SObj(I.E.index.lookup("sigma.rule.detection:SigmaDetectionItem"), {"value": vals}, lazy=True)
        return {"self": me, "args": [item], "vals": vals, "case": case}

    def post(self, I, inp, r):
        cond, n = inp["case"]
        vs = [v.ghost["v"].t for v in inp["vals"]]
        spec = (z3.Or(*vs) if vs else z3.BoolVal(False)) if cond == "any" else (z3.And(*vs) if vs else z3.BoolVal(True))
        I.ctx.require(ops.mk_bool_term(ops.truth(I, r)) == spec, f"{cond} of the verdicts of all values")

    def frame_ok(self, I, inp, obj, name):
        return False


@register
class ValueConditionInit(Contract):
    """ValueProcessingCondition.__post_init__: 'any' -> any, 'all' -> all, anything else is a configuration error"""
    id = "C13.ValueProcessingCondition.__post_init__"
    target = f"{CBASE}:ValueProcessingCondition.__post_init__"
    props = ("C13",)
    cases = ("any", "all", "some")

    def args(self, I, case):
        return {"self": SObj(I.E.index.lookup(f"{CBASE}:ValueProcessingCondition"), {"cond": case}, lazy=True), "args": [], "case": case}

    def post(self, I, inp, r):
        f = inp["self"].fields.get("match_func")
        I.ctx.require(inp["case"] in ("any", "all") and f is I.E.builtins[inp["case"]], "match_func is the builtin named by cond")

    def raises(self, I, inp, exc):
        I.ctx.require(exc_is(I, exc, "SigmaConfigurationError") and inp["case"] == "some", f"SigmaConfigurationError exactly for an unknown mode (got {exc_name(exc)})", kind="SAFE")

    def frame_ok(self, I, inp, obj, name):
        return obj is inp["self"] and name == "match_func"


def _mk_value_kind(clsname, want_cls, verdict):
    class C(Contract):
        __doc__ = f"{clsname}.match_value: {verdict}"
        id = f"C13.{clsname}.match_value"
        target = f"{VA}:{clsname}.match_value"
        props = ("C13",)
        cases = ("SigmaString", "SigmaNumber", "SigmaNull", "SigmaRegularExpression")

        def args(self, I, case):
            idx = I.E.index
            special = I.fresh("contains_special", "bool")
            val = SObj(idx.lookup(f"sigma.types:{case}"), {"contains_special": NativeFn("contains_special", lambda I2, a, k: special)}, lazy=True)
            return {"self": SObj(idx.lookup(f"{VA}:{clsname}"), {"cond": "any"}, lazy=True), "args": [val], "special": special, "case": case}

        def post(self, I, inp, r):
            if clsname == "IsNullCondition":
                I.ctx.require(ops.truth(I, r) is (inp["case"] == "SigmaNull"), "true exactly for null values")
            else:
                if inp["case"] == "SigmaString":
                    I.ctx.require(r is inp["special"], "for strings: whether the string contains a wildcard part")
                else:
                    I.ctx.require(ops.truth(I, r) is False, "values that are not strings never match")

        def frame_ok(self, I, inp, obj, name):
            return False
    C.__name__ = f"Val_{clsname}"
    return C


register(_mk_value_kind("IsNullCondition", "SigmaNull", "true exactly for null values"))
register(_mk_value_kind("ContainsWildcardCondition", "SigmaString", "strings: contains_special(); everything else: false"))


@register
class MatchStringValue(Contract):
    """MatchStringCondition.match_value: for strings, whether the pattern matches at the beginning of the string's text, negated if
    configured; values that are not strings count as non-matching BEFORE the negation (so negate makes them match)"""
    id = "C13.MatchStringCondition.match_value"
    target = f"{VA}:MatchStringCondition.match_value"
    props = ("C13",)
    cases = tuple((kind, neg) for kind in ("SigmaString", "SigmaNumber") for neg in (False, True))
    assumed = ["re.Pattern.match is abstract (a symbolic verdict about the string's text)"]

    def args(self, I, case):
        kind, neg = case
        idx = I.E.index
        hit = I.fresh("pattern_matches", "bool")
        got = {}

        def m(I2, a, k):
            got["text"] = a[0]
            return SOpt(z3.Not(hit.t), SObj("Match", {}))
        text = I.fresh("text", "str")
        val = SObj(idx.lookup(f"sigma.types:{kind}"), {"__str__": NativeFn("__str__", lambda I2, a, k: text)}, lazy=True)
        me = SObj(idx.lookup(f"{VA}:MatchStringCondition"), {"cond": "any", "negate": neg, "re": SObj("Pattern", {"match": NativeFn("match", m)})}, lazy=True)
        return {"self": me, "args": [val], "hit": hit, "got": got, "text": text, "case": case}

    def post(self, I, inp, r):
        kind, neg = inp["case"]
        base = inp["hit"].t if kind == "SigmaString" else z3.BoolVal(False)
        I.ctx.require(ops.mk_bool_term(ops.truth(I, r)) == (z3.Not(base) if neg else base), "pattern verdict (false for non-strings), negated if configured")
        if kind == "SigmaString":
            I.ctx.require(inp["got"].get("text") is inp["text"], "the pattern is matched against the text of the value")

    def frame_ok(self, I, inp, obj, name):
        return False


# ----------------------------------------------------------------------------------------------- gating is decided anew for every rule
def _mk_gate_history(method, group, argkind):
    class C(Contract):
        __doc__ = f"""ProcessingItem.{method}: the conditions are asked EVERY time - their verdict may depend on state that changes from rule to rule
        (pipeline state, applied items), so the verdict for the same {argkind} under a later rule is that of the conditions then"""
        id = f"C13.ProcessingItem.{method}[decided anew]"
        target = f"sigma.processing.pipeline:{'ProcessingItemBase' if group == 'rule' else 'ProcessingItem'}.{method}"
        props = ("C13", "C08", "C15")
        cases = ((False, True), (True, False), (True, True), (False, False))
        assumed = ["history: the same item answered for the same argument before, while its condition said something else"]

        def args(self, I, case):
            idx = I.E.index
            cell = [case[0]]
            cond = SObj("Cond", {m: NativeFn(m, lambda I2, a, k: cell[0]) for m in ("match", "match_field_name", "match_detection_item", "match_value")})
            f = {}
            for g in ("rule", "detection_item", "field_name"):
                f[f"{g}_condition_expression"] = None
                f[f"{g}_condition_linking"] = I.E.builtins["all"]
                f[f"{g}_conditions"] = [cond] if g == group else []
                f[f"{g}_condition_negation"] = False
            me = SObj(idx.lookup("sigma.processing.pipeline:ProcessingItem"), f, lazy=True)
            arg = "fieldname" if argkind == "field name" else SObj(idx.lookup("sigma.rule.rule:SigmaRule" if argkind == "rule" else "sigma.rule.detection:SigmaDetectionItem"), {"field": "fieldname", "value": []}, lazy=True)
            return {"self": me, "args": [arg], "cell": cell, "case": case}

        def before(self, I, inp):
            r0 = I.call_function(I.E.index.lookup(self.target), inp["self"], list(inp["args"]), {})
            I.ctx.require(ops.truth(I, r0) is inp["case"][0], "the earlier answer is the condition's verdict then")
            inp["cell"][0] = inp["case"][1]

        def post(self, I, inp, r):
            I.ctx.require(ops.truth(I, r) is inp["case"][1], f"the answer is the condition's verdict now ({inp['case'][1]}), whatever was answered before ({inp['case'][0]})")

        def frame_ok(self, I, inp, obj, name):
            return True
    C.__name__ = f"GateHistory_{method}"
    return C


register(_mk_gate_history("match_field_name", "field_name", "field name"))
register(_mk_gate_history("match_detection_item", "detection_item", "detection item"))
register(_mk_gate_history("match_rule_conditions", "rule", "rule"))
