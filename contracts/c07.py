"""C07 - malformed documents raise Sigma errors only; collecting mode never raises.

Documents are symbolic YAML data (pyvc.pyval): for every key of the common rule header the value is an arbitrary YAML value
(None | bool | int | float | str | list | map | date, nested one level); SAFE obligations: only Sigma errors escape, none in collecting mode."""
from __future__ import annotations
import z3
from pyvc.api import *
from pyvc.values import *
from pyvc.pyval import pyval, install_yaml_externals
from pyvc import ops

HEADER_KEYS = ("id", "name", "taxonomy", "related", "level", "status", "tags", "date", "modified", "fields", "falsepositives", "author", "description", "references", "title",
               "scope", "license", "my_custom_attribute")


@register
class FromDictCommonParams(Contract):
    id = "C07.SigmaRuleBase.from_dict_common_params"
    target = "sigma.rule.base:SigmaRuleBase.from_dict_common_params"
    props = ("C07",)
    cases = HEADER_KEYS
    max_paths = 20000
    assumed = ["one header key at a time carries an arbitrary YAML value, the others are absent: the validation blocks read disjoint keys and write disjoint locals (checked syntactically by the inventory C07.inventory.header_blocks)",
               "may-raise sets of uuid.UUID, re.fullmatch, datetime.date, int(), str(), Enum[...] as in pyvc/pyval.py", "SigmaRelated.from_dict and SigmaRuleTag.from_str raise only their documented Sigma errors (own contracts)"]

    def setup(self, E):
        install_yaml_externals(E)
        idx = E.index

        def s_related(I, so, a, k):
            ok = I.fresh("related_ok", "bool")
            if not I.ctx.branch(ok.t):
                from pyvc.interp import PyRaise
                raise PyRaise(SObj(idx.lookup("sigma.exceptions:SigmaRelatedError"), {}, lazy=True))
            return SObj("SigmaRelated", {})
        E.summaries["sigma.rule.attributes:SigmaRelated.from_dict"] = s_related

        def s_tag(I, so, a, k):
            ok = I.fresh("tag_ok", "bool")
            if not I.ctx.branch(ok.t):
                from pyvc.interp import PyRaise
                raise PyRaise(SObj(idx.lookup("sigma.exceptions:SigmaValueError"), {}, lazy=True))
            return SObj("SigmaRuleTag", {})
        E.summaries["sigma.rule.attributes:SigmaRuleTag.from_str"] = s_tag

    def args(self, I, case):
        doc = {"title": "T"} if case != "title" else {}
        pv = pyval(I, case)
        doc[case] = pv
        ce = I.fresh("collect_errors", "bool")
        return {"self": ClassRef(I.E.index.lookup("sigma.rule.rule:SigmaRule")), "args": [doc, ce, None], "ce": ce, "key": case, "pv": pv}

    def model_terms(self, inp):
        out = dict(inp["pv"].terms)
        out["collect_errors"] = inp["ce"].t
        out["key"] = z3.StringVal(inp["key"])
        return out

    def replay(self, values):
        from pyvc.pyval import native_of
        from sigma.rule import SigmaRule
        from sigma.exceptions import SigmaError
        key, ce = values.get("key"), bool(values.get("collect_errors"))
        doc = {"title": "T"} if key != "title" else {}
        doc[key] = native_of(values)
        try:
            SigmaRule.from_dict_common_params(doc, ce)
        except SigmaError as e:
            return f"header {doc!r}: {type(e).__name__} raised although errors are collected" if ce else None
        except Exception as e:
            return f"header {doc!r} (collect_errors={ce}): {type(e).__name__}: {e} escapes the Sigma error hierarchy"
        return None

    def post(self, I, inp, r):
        c = I.ctx
        ok = isinstance(r, tuple) and len(r) == 2 and isinstance(r[0], dict) and isinstance(r[1], list)
        c.require(ok, "returns (constructor arguments, error list)")
        if ok:
            c.require(z3.Implies(z3.Not(inp["ce"].t), z3.BoolVal(len(r[1]) == 0)), "strict mode returns only if no error was found")
            c.require(all(isinstance(e, SObj) and exc_is(I, e, "SigmaError") for e in r[1]), "collected errors are Sigma errors")

    def raises(self, I, inp, exc):
        I.ctx.require(z3.And(z3.BoolVal(exc_is(I, exc, "SigmaError")), z3.Not(inp["ce"].t)),
                      f"only Sigma errors escape, and none when errors are collected (key {inp['key']!r}: got {exc_name(exc)})", kind="SAFE")

    def frame_ok(self, I, inp, obj, name):
        return False


def sigma_error_or(I, idx, result, errcls="sigma.exceptions:SigmaError", tag="ok"):
    """abstract callee: either raises a Sigma error or returns result"""
    ok = I.fresh(tag, "bool")
    if not I.ctx.branch(ok.t):
        from pyvc.interp import PyRaise
        raise PyRaise(SObj(idx.lookup(errcls), {}, lazy=True))
    return result


class _Loader(Contract):
    props = ("C07",)
    strict_only = False

    def raises(self, I, inp, exc):
        ce = inp.get("ce")
        cond = z3.BoolVal(exc_is(I, exc, "SigmaError"))
        if ce is not None:
            cond = z3.And(cond, z3.Not(ce.t))
        I.ctx.require(cond, f"only Sigma errors escape{', and none when errors are collected' if ce is not None else ''} (case {inp.get('case')!r}: got {exc_name(exc)})", kind="SAFE")

    def frame_ok(self, I, inp, obj, name):
        return False

    def model_terms(self, inp):
        out = dict(inp["pv"].terms) if "pv" in inp else {}
        if inp.get("ce") is not None:
            out["collect_errors"] = inp["ce"].t
        out["case"] = z3.StringVal(str(inp.get("case")))
        return out


@register
class SigmaRuleFromDict(_Loader):
    """SigmaRule.from_dict: the log source and detection sections may be any YAML value or be missing"""
    id = "C07.SigmaRule.from_dict"
    target = "sigma.rule.rule:SigmaRule.from_dict"
    cases = ("logsource", "detection", "missing")
    assumed = ["from_dict_common_params (own contract) and the nested detection / condition loaders are abstract: they return or raise a Sigma error"]

    def setup(self, E):
        install_yaml_externals(E)
        idx = E.index
        E.summaries["sigma.rule.base:SigmaRuleBase.from_dict_common_params"] = lambda I, so, a, k: ({}, [])
        E.summaries["sigma.rule.detection:SigmaDetection.from_definition"] = lambda I, so, a, k: sigma_error_or(I, idx, SObj("SigmaDetection", {}), tag="detection_ok")
        E.summaries["sigma.conditions:SigmaCondition"] = lambda I, so, a, k: sigma_error_or(I, idx, SObj("SigmaCondition", {}), tag="condition_ok")
        E.summaries["sigma.rule.rule:SigmaRule"] = lambda I, so, a, k: SObj("SigmaRule", dict(k))
        E.external_isinstance["typing.Mapping"] = lambda I, v: isinstance(v, dict)
        E.external_isinstance["collections.abc.Mapping"] = lambda I, v: isinstance(v, dict)

    def args(self, I, case):
        doc = {"title": "T", "logsource": {"category": "c"}, "detection": {"sel": {"f": "v"}, "condition": "sel"}}
        pv = None
        if case == "missing":
            del doc["logsource"], doc["detection"]
        else:
            pv = pyval(I, case)
            doc[case] = pv
        ce = I.fresh("collect_errors", "bool")
        inp = {"self": ClassRef(I.E.index.lookup("sigma.rule.rule:SigmaRule")), "args": [doc, ce], "ce": ce, "case": case}
        if pv is not None:
            inp["pv"] = pv
        return inp

    def post(self, I, inp, r):
        errs = r.fields.get("errors") if isinstance(r, SObj) else None
        I.ctx.require(isinstance(errs, list), "returns a rule object with an error list")
        if isinstance(errs, list):
            I.ctx.require(z3.Implies(z3.Not(inp["ce"].t), z3.BoolVal(len(errs) == 0)), "strict mode returns only if no error was found")
            I.ctx.require(all(isinstance(e, SObj) and exc_is(I, e, "SigmaError") for e in errs), "collected errors are Sigma errors")

    def replay(self, values):
        from pyvc.pyval import native_of
        from sigma.rule import SigmaRule
        from sigma.exceptions import SigmaError
        case, ce = values.get("case"), bool(values.get("collect_errors"))
        doc = {"title": "T", "logsource": {"category": "c"}, "detection": {"sel": {"f": "v"}, "condition": "sel"}}
        if case == "missing":
            del doc["logsource"], doc["detection"]
        else:
            doc[case] = native_of(values)
        try:
            SigmaRule.from_dict(doc, ce)
        except SigmaError as e:
            return f"rule {doc!r}: {type(e).__name__} raised although errors are collected" if ce else None
        except Exception as e:
            return f"rule {doc!r} (collect_errors={ce}): {type(e).__name__}: {e} escapes the Sigma error hierarchy"
        return None


@register
class DetectionFromDefinition(_Loader):
    id = "C07.SigmaDetection.from_definition"
    target = "sigma.rule.detection:SigmaDetection.from_definition"
    cases = ("definition",)
    assumed = ["SigmaDetectionItem.from_mapping / from_value are abstract (return or raise a Sigma error); nested definitions recurse into this contract"]

    def setup(self, E):
        install_yaml_externals(E)
        idx = E.index
        E.summaries["sigma.rule.detection:SigmaDetectionItem.from_mapping"] = lambda I, so, a, k: sigma_error_or(I, idx, SObj(idx.lookup("sigma.rule.detection:SigmaDetectionItem"), {}, lazy=True), tag="item_ok")
        E.summaries["sigma.rule.detection:SigmaDetectionItem.from_value"] = lambda I, so, a, k: sigma_error_or(I, idx, SObj(idx.lookup("sigma.rule.detection:SigmaDetectionItem"), {}, lazy=True), tag="item_ok")
        E.external_isinstance["typing.Mapping"] = lambda I, v: isinstance(v, dict)
        E.external_isinstance["collections.abc.Mapping"] = lambda I, v: isinstance(v, dict)

    def args(self, I, case):
        pv = pyval(I, "definition")
        return {"self": ClassRef(I.E.index.lookup("sigma.rule.detection:SigmaDetection")), "args": [pv, None], "pv": pv, "case": case}

    def before(self, I, inp):
        # the recursive call on list elements is summarised by this contract
        idx = I.E.index
        I.E.summaries["sigma.rule.detection:SigmaDetection.from_definition"] = lambda I2, so, a, k: sigma_error_or(I2, idx, SObj(idx.lookup("sigma.rule.detection:SigmaDetection"), {}, lazy=True), tag="nested_ok")

    def replay(self, values):
        from pyvc.pyval import native_of
        from sigma.rule import SigmaDetection
        from sigma.exceptions import SigmaError
        d = native_of(values)
        try:
            SigmaDetection.from_definition(d)
        except SigmaError:
            return None
        except Exception as e:
            return f"detection definition {d!r}: {type(e).__name__}: {e} escapes the Sigma error hierarchy"
        return None


@register
class LogSourceFromDict(_Loader):
    id = "C07.SigmaLogSource.from_dict"
    target = "sigma.rule.logsource:SigmaLogSource.from_dict"
    cases = ("category", "product", "service", "definition", "custom")

    def setup(self, E):
        install_yaml_externals(E)

    def args(self, I, case):
        pv = pyval(I, case)
        return {"self": ClassRef(I.E.index.lookup("sigma.rule.logsource:SigmaLogSource")), "args": [{"category": "c", case: pv}, None], "pv": pv, "case": case}

    def replay(self, values):
        from pyvc.pyval import native_of
        from sigma.rule import SigmaLogSource
        from sigma.exceptions import SigmaError
        d = {"category": "c", values.get("case"): native_of(values)}
        try:
            SigmaLogSource.from_dict(d)
        except SigmaError:
            return None
        except Exception as e:
            return f"log source {d!r}: {type(e).__name__}: {e} escapes the Sigma error hierarchy"
        return None


@register
class SigmaNumberInit(Contract):
    """SigmaNumber.__post_init__: whatever float() / int() do with the raw value - succeed, ValueError (text that is no number),
    OverflowError (an integer beyond the float range, int(inf)) - the outcome is a number (int when it represents the value exactly) or
    SigmaValueError; inf and nan are rejected"""
    id = "C07.SigmaNumber.__post_init__"
    target = "sigma.types:SigmaNumber.__post_init__"
    props = ("C07", "C03")
    assumed = ["float() and int() of an arbitrary YAML scalar return a number or raise ValueError / TypeError-free OverflowError (CPython contract of the two constructors for str / int / float inputs)",
               "numbers are mathematical values in this contract"]

    def setup(self, E):
        from pyvc.interp import PyRaise

        def conv(name):
            def f(I, a, k):
                j = I.ctx.choose([I.fresh(f"{name}_ok", "bool").t, I.fresh(f"{name}_value_error", "bool").t, z3.BoolVal(True)])
                if j == 1:
                    raise PyRaise(ExcValue("ValueError", ("bad number",)))
                if j == 2:
                    raise PyRaise(ExcValue("OverflowError", ("too large",)))
                r = I.fresh(name, "int")
                I.E._c07_num[name] = r
                return r
            nf = NativeFn(name, f)
            if name == "int":          # isinstance(raw, int): whether the raw value is an integer is an unknown of the document
                nf.isinstance_hook = lambda I, v: I.E._c07_num["raw_is_int"].t
            return nf
        E.builtins = dict(E.builtins)
        E.builtins["float"] = conv("float")
        E.builtins["int"] = conv("int")
        E.externals["math.isfinite"] = lambda I, a, k: I.E._c07_num.setdefault("finite", I.fresh("isfinite", "bool"))

    def args(self, I):
        I.E._c07_num = {"raw_is_int": I.fresh("raw_is_int", "bool")}
        me = SObj(I.E.index.lookup("sigma.types:SigmaNumber"), {})
        return {"self": me, "args": [I.fresh("raw", "opaque", "Scalar")]}

    def post(self, I, inp, r):
        n = I.E._c07_num
        me = inp["self"]
        c = I.ctx
        c.require("float" in n and "int" in n and "finite" in n, "both conversions succeeded")
        if "float" in n and "int" in n and "finite" in n:
            c.require(n["finite"].t, "inf / nan are rejected")
            num = me.fields.get("number")
            ok = num is not None and ops.kind_of(num) == "int"
            c.require(ok, "a number is stored")
            if ok:
                # from the property (C03: a number keeps its content): an integer is stored as exactly that integer - also where float() would
                # round it (D38); anything else has the value of float(raw), as int where that is exact
                c.require(z3.If(n["raw_is_int"].t, ops.mk_bool_term(ops.py_eq(I, num, n["int"])), ops.mk_bool_term(ops.py_eq(I, num, n["float"]))),
                          "an integer is stored as that integer (whatever float() makes of it); any other number has the value of float(raw)")

    def raises(self, I, inp, exc):
        I.ctx.require(exc_is(I, exc, "SigmaValueError"), f"only SigmaValueError (got {exc_name(exc)})", kind="SAFE")

    def frame_ok(self, I, inp, obj, name):
        return obj is inp["self"] and name == "number"
