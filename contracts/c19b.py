"""C19 (part 2) - the walkers of the validator base classes and of SigmaValidator (sigma/validators/base.py, sigma/validation.py): every
detection / detection item / value / tag of the rule is shown to the validator exactly once, in the rule's order, nothing is written to
the rule, and the issues are exactly the concatenation of what the validator reported."""
from __future__ import annotations
import z3
from pyvc.api import *
from pyvc.values import *
from pyvc import ops

VB = "sigma.validators.base"
VA = "sigma.validation"


def issue(n):
    return SObj("Issue", {"n": n})


def same(a, b):
    a = list(a) if isinstance(a, (list, tuple)) else None
    return a is not None and len(a) == len(b) and all(x is y for x, y in zip(a, b))


@register
class DetectionValidatorValidate(Contract):
    """SigmaDetectionValidator.validate: validate_detection is called once per detection of a detection rule with its name, in order; the
    issues are concatenated; a correlation rule yields nothing"""
    id = "C19.SigmaDetectionValidator.validate"
    target = f"{VB}:SigmaDetectionValidator.validate"
    props = ("C19",)
    cases = (0, 1, 3, "correlation")

    def args(self, I, case):
        idx = I.E.index
        seen, allissues = [], []

        def vd(I2, a, k):
            seen.append((a[0], a[1]))
            out = [issue(f"{a[0]}-1"), issue(f"{a[0]}-2")] if a[0] != "d1" else []
            allissues.extend(out)
            return list(out)
        n = 0 if case == "correlation" else case
        dets = {f"d{i}": SObj("Detection", {}) for i in range(n)}
        rule = SObj(idx.lookup("sigma.correlations:SigmaCorrelationRule"), {}, lazy=True) if case == "correlation" else \
            SObj(idx.lookup("sigma.rule.rule:SigmaRule"), {"detection": SObj("Detections", {"detections": dets})}, lazy=True)
        me = SObj(idx.lookup(f"{VB}:SigmaDetectionValidator"), {"validate_detection": NativeFn("vd", vd)}, lazy=True)
        return {"self": me, "args": [rule], "seen": seen, "issues": allissues, "dets": dets, "rule": rule}

    def post(self, I, inp, r):
        c = I.ctx
        c.require([n for n, _ in inp["seen"]] == list(inp["dets"]) and all(d is inp["dets"][n] for n, d in inp["seen"]), "every detection once, with its name, in order")
        c.require(same(I.force(r) if not isinstance(r, list) else r, inp["issues"]), "the issues reported for the detections, concatenated in order")
        c.require(inp["self"].fields.get("rule") is inp["rule"], "the validator remembers the rule it is looking at")

    def frame_ok(self, I, inp, obj, name):
        return obj is inp["self"] and name == "rule"


@register
class DetectionItemValidatorWalk(Contract):
    """SigmaDetectionItemValidator.validate_detection: every detection item is shown once, nested detections are walked in place, the issues
    keep the order of the items"""
    id = "C19.SigmaDetectionItemValidator.validate_detection"
    target = f"{VB}:SigmaDetectionItemValidator.validate_detection"
    props = ("C19",)

    def args(self, I):
        idx = I.E.index
        DI, D = idx.lookup("sigma.rule.detection:SigmaDetectionItem"), idx.lookup("sigma.rule.detection:SigmaDetection")
        items = {n: SObj(DI, {}, lazy=True) for n in "abcd"}
        inner = SObj(D, {"detection_items": [items["c"]]}, lazy=True)
        mid = SObj(D, {"detection_items": [items["b"], inner]}, lazy=True)
        det = SObj(D, {"detection_items": [items["a"], mid, items["d"]]}, lazy=True)
        seen, allissues = [], []

        def vdi(I2, a, k):
            seen.append(a[0])
            out = [issue(len(seen))]
            allissues.extend(out)
            return out
        me = SObj(idx.lookup(f"{VB}:SigmaDetectionItemValidator"), {"validate_detection_item": NativeFn("vdi", vdi)}, lazy=True)
        return {"self": me, "args": ["sel", det], "seen": seen, "issues": allissues, "items": items, "shape": (det, mid, inner)}

    def post(self, I, inp, r):
        it = inp["items"]
        I.ctx.require(same(inp["seen"], [it["a"], it["b"], it["c"], it["d"]]), "every item once, depth first, in order")
        I.ctx.require(same(I.force(r) if not isinstance(r, list) else r, inp["issues"]), "the issues in the order of the items")
        det, mid, inner = inp["shape"]
        I.ctx.require(len(det.fields["detection_items"]) == 3 and len(mid.fields["detection_items"]) == 2 and len(inner.fields["detection_items"]) == 1, "the detection is not modified", kind="FRAME")

    def frame_ok(self, I, inp, obj, name):
        return False


@register
class ValueValidatorWalk(Contract):
    """SigmaValueValidator.validate_detection_item: validate_value once per value, in order"""
    id = "C19.SigmaValueValidator.validate_detection_item"
    target = f"{VB}:SigmaValueValidator.validate_detection_item"
    props = ("C19",)
    cases = (0, 1, 3)

    def args(self, I, case):
        idx = I.E.index
        vals = [SObj("Value", {}) for _ in range(case)]
        item = SObj(idx.lookup("sigma.rule.detection:SigmaDetectionItem"), {"value": list(vals)}, lazy=True)
        seen, allissues = [], []

        def vv(I2, a, k):
            seen.append(a[0])
            out = [issue(len(seen)), issue(-len(seen))] if len(seen) != 2 else []
            allissues.extend(out)
            return out
        me = SObj(idx.lookup(f"{VB}:SigmaValueValidator"), {"validate_value": NativeFn("vv", vv)}, lazy=True)
        return {"self": me, "args": [item], "seen": seen, "issues": allissues, "vals": vals, "item": item}

    def post(self, I, inp, r):
        I.ctx.require(same(inp["seen"], inp["vals"]), "every value once, in order")
        I.ctx.require(same(I.force(r) if not isinstance(r, list) else r, inp["issues"]), "the issues in the order of the values")
        I.ctx.require(same(inp["item"].fields["value"], inp["vals"]), "the value list is not modified", kind="FRAME")

    def frame_ok(self, I, inp, obj, name):
        return False


@register
class StringValueValidatorGate(Contract):
    """SigmaStringValueValidator.validate_value: strings (and case-sensitive strings) are shown to validate_string, other values yield no issue"""
    id = "C19.SigmaStringValueValidator.validate_value"
    target = f"{VB}:SigmaStringValueValidator.validate_value"
    props = ("C19",)
    cases = ("SigmaString", "SigmaCasedString", "SigmaNumber", "SigmaRegularExpression", "SigmaNull")

    def args(self, I, case):
        idx = I.E.index
        v = SObj(idx.lookup(f"sigma.types:{case}"), {}, lazy=True)
        seen, out = [], [issue(1)]
        me = SObj(idx.lookup(f"{VB}:SigmaStringValueValidator"), {"validate_string": NativeFn("vs", lambda I2, a, k: (seen.append(a[0]), out)[1])}, lazy=True)
        return {"self": me, "args": [v], "seen": seen, "out": out, "v": v, "case": case}

    def post(self, I, inp, r):
        if inp["case"] in ("SigmaString", "SigmaCasedString"):
            I.ctx.require(r is inp["out"] and same(inp["seen"], [inp["v"]]), "a string is shown to validate_string; its issues are returned")
        else:
            I.ctx.require(I.force(r) == [] and inp["seen"] == [], "other value types: no issue")

    def frame_ok(self, I, inp, obj, name):
        return False


@register
class TagValidatorWalk(Contract):
    """SigmaTagValidator.validate: validate_tag once per tag of the rule, in order"""
    id = "C19.SigmaTagValidator.validate"
    target = f"{VB}:SigmaTagValidator.validate"
    props = ("C19",)
    cases = (0, 2)

    def args(self, I, case):
        idx = I.E.index
        tags = [SObj("Tag", {}) for _ in range(case)]
        rule = SObj(idx.lookup("sigma.rule.rule:SigmaRule"), {"tags": list(tags)}, lazy=True)
        seen, allissues = [], []

        def vt(I2, a, k):
            seen.append(a[0])
            out = [issue(len(seen))]
            allissues.extend(out)
            return out
        me = SObj(idx.lookup(f"{VB}:SigmaTagValidator"), {"validate_tag": NativeFn("vt", vt)}, lazy=True)
        return {"self": me, "args": [rule], "seen": seen, "issues": allissues, "tags": tags, "rule": rule}

    def post(self, I, inp, r):
        I.ctx.require(same(inp["seen"], inp["tags"]) and same(I.force(r) if not isinstance(r, list) else r, inp["issues"]), "every tag once, in order; issues concatenated")
        I.ctx.require(same(inp["rule"].fields["tags"], inp["tags"]), "the tag list is not modified", kind="FRAME")

    def frame_ok(self, I, inp, obj, name):
        return obj is inp["self"] and name == "rule"


@register
class IssuePostInit(Contract):
    """SigmaValidationIssue.__post_init__: a single rule becomes a one-element list, a list stays as it is"""
    id = "C19.SigmaValidationIssue.__post_init__"
    target = f"{VB}:SigmaValidationIssue.__post_init__"
    props = ("C19",)
    cases = ("single-rule", "single-correlation", "list")

    def args(self, I, case):
        idx = I.E.index
        r1 = SObj(idx.lookup("sigma.rule.rule:SigmaRule"), {}, lazy=True)
        r2 = SObj(idx.lookup("sigma.correlations:SigmaCorrelationRule"), {}, lazy=True)
        rules = {"single-rule": r1, "single-correlation": r2, "list": [r1, r2]}[case]
        me = SObj(idx.lookup(f"{VB}:SigmaValidationIssue"), {"rules": rules})
        return {"self": me, "args": [], "rules": rules, "case": case}

    def post(self, I, inp, r):
        got = inp["self"].fields["rules"]
        if inp["case"] == "list":
            I.ctx.require(got is inp["rules"], "a list is kept")
        else:
            I.ctx.require(isinstance(got, list) and len(got) == 1 and got[0] is inp["rules"], "a single rule (of either kind) is wrapped into a list")

    def frame_ok(self, I, inp, obj, name):
        return obj is inp["self"] and name == "rules"


@register
class ValidatorFinalize(Contract):
    """SigmaValidator.finalize: the issues of every validator's finalize, each validator asked once"""
    id = "C19.SigmaValidator.finalize"
    target = f"{VA}:SigmaValidator.finalize"
    props = ("C19",)

    def args(self, I):
        asked, allissues = [], []

        def mk(n, k):
            def f(I2, a, kk):
                asked.append(n)
                out = [issue(f"{n}{i}") for i in range(k)]
                allissues.extend(out)
                return out
            return SObj("Validator" + n, {"finalize": NativeFn("finalize", f)})
        vs = [mk("A", 2), mk("B", 0), mk("C", 1)]
        me = SObj(I.E.index.lookup(f"{VA}:SigmaValidator"), {"validators": list(vs)}, lazy=True)
        return {"self": me, "args": [], "asked": asked, "issues": allissues}

    def post(self, I, inp, r):
        I.ctx.require(inp["asked"] == ["A", "B", "C"] and same(I.force(r) if not isinstance(r, list) else r, inp["issues"]), "every validator is finalized once; the issues are concatenated")

    def frame_ok(self, I, inp, obj, name):
        return False


@register
class ValidateRules(Contract):
    """SigmaValidator.validate_rules: every rule is validated once, in order, THEN the validators are finalized once; the result is the
    per-rule issues followed by the finalization issues"""
    id = "C19.SigmaValidator.validate_rules"
    target = f"{VA}:SigmaValidator.validate_rules"
    props = ("C19",)
    cases = (0, 1, 3)

    def setup(self, E):
        E._c19b = {"trace": [], "issues": []}

        def vr(I, so, a, k):
            E._c19b["trace"].append(("rule", a[0]))
            out = [issue(len(E._c19b["trace"]))]
            E._c19b["issues"].extend(out)
            return out

        def fin(I, so, a, k):
            E._c19b["trace"].append(("finalize", None))
            out = [issue("f1"), issue("f2")]
            E._c19b["issues"].extend(out)
            return out
        E.summaries[f"{VA}:SigmaValidator.validate_rule"] = vr
        E.summaries[f"{VA}:SigmaValidator.finalize"] = fin

    def args(self, I, case):
        I.E._c19b["trace"].clear()
        I.E._c19b["issues"].clear()
        rules = [SObj("Rule", {}) for _ in range(case)]
        me = SObj(I.E.index.lookup(f"{VA}:SigmaValidator"), {}, lazy=True)
        return {"self": me, "args": [list(rules)], "rules": rules}

    def post(self, I, inp, r):
        tr = I.E._c19b["trace"]
        I.ctx.require([t[0] for t in tr] == ["rule"] * len(inp["rules"]) + ["finalize"] and all(t[1] is x for t, x in zip(tr, inp["rules"])), "each rule once in order, finalization once at the end")
        I.ctx.require(same(I.force(r) if not isinstance(r, list) else r, I.E._c19b["issues"]), "per-rule issues followed by the finalization issues")

    def frame_ok(self, I, inp, obj, name):
        return False


@register
class ValidatorFromDict(Contract):
    """SigmaValidator.from_dict: the validator set is built from the names in order (`all`, additions, removals with a leading `-`); the
    exclusion table maps each rule id (as UUID; null for rules without id) to exactly the validator classes named for it (a single name or a
    list); the configuration is passed per validator name; unknown names, a removal of a validator that is not in the set and a
    configuration that is no map are configuration errors"""
    id = "C19.SigmaValidator.from_dict"
    target = f"{VA}:SigmaValidator.from_dict"
    props = ("C19",)
    cases = ("all-minus", "listed", "remove-missing", "unknown-validator", "exclusions", "exclusion-unknown", "config", "config-unknown", "config-not-map", "empty")

    def setup(self, E):
        E.externals["uuid.UUID"] = lambda I, a, k: SObj("UUID", {"of": a[0]})
        E._c19b_made = []

        def hook(I, cinfo, args, kwargs):
            from pyvc.interp import UNBOUND
            if cinfo.name == "SigmaValidator":
                E._c19b_made.append((list(args), dict(kwargs)))
                return SObj("NewValidator", {})
            return UNBOUND
        E.instantiate_hook = hook

    def args(self, I, case):
        del I.E._c19b_made[:]
        A, B, C = SObj("ClassA", {}), SObj("ClassB", {}), SObj("ClassC", {})
        reg = {"a": A, "b": B, "c": C}
        idtext = I.fresh("rule_id", "str")
        d = {"all-minus": {"validators": ["all", "-b"]}, "listed": {"validators": ["c", "a", "c"]}, "remove-missing": {"validators": ["a", "-b"]}, "unknown-validator": {"validators": ["a", "zz"]},
             "exclusions": {"validators": ["all"], "exclusions": {idtext: "a", None: ["b", "c"]}}, "exclusion-unknown": {"validators": ["all"], "exclusions": {idtext: ["a", "zz"]}},
             "config": {"validators": ["a"], "config": {"a": {"k": 1}, "b": {}}}, "config-unknown": {"validators": ["a"], "config": {"zz": {}}}, "config-not-map": {"validators": ["a"], "config": {"a": 5}}, "empty": {}}[case]
        return {"self": ClassRef(I.E.index.lookup(f"{VA}:SigmaValidator")), "args": [d, reg], "reg": reg, "d": d, "idtext": idtext, "case": case}

    def post(self, I, inp, r):
        c, case, reg = I.ctx, inp["case"], inp["reg"]
        c.require(case in ("all-minus", "listed", "exclusions", "config", "empty"), "faulty definitions are rejected")
        m = I.E._c19b_made
        ok = len(m) == 1 and len(m[0][0]) == 3 and not m[0][1]
        c.require(ok, "one validator object built from (classes, exclusions, configuration)")
        if not ok:
            return
        classes, excl, conf = [I.force(x) for x in m[0][0]]
        want = {"all-minus": {"a", "c"}, "listed": {"a", "c"}, "exclusions": {"a", "b", "c"}, "config": {"a"}, "empty": set()}[case]
        c.require(isinstance(classes, set) and len(classes) == len(want) and all(any(x is reg[n] for x in classes) for n in want), f"the validator classes {sorted(want)}")
        if case == "exclusions":
            keys = list(excl)
            byid = [k for k in keys if isinstance(k, SObj) and k.cls == "UUID" and k.fields["of"] is inp["idtext"]]
            c.require(len(keys) == 2 and len(byid) == 1 and None in excl, "one entry per rule id: the UUID of the id text, and null for rules without id")
            if len(byid) == 1 and None in excl:
                e1, e2 = I.force(excl[byid[0]]), I.force(excl[None])
                c.require(isinstance(e1, set) and len(e1) == 1 and next(iter(e1)) is reg["a"], "a single name excludes exactly that validator class")
                c.require(isinstance(e2, set) and len(e2) == 2 and all(any(x is reg[n] for x in e2) for n in ("b", "c")), "a list of names excludes exactly those classes")
        else:
            c.require(excl == {}, "no exclusions")
        if case == "config":
            c.require(isinstance(conf, dict) and list(conf) == ["a", "b"] and conf["a"] is inp["d"]["config"]["a"], "the configuration map of each named validator")
        else:
            c.require(conf == {}, "no configuration")

    def raises(self, I, inp, exc):
        I.ctx.require(inp["case"] in ("remove-missing", "unknown-validator", "exclusion-unknown", "config-unknown", "config-not-map") and exc_is(I, exc, "SigmaConfigurationError") and I.E._c19b_made == [],
                      f"SigmaConfigurationError exactly for faulty definitions, nothing built (got {exc_name(exc)} in case {inp['case']})")

    def frame_ok(self, I, inp, obj, name):
        return False


@register
class ValidatorInit(Contract):
    """SigmaValidator.__init__: one instance per validator class, built with the configuration of ITS identifier; the exclusion table of
    the new object has the caller's entries - and the CALLER's table and its sets are left as they are (a table may be used for several
    validator objects with different validator subsets)"""
    id = "C19.SigmaValidator.__init__"
    target = f"{VA}:SigmaValidator.__init__"
    props = ("C19",)
    cases = ("two-classes", "subset", "none")

    def setup(self, E):
        E.summaries["sigma.validators.core:validator_classname_to_identifier"] = lambda I, so, a, k: {"DanglingDetectionValidator": "dangling_detection", "AllOfThemConditionValidator": "all_of_them_condition",
                                                                                                    "DanglingConditionValidator": "dangling_condition"}[I.force(a[0])]
        E._c19b_inst = []

        def hook(I, cinfo, args, kwargs):
            from pyvc.interp import UNBOUND
            if cinfo.name.endswith("Validator") and cinfo.name != "SigmaValidator":
                o = SObj(cinfo, {}, lazy=True)
                E._c19b_inst.append((cinfo.name, list(args), dict(kwargs), o))
                return o
            return UNBOUND
        E.instantiate_hook = hook

    def args(self, I, case):
        del I.E._c19b_inst[:]
        idx = I.E.index
        VC = "sigma.validators.core.condition"
        A, B, C = (ClassRef(idx.lookup(f"{VC}:{n}")) for n in ("DanglingDetectionValidator", "AllOfThemConditionValidator", "DanglingConditionValidator"))
        classes = {"two-classes": [A, B], "subset": [B], "none": []}[case]
        rid1, rid2 = SObj("UUID", {"n": 1}), SObj("UUID", {"n": 2})
        s1, s2 = {A, C}, {B}
        excl = {rid1: s1, rid2: s2, None: {A}}
        cfg_b = {"some_option": I.fresh("opt", "str")}
        conf = {"all_of_them_condition": cfg_b}
        me = SObj(idx.lookup(f"{VA}:SigmaValidator"), {})
        return {"self": me, "args": [classes, excl, conf], "classes": classes, "excl": excl, "sets": (s1, s2), "snap": ({A, C}, {B}), "keys": [rid1, rid2, None], "cfg_b": cfg_b, "A": A, "B": B, "case": case}

    def post(self, I, inp, r):
        c, me = I.ctx, inp["self"]
        inst = I.E._c19b_inst
        want = [cl.info.name for cl in inp["classes"]]
        c.require(sorted(x[0] for x in inst) == sorted(want) and all(not x[1] for x in inst), "one instance per validator class")
        for name, a, k, o in inst:
            if name == "AllOfThemConditionValidator":
                c.require(set(k) == {"some_option"} and k["some_option"] is inp["cfg_b"]["some_option"], "a validator is built with the configuration given under its identifier")
            else:
                c.require(k == {}, "a validator without configuration is built with defaults")
        vs = me.fields.get("validators")
        vs = I.force(vs) if not isinstance(vs, (set, list)) else vs
        c.require(isinstance(vs, (set, list)) and len(vs) == len(inst) and all(any(v is x[3] for v in vs) for x in inst), "validators: exactly those instances")
        ex = me.fields.get("exclusions")
        c.require(isinstance(ex, dict) and len(ex) == 3 and all(any(k is kk for kk in ex) for k in inp["keys"]), "exclusions: the caller's entries")
        s1, s2 = inp["sets"]
        c.require(list(inp["excl"]) == inp["keys"] and inp["excl"][inp["keys"][0]] is s1 and inp["excl"][inp["keys"][1]] is s2 and s1 == inp["snap"][0] and s2 == inp["snap"][1],
                  "the caller's exclusion table and its sets are not modified (they also name validators this object does not run)", kind="FRAME")
        if isinstance(ex, dict):
            got1 = [v for k, v in ex.items() if k is inp["keys"][0]]
            c.require(len(got1) == 1 and set(I.force(got1[0])) == inp["snap"][0], "an entry keeps every excluded class, also classes of validators that are not instantiated here")

    def frame_ok(self, I, inp, obj, name):
        return obj is inp["self"] and name in ("validators", "exclusions")
